#!/usr/bin/env python3
# tools/import_mutant.py <mutdir> <seed-id> <confirm-log> <eval-log>
# copies a confirmed seeded change into /verif/seeded/<seed-id>/ with its demonstration and a meta.json
import json,sys,os,shutil,re
mut,sid,clog,elog=sys.argv[1:5]
note=sys.argv[5] if len(sys.argv)>5 else None
dst=f'/verif/seeded/{sid}'; os.makedirs(dst,exist_ok=True)
for f in os.listdir(mut):
    if f.endswith('.go') or f in ('patch.diff','patch.orig.diff'): shutil.copy(os.path.join(mut,f),dst)
meta=json.load(open(os.path.join(mut,'meta.json')))
c=open(clog).read(); blk=c.split('== '+mut+'\n')
conf=blk[1].split('== ')[0].strip() if len(blk)>1 else ''
ev=[l for l in open(elog) if l.startswith(mut+' ')]
out={"id":sid,"breaks_property":meta.get('property'),"files":meta.get('files'),"what":meta.get('what'),"needs_to_manifest":meta.get('needs'),
 "author_ran":meta.get('ran'),
 "confirmed_in_scratch_worktree":conf,
 "check_result":[l.strip()[:600] for l in ev]}
if note: out['note']=note
if os.path.exists(os.path.join(mut,'patch.orig.diff')): out['rebased']='patch.diff is the author\'s change re-applied by hand on top of a later fix: commit in /repo (patch.orig.diff is the original)'
json.dump(out,open(os.path.join(dst,'meta.json'),'w'),indent=1)
print(sid, 'confirmed' if 'FAIL' in conf and 'demo clean : ok' in conf else 'CHECK', '| detected' if any('exit=1' in l for l in ev) else '| missed')
