#!/bin/bash
# tools/eval_all.sh <logfile> <mutdir>:<prop> ... : evaluates seeded changes one after another (single worktree,
# one at a time: concurrent evaluations in one worktree corrupt each other).
log=$1; shift
exec 9>/tmp/eval_all.lock
flock 9
for mp in "$@"; do
  m=${mp%%:*}; p=${mp##*:}
  WT=/tmp/wt_evalC /verif/tools/eval_mutant.sh $m $p >> $log 2>&1
done
