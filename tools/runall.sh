#!/bin/bash
# tools/runall.sh [quick|thorough]: runs every registered check and prints one line per property
tier=${1:-quick}
cd /verif
for p in $(python3 -c "import json;print(' '.join(c['property_id'] for c in json.load(open('MANIFEST.json'))['checks']))"); do
  t0=$(date +%s); ./check $p --tier $tier > /tmp/runall_$p.log 2>&1; rc=$?; t1=$(date +%s)
  echo "$p exit=$rc secs=$((t1-t0)) $(tail -1 /tmp/runall_$p.log | cut -c1-200)"
done
