#!/bin/bash
# tools/confirm_mutant.sh <mutdir> <worktree>  : confirms (in the scratch worktree) that the demo fails with the
# patch and passes without it, and that the touched packages' own tests still pass with the patch.
set -u
mut=$1; wt=$2
export GOFLAGS=-mod=mod GOPROXY=off
cd $wt || exit 2
git checkout -q -- . ; 
demo=$(ls $mut/demo_test.go $mut/*_test.go 2>/dev/null | head -1)
place=$(grep -m1 -o 'place in: *[^ ]*' $demo | sed 's/place in: *//')
[ -z "$place" ] && { echo "NO-PLACE $mut"; exit 2; }
dst=$wt/$place/zz_demo_mut_test.go
cp $demo $dst
base=$(timeout 600 go test -count=1 -run . $( grep -q '^func Test' $demo && echo "-run $(grep -o '^func Test[A-Za-z0-9_]*' $demo | sed 's/func //' | paste -sd'|')" ) ./$place/ 2>&1 | tail -3)
git apply $mut/patch.diff || { echo "APPLY-FAIL $mut"; rm -f $dst; exit 2; }
withm=$(timeout 600 go test -count=1 -run "$(grep -o '^func Test[A-Za-z0-9_]*' $demo | sed 's/func //' | paste -sd'|')" ./$place/ 2>&1 | tail -3)
rm -f $dst
pkgs=$(git diff --name-only | xargs -n1 dirname | sort -u | sed 's|^|./|' | paste -sd' ')
pk=$(timeout 1200 go test -count=1 $pkgs 2>&1 | tail -4)
git checkout -q -- .
echo "== $mut"
echo "demo clean : $(echo "$base" | tr '\n' ' ' | cut -c1-200)"
echo "demo mutant: $(echo "$withm" | tr '\n' ' ' | cut -c1-200)"
echo "pkg tests with mutant ($pkgs): $(echo "$pk" | tr '\n' ' ' | cut -c1-300)"
