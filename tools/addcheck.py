#!/usr/bin/env python3
# tools/addcheck.py <id> "<level text>" "<level note>"   -- registers/updates a check in MANIFEST.json
import json,sys
pid,text,note=sys.argv[1:4]
m=json.load(open('MANIFEST.json'))
chk={"property_id":pid,"quick_cmd":f"./check {pid} --tier quick","thorough_cmd":f"./check {pid} --tier thorough","evidence_file":f"evidence/{pid}.json","replay_cmd_template":f"./check {pid} --replay {{path}}","engine":"gosymx","level_claimed":{"category":"model_checking","text":text,"design_ref":f"DESIGN.md section 4 {pid}"},"level_note":note,"technique":"bounded symbolic execution of the real Go code (go/ssa -> SMT-LIB2), z3 decides every path obligation; models replayed natively"}
m['checks']=[c for c in m['checks'] if c['property_id']!=pid]+[chk]
m['checks'].sort(key=lambda c:c['property_id'])
m['not_applicable']=[x for x in m.get('not_applicable',[]) if x['property_id']!=pid]
m['engines'][0]['serves_properties']=sorted(c['property_id'] for c in m['checks'])
json.dump(m,open('MANIFEST.json','w'),indent=1)
