#!/usr/bin/env python3
# tools/seed_table.py : prints the markdown table of seeded changes and what catches them (from seeded/*/meta.json)
import json,glob,re,os
rows=[]
for d in sorted(glob.glob('/verif/seeded/C*_m*')):
    m=json.load(open(os.path.join(d,'meta.json')))
    sid=m['id']
    what=(m.get('what') or '').strip().replace('\n',' ')
    files=', '.join(os.path.basename(f) for f in (m.get('files') or []))
    short=what.split('. ')[0][:220]
    res=m.get('check_result') or []
    caught=[]
    status='missed'
    for l in res:
        if 'exit=1' in l:
            status='caught'
            caught+=re.findall(r'harness=(\w+)',l)
        elif 'exit=2' in l and status!='caught':
            status='inconclusive'
        elif 'APPLY-FAIL' in l and status=='missed':
            status='patch no longer applies'
    caught=sorted(set(caught))
    note=m.get('note','')
    rows.append((sid,files,short,status,', '.join(f'`{c}`' for c in caught[:3]),note))
print('| seed | file | change | result | caught by |')
print('|---|---|---|---|---|')
for r in rows:
    print(f'| {r[0]} | {r[1]} | {r[2]} | {r[3]}{(" — "+r[5]) if r[5] else ""} | {r[4]} |')
n=len(rows); c=sum(1 for r in rows if r[3]=='caught')
print(f'\n{c} of {n} seeded changes are caught by the registered quick checks.')
