#!/bin/bash
# tools/eval_mutant.sh <mutdir> <prop> [tier]: runs the registered check of <prop> against the seeded change
# (applied in the scratch worktree /tmp/wt_eval, never in /repo) and prints the verdict.
mut=$1; prop=$2; tier=${3:-quick}
wt=${WT:-/tmp/wt_eval}
export GOFLAGS=-mod=mod GOPROXY=off
[ -d $wt ] || git -C /repo worktree add -q --detach $wt HEAD
cd $wt && git checkout -q --detach $(git -C /repo rev-parse HEAD) && git checkout -q -- . && git apply $mut/patch.diff || { echo "$mut $prop APPLY-FAIL"; exit 2; }
out=/tmp/eval_out_$$; mkdir -p $out
t0=$(date +%s)
/verif/bin/gosymx -repo $wt -prop $prop -tier $tier -out $out > $out/log 2>&1; rc=$?
t1=$(date +%s)
echo "$mut prop=$prop tier=$tier exit=$rc secs=$((t1-t0)) :: $(grep -c '^VIOLATION' $out/log) violation line(s); $(grep 'violation detail' $out/log | head -2 | cut -c1-260 | tr '\n' ' ') $(grep -E 'INCONCLUSIVE|ENGINE-ERROR' $out/log | head -2 | cut -c1-200 | tr '\n' ' ')"
cd $wt && git checkout -q -- .
rm -rf $out
