#!/bin/sh
# Builds the verification engine from files on disk only (offline).
set -e
cd "$(dirname "$0")"
export GOFLAGS=-mod=mod GOPROXY=off
mkdir -p bin
(cd engine && GOTOOLCHAIN=local go1.26.8 build -o ../bin/gosymx ./cmd/gosymx)
if [ -d pbgen ]; then (cd pbgen && go build -o ../bin/pbgen .); fi
echo setup ok
