package smt

import (
	"bufio"
	"fmt"
	"io"
	"os"
	"os/exec"
	"strconv"
	"strings"
	"time"
)

type Result int

const (
	Unsat Result = iota
	Sat
	Unknown
)

func (r Result) String() string { return [...]string{"unsat", "sat", "unknown"}[r] }

// Solver is one live solver process speaking SMT-LIB2 on stdin/stdout.
type Solver struct {
	Bin       string
	TimeoutMs int
	cmd       *exec.Cmd
	in        io.WriteCloser
	out       *bufio.Reader
	defined   map[int]bool
	ufs       map[string]bool
	script    strings.Builder // everything since last reset (for cross-checking)
	KeepLog   bool
	Queries   int
	TotalTime time.Duration
	MaxTime   time.Duration
	Errors    []string
	Fallbacks int
	IncMs     int // timeout of the incremental attempt (default 8000 ms)
}

func NewSolver(bin string, timeoutMs int) (*Solver, error) {
	s := &Solver{Bin: bin, TimeoutMs: timeoutMs}
	if err := s.start(); err != nil {
		return nil, err
	}
	return s, nil
}

func (s *Solver) start() error {
	var args []string
	switch {
	case strings.Contains(s.Bin, "cvc5"):
		args = []string{"--incremental", "--lang=smt2", "--produce-models", fmt.Sprintf("--tlimit-per=%d", s.TimeoutMs)}
	default:
		args = []string{"-in", "-smt2"}
	}
	s.cmd = exec.Command(s.Bin, args...)
	var err error
	if s.in, err = s.cmd.StdinPipe(); err != nil {
		return err
	}
	so, err := s.cmd.StdoutPipe()
	if err != nil {
		return err
	}
	s.cmd.Stderr = nil
	s.out = bufio.NewReaderSize(so, 1<<16)
	if err := s.cmd.Start(); err != nil {
		return err
	}
	s.Reset()
	return nil
}

func (s *Solver) Close() {
	if s.cmd != nil {
		s.in.Close()
		s.cmd.Process.Kill()
		s.cmd.Wait()
		s.cmd = nil
	}
}

func (s *Solver) send(line string) {
	if s.KeepLog && !strings.HasPrefix(line, "(check-sat") && !strings.HasPrefix(line, "(get-value") {
		s.script.WriteString(line)
		s.script.WriteByte('\n')
	}
	io.WriteString(s.in, line)
	io.WriteString(s.in, "\n")
}

// Reset clears all assertions and definitions (new path / new term context).
func (s *Solver) Reset() {
	s.script.Reset()
	s.defined = map[int]bool{}
	s.ufs = map[string]bool{}
	if strings.Contains(s.Bin, "cvc5") {
		s.send("(reset)")
		s.send("(set-logic ALL)")
	} else {
		s.send("(reset)")
		inc := s.IncMs
		if inc == 0 {
			inc = 8000
		}
		if inc > s.TimeoutMs {
			inc = s.TimeoutMs
		}
		s.send(fmt.Sprintf("(set-option :timeout %d)", inc))
	}
}

// define emits declarations/definitions for t and its sub-DAG (iterative post-order).
func (s *Solver) define(t *Term) {
	if s.defined[t.ID] {
		return
	}
	type fr struct {
		t *Term
		i int
	}
	st := []fr{{t, 0}}
	for len(st) > 0 {
		f := &st[len(st)-1]
		if s.defined[f.t.ID] {
			st = st[:len(st)-1]
			continue
		}
		if f.i < len(f.t.Args) {
			a := f.t.Args[f.i]
			f.i++
			if !s.defined[a.ID] {
				st = append(st, fr{a, 0})
			}
			continue
		}
		x := f.t
		st = st[:len(st)-1]
		s.defined[x.ID] = true
		switch x.Op {
		case "c":
		case "v":
			s.send(fmt.Sprintf("(declare-const %s %s)", x.Name, sortStr(x.W)))
		default:
			if x.Op == "uf" && !s.ufs[x.Name] {
				s.ufs[x.Name] = true
				var as []string
				for _, a := range x.Args {
					as = append(as, sortStr(a.W))
				}
				s.send(fmt.Sprintf("(declare-fun %s (%s) %s)", x.Name, strings.Join(as, " "), sortStr(x.W)))
			}
			s.send(fmt.Sprintf("(define-fun t%d () %s %s)", x.ID, sortStr(x.W), body(x)))
		}
	}
}

// Assert adds t permanently (until Reset).
func (s *Solver) Assert(t *Term) {
	if t.IsTrue() {
		return
	}
	s.define(t)
	s.send("(assert " + ref(t) + ")")
}

func (s *Solver) readLine() (string, error) {
	for {
		l, err := s.out.ReadString('\n')
		if err != nil {
			return "", err
		}
		l = strings.TrimSpace(l)
		if l == "" || l == "success" {
			continue
		}
		return l, nil
	}
}

// readSexp reads one balanced s-expression (possibly multi-line).
func (s *Solver) readSexp() (string, error) {
	var sb strings.Builder
	depth := 0
	started := false
	for {
		l, err := s.out.ReadString('\n')
		if err != nil {
			return sb.String(), err
		}
		inStr := false
		for _, ch := range l {
			if ch == '"' {
				inStr = !inStr
			}
			if inStr {
				continue
			}
			if ch == '(' {
				depth++
				started = true
			} else if ch == ')' {
				depth--
			}
		}
		sb.WriteString(l)
		if started && depth <= 0 {
			return sb.String(), nil
		}
		if !started && strings.TrimSpace(l) != "" {
			return sb.String(), nil
		}
	}
}

// Check decides satisfiability of the asserted set plus extras. If wantModel and sat, returns
// values of the given variables.
func (s *Solver) Check(extras []*Term, modelVars []*Term) (Result, map[string]uint64, string) {
	for _, e := range extras {
		s.define(e)
	}
	for _, v := range modelVars {
		s.define(v)
	}
	s.send("(push 1)")
	for _, e := range extras {
		if !e.IsTrue() {
			s.send("(assert " + ref(e) + ")")
		}
	}
	var snapshot string
	if s.KeepLog {
		snapshot = s.script.String() + "(check-sat)\n"
	}
	t0 := time.Now()
	s.send("(check-sat)")
	line, err := s.readLine()
	d := time.Since(t0)
	s.Queries++
	s.TotalTime += d
	if d > s.MaxTime {
		s.MaxTime = d
	}
	if dir := os.Getenv("VERIF_DUMP_SLOW"); dir != "" && d > 5*time.Second && snapshot != "" {
		os.WriteFile(fmt.Sprintf("%s/slow_%d_%d.smt2", dir, os.Getpid(), time.Now().UnixNano()), []byte(snapshot), 0o644)
	}
	res := Unknown
	if err != nil {
		s.Errors = append(s.Errors, "solver died: "+err.Error())
		s.Close()
		if e2 := s.start(); e2 != nil {
			panic("cannot restart solver: " + e2.Error())
		}
		return Unknown, nil, snapshot
	}
	switch {
	case line == "sat":
		res = Sat
	case line == "unsat":
		res = Unsat
	case strings.HasPrefix(line, "(error"):
		s.Errors = append(s.Errors, line)
	}
	var model map[string]uint64
	if res == Unknown && snapshot != "" && !strings.HasPrefix(line, "(error") && os.Getenv("VERIF_NO_FALLBACK") == "" {
		// The incremental (push/pop) pipeline of z3 4.8.12 is much weaker than its one-shot
		// pipeline on some bit-vector queries (e.g. bvurem ranges): re-decide the same query as a
		// standalone script, on z3 5.1.0 first, then on z3 4.8.12.
		s.send("(pop 1)")
		script := standaloneScript(snapshot)
		t1 := time.Now()
		for _, bin := range []string{"z3-new", "z3"} {
			r, mod := runStandalone(bin, script, modelVars, s.TimeoutMs)
			if r != Unknown {
				res, model = r, mod
				s.Fallbacks++
				break
			}
		}
		d2 := time.Since(t1)
		s.TotalTime += d2
		if d2 > s.MaxTime {
			s.MaxTime = d2
		}
		return res, model, snapshot
	}
	if res == Sat && len(modelVars) > 0 {
		model = map[string]uint64{}
		// ask in chunks to keep lines short
		for i := 0; i < len(modelVars); i += 64 {
			j := i + 64
			if j > len(modelVars) {
				j = len(modelVars)
			}
			var names []string
			for _, v := range modelVars[i:j] {
				names = append(names, v.Name)
			}
			s.send("(get-value (" + strings.Join(names, " ") + "))")
			sx, err := s.readSexp()
			if err != nil {
				s.Errors = append(s.Errors, "get-value: "+err.Error())
				break
			}
			parseValues(sx, model)
		}
	}
	s.send("(pop 1)")
	return res, model, snapshot
}

// parseValues parses ((name value) ...) with values #x.., #b.., true, false.
func parseValues(sx string, out map[string]uint64) {
	toks := strings.Fields(strings.NewReplacer("(", " ", ")", " ").Replace(sx))
	for i := 0; i+1 < len(toks); i += 2 {
		name, val := toks[i], toks[i+1]
		switch {
		case val == "true":
			out[name] = 1
		case val == "false":
			out[name] = 0
		case strings.HasPrefix(val, "#x"):
			v, _ := strconv.ParseUint(val[2:], 16, 64)
			out[name] = v
		case strings.HasPrefix(val, "#b"):
			v, _ := strconv.ParseUint(val[2:], 2, 64)
			out[name] = v
		case val == "_": // (_ bv123 64)
			if i+3 < len(toks) && strings.HasPrefix(toks[i+2], "bv") {
				v, _ := strconv.ParseUint(toks[i+2][2:], 10, 64)
				out[name] = v
				i += 2
			}
		}
	}
}

// RunScript runs a complete standalone script in a fresh process of the given binary and returns
// the first answer line (for cross-solver diffing).
func RunScript(bin string, script string, timeoutMs int) string {
	var args []string
	if strings.Contains(bin, "cvc5") {
		args = []string{"--lang=smt2", "--incremental", fmt.Sprintf("--tlimit=%d", timeoutMs)}
		script = strings.Replace(script, "(reset)\n", "(set-logic ALL)\n", 1)
		// drop z3-only option lines
		var keep []string
		for _, l := range strings.Split(script, "\n") {
			if strings.HasPrefix(l, "(set-option :timeout") {
				continue
			}
			keep = append(keep, l)
		}
		script = strings.Join(keep, "\n")
	} else {
		args = []string{"-in", "-smt2", fmt.Sprintf("-t:%d", timeoutMs)}
	}
	cmd := exec.Command(bin, args...)
	cmd.Stdin = strings.NewReader(script)
	out, _ := cmd.Output()
	for _, l := range strings.Split(string(out), "\n") {
		l = strings.TrimSpace(l)
		if l == "sat" || l == "unsat" || l == "unknown" || l == "timeout" || strings.HasPrefix(l, "(error") {
			return l
		}
	}
	return "no-answer"
}

// standaloneScript removes every closed (push 1)…(pop 1) block and the push markers from a
// session log, leaving declarations, definitions, the permanent assertions and the assertions
// of the still-open query.
func standaloneScript(log string) string {
	var out []string
	var starts []int
	for _, l := range strings.Split(log, "\n") {
		switch l {
		case "(push 1)":
			starts = append(starts, len(out))
		case "(pop 1)":
			if n := len(starts); n > 0 {
				out = out[:starts[n-1]]
				starts = starts[:n-1]
			}
		case "(check-sat)", "(reset)":
		default:
			if strings.HasPrefix(l, "(set-option :timeout") {
				continue
			}
			out = append(out, l)
		}
	}
	return strings.Join(out, "\n") + "\n"
}

func runStandalone(bin, script string, modelVars []*Term, timeoutMs int) (Result, map[string]uint64) {
	var sb strings.Builder
	sb.WriteString(script)
	sb.WriteString("(check-sat)\n")
	if len(modelVars) > 0 {
		var names []string
		for _, v := range modelVars {
			names = append(names, v.Name)
		}
		sb.WriteString("(get-value (" + strings.Join(names, " ") + "))\n")
	}
	cmd := exec.Command(bin, "-in", "-smt2", fmt.Sprintf("-t:%d", timeoutMs))
	cmd.Stdin = strings.NewReader(sb.String())
	out, _ := cmd.Output()
	text := string(out)
	i := strings.Index(text, "\n")
	first := strings.TrimSpace(text)
	rest := ""
	if i >= 0 {
		first = strings.TrimSpace(text[:i])
		rest = text[i+1:]
	}
	switch first {
	case "unsat":
		return Unsat, nil
	case "sat":
		model := map[string]uint64{}
		if !strings.Contains(rest, "(error") {
			parseValues(rest, model)
		}
		return Sat, model
	}
	return Unknown, nil
}
