package smt

import (
	"fmt"
	"math"
	"strconv"
)

// Decimal is the correctly rounded float64 (as IEEE bits) of m * 10^e, m a signed 64-bit term.
// |e| must be <= 48 so that 10^|e| is exact in binary128 (5^48 < 2^113).
func (c *Ctx) Decimal(m *Term, e int) *Term {
	if m.IsConst() {
		return c.BV(DecimalValue(m.SignedVal(), e), 64)
	}
	return c.mk(&Term{W: 64, Op: "dec", Args: []*Term{m}, P: [2]int{e, 0}})
}

// DecimalValue computes the same natively (strconv.ParseFloat is correctly rounded).
func DecimalValue(m int64, e int) uint64 {
	f, _ := strconv.ParseFloat(fmt.Sprintf("%de%d", m, e), 64)
	return math.Float64bits(f)
}
