package smt

import (
	"math"
)

// Eval interprets a term under an assignment of its variables (direct semantics, independent
// of the rewriting done by the constructors). ok=false if an uninterpreted function is met.
func Eval(t *Term, env map[string]uint64) (uint64, bool) {
	memo := map[int]uint64{}
	okAll := true
	var ev func(x *Term) uint64
	sgn := func(v uint64, w int) int64 {
		if w >= 64 {
			return int64(v)
		}
		sh := uint(64 - w)
		return int64(v<<sh) >> sh
	}
	b2u := func(b bool) uint64 {
		if b {
			return 1
		}
		return 0
	}
	f64 := func(x *Term, v uint64) float64 {
		if x.W == 32 {
			return float64(math.Float32frombits(uint32(v)))
		}
		return math.Float64frombits(v)
	}
	ev = func(x *Term) uint64 {
		if r, ok := memo[x.ID]; ok {
			return r
		}
		var r uint64
		a := x.Args
		m := mask(x.W)
		if x.W == 0 {
			m = 1
		}
		switch x.Op {
		case "c":
			r = x.C
		case "v":
			r = env[x.Name] & m
		case "not":
			r = 1 - ev(a[0])
		case "and":
			r = ev(a[0]) & ev(a[1])
		case "or":
			r = ev(a[0]) | ev(a[1])
		case "=":
			r = b2u(ev(a[0]) == ev(a[1]))
		case "ite":
			if ev(a[0]) == 1 {
				r = ev(a[1])
			} else {
				r = ev(a[2])
			}
		case "bvadd":
			r = (ev(a[0]) + ev(a[1])) & m
		case "bvsub":
			r = (ev(a[0]) - ev(a[1])) & m
		case "bvmul":
			r = (ev(a[0]) * ev(a[1])) & m
		case "bvnot":
			r = ^ev(a[0]) & m
		case "bvand":
			r = ev(a[0]) & ev(a[1])
		case "bvor":
			r = ev(a[0]) | ev(a[1])
		case "bvxor":
			r = ev(a[0]) ^ ev(a[1])
		case "bvshl":
			s := ev(a[1])
			if s >= uint64(x.W) {
				r = 0
			} else {
				r = (ev(a[0]) << s) & m
			}
		case "bvlshr":
			s := ev(a[1])
			if s >= uint64(x.W) {
				r = 0
			} else {
				r = ev(a[0]) >> s
			}
		case "bvashr":
			s := ev(a[1])
			if s >= uint64(x.W) {
				s = uint64(x.W - 1)
			}
			r = uint64(sgn(ev(a[0]), x.W)>>s) & m
		case "bvudiv":
			d := ev(a[1])
			if d == 0 {
				r = m
			} else {
				r = ev(a[0]) / d
			}
		case "bvurem":
			d := ev(a[1])
			if d == 0 {
				r = ev(a[0])
			} else {
				r = ev(a[0]) % d
			}
		case "bvsdiv":
			p, q := sgn(ev(a[0]), x.W), sgn(ev(a[1]), x.W)
			switch {
			case q == 0:
				if p >= 0 {
					r = m
				} else {
					r = 1
				}
			case q == -1:
				r = uint64(-p) & m
			default:
				r = uint64(p/q) & m
			}
		case "bvsrem":
			p, q := sgn(ev(a[0]), x.W), sgn(ev(a[1]), x.W)
			switch {
			case q == 0:
				r = uint64(p) & m
			case q == -1:
				r = 0
			default:
				r = uint64(p%q) & m
			}
		case "bvult":
			r = b2u(ev(a[0]) < ev(a[1]))
		case "bvule":
			r = b2u(ev(a[0]) <= ev(a[1]))
		case "bvslt":
			r = b2u(sgn(ev(a[0]), a[0].W) < sgn(ev(a[1]), a[0].W))
		case "bvsle":
			r = b2u(sgn(ev(a[0]), a[0].W) <= sgn(ev(a[1]), a[0].W))
		case "concat":
			r = ev(a[0])<<uint(a[1].W) | ev(a[1])
		case "extract":
			r = (ev(a[0]) >> uint(x.P[1])) & mask(x.P[0]-x.P[1]+1)
		case "zext":
			r = ev(a[0])
		case "sext":
			r = uint64(sgn(ev(a[0]), a[0].W)) & m
		case "fp.add", "fp.sub", "fp.mul", "fp.div":
			p, q := ev(a[0]), ev(a[1])
			if x.W == 64 {
				u, v := math.Float64frombits(p), math.Float64frombits(q)
				var w float64
				switch x.Op {
				case "fp.add":
					w = u + v
				case "fp.sub":
					w = u - v
				case "fp.mul":
					w = u * v
				default:
					w = u / v
				}
				r = math.Float64bits(w)
			} else {
				u, v := math.Float32frombits(uint32(p)), math.Float32frombits(uint32(q))
				var w float32
				switch x.Op {
				case "fp.add":
					w = u + v
				case "fp.sub":
					w = u - v
				case "fp.mul":
					w = u * v
				default:
					w = u / v
				}
				r = uint64(math.Float32bits(w))
			}
		case "fp.lt", "fp.leq", "fp.gt", "fp.geq", "fp.eq":
			u, v := f64(a[0], ev(a[0])), f64(a[1], ev(a[1]))
			switch x.Op {
			case "fp.lt":
				r = b2u(u < v)
			case "fp.leq":
				r = b2u(u <= v)
			case "fp.gt":
				r = b2u(u > v)
			case "fp.geq":
				r = b2u(u >= v)
			default:
				r = b2u(u == v)
			}
		case "fp.isNaN":
			u := f64(a[0], ev(a[0]))
			r = b2u(u != u)
		case "to_fp_s":
			v := sgn(ev(a[0]), a[0].W)
			if x.W == 64 {
				r = math.Float64bits(float64(v))
			} else {
				r = uint64(math.Float32bits(float32(v)))
			}
		case "to_fp_u":
			v := ev(a[0])
			if x.W == 64 {
				r = math.Float64bits(float64(v))
			} else {
				r = uint64(math.Float32bits(float32(v)))
			}
		case "fp.to_sbv":
			r = uint64(int64(f64(a[0], ev(a[0])))) & m
		case "fp.to_ubv":
			r = uint64(f64(a[0], ev(a[0]))) & m
		case "dec":
			r = DecimalValue(sgn(ev(a[0]), 64), x.P[0])
		case "fp.to_fp":
			u := f64(a[0], ev(a[0]))
			if x.W == 64 {
				r = math.Float64bits(u)
			} else {
				r = uint64(math.Float32bits(float32(u)))
			}
		default:
			okAll = false
		}
		memo[x.ID] = r
		return r
	}
	r := ev(t)
	return r, okAll
}
