// Package smt: hash-consed SMT-LIB2 terms with constant folding.
// Sorts: Bool and (_ BitVec w) with 1<=w<=64. Floats are carried as their IEEE bit patterns
// (BitVec 32/64) and only converted to FloatingPoint inside arithmetic/comparison operators.
package smt

import (
	"fmt"
	"math"
	"math/bits"
	"strings"
)

// Term is an immutable node. W==0 means Bool.
type Term struct {
	ID   int
	W    int // 0 = Bool, else bit-vector width
	Op   string
	Args []*Term
	P    [2]int // parameters (extract hi/lo, extension amount, ...)
	C    uint64 // constant value (Op=="c")
	Name string // variable name (Op=="v")
}

// Ctx owns terms (hash-consing table). Not safe for concurrent use.
type Ctx struct {
	tab   map[string]*Term
	next  int
	Vars  []*Term
	True  *Term
	False *Term
}

func NewCtx() *Ctx {
	c := &Ctx{tab: map[string]*Term{}}
	c.True = c.mk(&Term{W: 0, Op: "c", C: 1})
	c.False = c.mk(&Term{W: 0, Op: "c", C: 0})
	return c
}

func (c *Ctx) NumTerms() int { return c.next }

func key(t *Term) string {
	var sb strings.Builder
	fmt.Fprintf(&sb, "%s/%d/%d/%d/%d/%s", t.Op, t.W, t.P[0], t.P[1], t.C, t.Name)
	for _, a := range t.Args {
		fmt.Fprintf(&sb, ",%d", a.ID)
	}
	return sb.String()
}

func (c *Ctx) mk(t *Term) *Term {
	k := key(t)
	if e, ok := c.tab[k]; ok {
		return e
	}
	t.ID = c.next
	c.next++
	c.tab[k] = t
	return t
}

func mask(w int) uint64 {
	if w >= 64 {
		return ^uint64(0)
	}
	return (uint64(1) << uint(w)) - 1
}

func (t *Term) IsConst() bool { return t.Op == "c" }
func (t *Term) IsBool() bool  { return t.W == 0 }
func (t *Term) IsTrue() bool  { return t.W == 0 && t.Op == "c" && t.C == 1 }
func (t *Term) IsFalse() bool { return t.W == 0 && t.Op == "c" && t.C == 0 }

// SignedVal returns the constant as a sign-extended int64.
func (t *Term) SignedVal() int64 {
	if t.W >= 64 {
		return int64(t.C)
	}
	sh := uint(64 - t.W)
	return int64(t.C<<sh) >> sh
}

func (c *Ctx) BV(v uint64, w int) *Term {
	return c.mk(&Term{W: w, Op: "c", C: v & mask(w)})
}
func (c *Ctx) Bool(b bool) *Term {
	if b {
		return c.True
	}
	return c.False
}

// Var declares a fresh variable (name must be unique per Ctx).
func (c *Ctx) Var(name string, w int) *Term {
	t := c.mk(&Term{W: w, Op: "v", Name: name})
	if len(c.Vars) == 0 || c.Vars[len(c.Vars)-1] != t {
		found := false
		for _, v := range c.Vars {
			if v == t {
				found = true
				break
			}
		}
		if !found {
			c.Vars = append(c.Vars, t)
		}
	}
	return t
}

// ---- boolean ----

func (c *Ctx) Not(a *Term) *Term {
	if a.IsConst() {
		return c.Bool(a.C == 0)
	}
	if a.Op == "not" {
		return a.Args[0]
	}
	return c.mk(&Term{W: 0, Op: "not", Args: []*Term{a}})
}

func (c *Ctx) And(a, b *Term) *Term {
	if a.IsFalse() || b.IsFalse() {
		return c.False
	}
	if a.IsTrue() {
		return b
	}
	if b.IsTrue() {
		return a
	}
	if a == b {
		return a
	}
	return c.mk(&Term{W: 0, Op: "and", Args: []*Term{a, b}})
}

func (c *Ctx) Or(a, b *Term) *Term {
	if a.IsTrue() || b.IsTrue() {
		return c.True
	}
	if a.IsFalse() {
		return b
	}
	if b.IsFalse() {
		return a
	}
	if a == b {
		return a
	}
	return c.mk(&Term{W: 0, Op: "or", Args: []*Term{a, b}})
}

func (c *Ctx) Implies(a, b *Term) *Term { return c.Or(c.Not(a), b) }

func (c *Ctx) Ite(cond, a, b *Term) *Term {
	if cond.IsTrue() {
		return a
	}
	if cond.IsFalse() {
		return b
	}
	if a == b {
		return a
	}
	if a.W != b.W {
		panic(fmt.Sprintf("smt.Ite: sort mismatch %d vs %d", a.W, b.W))
	}
	if a.W == 0 {
		if a.IsTrue() && b.IsFalse() {
			return cond
		}
		if a.IsFalse() && b.IsTrue() {
			return c.Not(cond)
		}
	}
	return c.mk(&Term{W: a.W, Op: "ite", Args: []*Term{cond, a, b}})
}

func (c *Ctx) Eq(a, b *Term) *Term {
	if a.W != b.W {
		panic(fmt.Sprintf("smt.Eq: sort mismatch %d vs %d", a.W, b.W))
	}
	if a == b {
		return c.True
	}
	if a.IsConst() && b.IsConst() {
		return c.Bool(a.C == b.C)
	}
	if a.W == 0 {
		if a.IsConst() {
			a, b = b, a
		}
		if b.IsTrue() {
			return a
		}
		if b.IsFalse() {
			return c.Not(a)
		}
	}
	// x*k == y*k  <=>  x == y  for odd k (multiplication by an odd constant is a bijection mod 2^w)
	if a.Op == "bvmul" && b.Op == "bvmul" && a.Args[1].IsConst() && b.Args[1].IsConst() &&
		a.Args[1].C == b.Args[1].C && a.Args[1].C&1 == 1 {
		return c.Eq(a.Args[0], b.Args[0])
	}
	// x^z == y^z  <=>  x == y
	if a.Op == "bvxor" && b.Op == "bvxor" {
		for i := 0; i < 2; i++ {
			for j := 0; j < 2; j++ {
				if a.Args[i] == b.Args[j] {
					return c.Eq(a.Args[1-i], b.Args[1-j])
				}
			}
		}
	}
	// a == b  <=>  a^b == 0: lets the xor cancellation (also across the segment normal form) remove
	// what both sides share; taken only when it makes progress
	if a.W > 1 && (a.Op == "bvxor" || b.Op == "bvxor" || a.Op == "concat" || b.Op == "concat") {
		d := c.BvXor(a, b)
		if d.IsConst() {
			return c.Bool(d.C == 0)
		}
		if d.Op == "bvxor" && !(d.Args[0] == a && d.Args[1] == b) && !(d.Args[0] == b && d.Args[1] == a) {
			return c.Eq(d.Args[0], d.Args[1])
		}
	}
	if a.ID > b.ID {
		a, b = b, a
	}
	return c.mk(&Term{W: 0, Op: "=", Args: []*Term{a, b}})
}

// ---- bit-vectors ----

func (c *Ctx) bin(op string, w int, a, b *Term) *Term {
	if a.W != b.W {
		panic(fmt.Sprintf("smt.%s: width mismatch %d vs %d", op, a.W, b.W))
	}
	return c.mk(&Term{W: w, Op: op, Args: []*Term{a, b}})
}

func (c *Ctx) Add(a, b *Term) *Term {
	if a.IsConst() && b.IsConst() {
		return c.BV(a.C+b.C, a.W)
	}
	if a.IsConst() && a.C == 0 {
		return b
	}
	if b.IsConst() && b.C == 0 {
		return a
	}
	// (x - a) + a = x ; a + (x - a) = x
	if a.Op == "bvsub" && a.Args[1] == b {
		return a.Args[0]
	}
	if b.Op == "bvsub" && b.Args[1] == a {
		return b.Args[0]
	}
	return c.bin("bvadd", a.W, a, b)
}
func (c *Ctx) Sub(a, b *Term) *Term {
	if a.IsConst() && b.IsConst() {
		return c.BV(a.C-b.C, a.W)
	}
	if b.IsConst() && b.C == 0 {
		return a
	}
	if a == b {
		return c.BV(0, a.W)
	}
	// (a + b) - a = b ; (a + b) - b = a ; a - (a - b) = b
	if a.Op == "bvadd" {
		if a.Args[0] == b {
			return a.Args[1]
		}
		if a.Args[1] == b {
			return a.Args[0]
		}
	}
	if b.Op == "bvsub" && b.Args[0] == a {
		return b.Args[1]
	}
	return c.bin("bvsub", a.W, a, b)
}
func (c *Ctx) Mul(a, b *Term) *Term {
	if a.IsConst() && b.IsConst() {
		return c.BV(a.C*b.C, a.W)
	}
	if a.IsConst() {
		a, b = b, a
	}
	if b.IsConst() {
		if b.C == 0 {
			return b
		}
		if b.C == 1 {
			return a
		}
	}
	return c.bin("bvmul", a.W, a, b)
}
func (c *Ctx) Neg(a *Term) *Term { return c.Sub(c.BV(0, a.W), a) }

func (c *Ctx) BvNot(a *Term) *Term {
	if a.IsConst() {
		return c.BV(^a.C, a.W)
	}
	return c.mk(&Term{W: a.W, Op: "bvnot", Args: []*Term{a}})
}
func (c *Ctx) BvAnd(a, b *Term) *Term {
	if a.IsConst() && b.IsConst() {
		return c.BV(a.C&b.C, a.W)
	}
	if a.IsConst() {
		a, b = b, a
	}
	if b.IsConst() {
		if b.C == 0 {
			return b
		}
		if b.C == mask(a.W) {
			return a
		}
	}
	if a == b {
		return a
	}
	if r := c.bitwiseSegs('&', a, b); r != nil {
		return r
	}
	return c.bin("bvand", a.W, a, b)
}
func (c *Ctx) BvOr(a, b *Term) *Term {
	if a.IsConst() && b.IsConst() {
		return c.BV(a.C|b.C, a.W)
	}
	if a.IsConst() {
		a, b = b, a
	}
	if b.IsConst() {
		if b.C == 0 {
			return a
		}
		if b.C == mask(a.W) {
			return b
		}
	}
	if a == b {
		return a
	}
	if r := c.bitwiseSegs('|', a, b); r != nil {
		return r
	}
	return c.bin("bvor", a.W, a, b)
}
func (c *Ctx) BvXor(a, b *Term) *Term {
	if a.IsConst() && b.IsConst() {
		return c.BV(a.C^b.C, a.W)
	}
	if a.IsConst() {
		a, b = b, a
	}
	if b.IsConst() && b.C == 0 {
		return a
	}
	if a == b {
		return c.BV(0, a.W)
	}
	// (p ^ q) ^ q = p
	if a.Op == "bvxor" {
		if a.Args[0] == b {
			return a.Args[1]
		}
		if a.Args[1] == b {
			return a.Args[0]
		}
	}
	if b.Op == "bvxor" {
		if b.Args[0] == a {
			return b.Args[1]
		}
		if b.Args[1] == a {
			return b.Args[0]
		}
	}
	if r := c.bitwiseSegs('^', a, b); r != nil {
		return r
	}
	return c.bin("bvxor", a.W, a, b)
}

// Shl/Lshr/Ashr take a shift amount of the same width, SMT semantics (amount>=w gives 0 / sign fill).
func (c *Ctx) Shl(a, b *Term) *Term {
	if a.IsConst() && b.IsConst() {
		if b.C >= uint64(a.W) {
			return c.BV(0, a.W)
		}
		return c.BV(a.C<<b.C, a.W)
	}
	if b.IsConst() && b.C == 0 {
		return a
	}
	if b.IsConst() {
		k := a.W
		if b.C < uint64(a.W) {
			k = int(b.C)
		}
		if r := c.shlConst(a, k); r != nil {
			return r
		}
	}
	return c.bin("bvshl", a.W, a, b)
}
func (c *Ctx) Lshr(a, b *Term) *Term {
	if a.IsConst() && b.IsConst() {
		if b.C >= uint64(a.W) {
			return c.BV(0, a.W)
		}
		return c.BV(a.C>>b.C, a.W)
	}
	if b.IsConst() && b.C == 0 {
		return a
	}
	if b.IsConst() {
		k := a.W
		if b.C < uint64(a.W) {
			k = int(b.C)
		}
		if r := c.lshrConst(a, k); r != nil {
			return r
		}
	}
	return c.bin("bvlshr", a.W, a, b)
}
func (c *Ctx) Ashr(a, b *Term) *Term {
	if a.IsConst() && b.IsConst() {
		sh := b.C
		if sh >= uint64(a.W) {
			sh = uint64(a.W - 1)
		}
		return c.BV(uint64(a.SignedVal()>>sh), a.W)
	}
	if b.IsConst() && b.C == 0 {
		return a
	}
	if b.IsConst() {
		k := a.W
		if b.C < uint64(a.W) {
			k = int(b.C)
		}
		if r := c.ashrConst(a, k); r != nil {
			return r
		}
	}
	return c.bin("bvashr", a.W, a, b)
}

// Division family: caller guarantees b != 0 on the path (Go panics otherwise).
func (c *Ctx) Udiv(a, b *Term) *Term {
	if a.IsConst() && b.IsConst() && b.C != 0 {
		return c.BV(a.C/b.C, a.W)
	}
	return c.bin("bvudiv", a.W, a, b)
}
func (c *Ctx) Urem(a, b *Term) *Term {
	if a.IsConst() && b.IsConst() && b.C != 0 {
		return c.BV(a.C%b.C, a.W)
	}
	return c.bin("bvurem", a.W, a, b)
}
func (c *Ctx) Sdiv(a, b *Term) *Term {
	if a.IsConst() && b.IsConst() && b.C != 0 {
		x, y := a.SignedVal(), b.SignedVal()
		if y == -1 {
			return c.BV(uint64(-x), a.W)
		}
		return c.BV(uint64(x/y), a.W)
	}
	return c.bin("bvsdiv", a.W, a, b)
}
func (c *Ctx) Srem(a, b *Term) *Term {
	if a.IsConst() && b.IsConst() && b.C != 0 {
		x, y := a.SignedVal(), b.SignedVal()
		if y == -1 {
			return c.BV(0, a.W)
		}
		return c.BV(uint64(x%y), a.W)
	}
	return c.bin("bvsrem", a.W, a, b)
}

func (c *Ctx) cmp(op string, a, b *Term) *Term {
	if a.W != b.W {
		panic(fmt.Sprintf("smt.%s: width mismatch %d vs %d", op, a.W, b.W))
	}
	return c.mk(&Term{W: 0, Op: op, Args: []*Term{a, b}})
}
func (c *Ctx) Ult(a, b *Term) *Term {
	if a.IsConst() && b.IsConst() {
		return c.Bool(a.C < b.C)
	}
	if a == b {
		return c.False
	}
	if b.IsConst() && b.C == 0 {
		return c.False
	}
	return c.cmp("bvult", a, b)
}
func (c *Ctx) Ule(a, b *Term) *Term {
	if a.IsConst() && b.IsConst() {
		return c.Bool(a.C <= b.C)
	}
	if a == b {
		return c.True
	}
	if a.IsConst() && a.C == 0 {
		return c.True
	}
	return c.cmp("bvule", a, b)
}
func (c *Ctx) Slt(a, b *Term) *Term {
	if a.IsConst() && b.IsConst() {
		return c.Bool(a.SignedVal() < b.SignedVal())
	}
	if a == b {
		return c.False
	}
	return c.cmp("bvslt", a, b)
}
func (c *Ctx) Sle(a, b *Term) *Term {
	if a.IsConst() && b.IsConst() {
		return c.Bool(a.SignedVal() <= b.SignedVal())
	}
	if a == b {
		return c.True
	}
	return c.cmp("bvsle", a, b)
}

func (c *Ctx) Extract(a *Term, hi, lo int) *Term {
	if hi == a.W-1 && lo == 0 {
		return a
	}
	w := hi - lo + 1
	if a.IsConst() {
		return c.BV(a.C>>uint(lo), w)
	}
	if isShuffle(a) {
		return c.fromSegs(sliceSegs(c.segs(a), hi, lo))
	}
	if a.Op == "concat" {
		// concat(hiPart, loPart)
		lw := a.Args[1].W
		if hi < lw {
			return c.Extract(a.Args[1], hi, lo)
		}
		if lo >= lw {
			return c.Extract(a.Args[0], hi-lw, lo-lw)
		}
	}
	if a.Op == "zext" && hi < a.Args[0].W {
		return c.Extract(a.Args[0], hi, lo)
	}
	if a.Op == "sext" && hi < a.Args[0].W {
		return c.Extract(a.Args[0], hi, lo)
	}
	if a.Op == "extract" {
		return c.Extract(a.Args[0], hi+a.P[1], lo+a.P[1])
	}
	return c.mk(&Term{W: w, Op: "extract", Args: []*Term{a}, P: [2]int{hi, lo}})
}

func (c *Ctx) Concat(hi, lo *Term) *Term {
	if hi.IsConst() && lo.IsConst() {
		return c.BV(hi.C<<uint(lo.W)|lo.C, hi.W+lo.W)
	}
	if sa, sb := c.segs(hi), c.segs(lo); len(sa)+len(sb) <= maxSegs {
		return c.fromSegs(append(append([]seg{}, sa...), sb...))
	}
	return c.mk(&Term{W: hi.W + lo.W, Op: "concat", Args: []*Term{hi, lo}})
}

func (c *Ctx) Zext(a *Term, w int) *Term {
	if w == a.W {
		return a
	}
	if w < a.W {
		return c.Extract(a, w-1, 0)
	}
	if a.IsConst() {
		return c.BV(a.C, w)
	}
	return c.mk(&Term{W: w, Op: "zext", Args: []*Term{a}, P: [2]int{w - a.W, 0}})
}
func (c *Ctx) Sext(a *Term, w int) *Term {
	if w == a.W {
		return a
	}
	if w < a.W {
		return c.Extract(a, w-1, 0)
	}
	if a.IsConst() {
		return c.BV(uint64(a.SignedVal()), w)
	}
	return c.mk(&Term{W: w, Op: "sext", Args: []*Term{a}, P: [2]int{w - a.W, 0}})
}

// BoolToBV converts Bool to a 1-bit vector... used rarely.
func (c *Ctx) BoolToBV(a *Term, w int) *Term {
	return c.Ite(a, c.BV(1, w), c.BV(0, w))
}

// ---- math/bits style helpers on constants or symbolic (popcount etc. via ite chains kept small) ----

func (c *Ctx) LeadingZeros(a *Term) *Term {
	if a.IsConst() {
		return c.BV(uint64(bits.LeadingZeros64(a.C)-(64-a.W)), a.W)
	}
	// ite chain from the top bit
	res := c.BV(uint64(a.W), a.W)
	for i := 0; i < a.W; i++ {
		bit := c.Eq(c.Extract(a, i, i), c.BV(1, 1))
		res = c.Ite(bit, c.BV(uint64(a.W-1-i), a.W), res)
	}
	return res
}
func (c *Ctx) TrailingZeros(a *Term) *Term {
	if a.IsConst() {
		if a.C == 0 {
			return c.BV(uint64(a.W), a.W)
		}
		return c.BV(uint64(bits.TrailingZeros64(a.C)), a.W)
	}
	res := c.BV(uint64(a.W), a.W)
	for i := a.W - 1; i >= 0; i-- {
		bit := c.Eq(c.Extract(a, i, i), c.BV(1, 1))
		res = c.Ite(bit, c.BV(uint64(i), a.W), res)
	}
	return res
}

// ---- floating point (operands are IEEE bit patterns) ----

func fpSort(w int) (int, int) {
	if w == 32 {
		return 8, 24
	}
	return 11, 53
}

// FpBin: op in fp.add fp.sub fp.mul fp.div (RNE). Result is bits.
func (c *Ctx) FpBin(op string, a, b *Term) *Term {
	if a.IsConst() && b.IsConst() && a.W == 64 {
		x, y := math.Float64frombits(a.C), math.Float64frombits(b.C)
		var r float64
		switch op {
		case "fp.add":
			r = x + y
		case "fp.sub":
			r = x - y
		case "fp.mul":
			r = x * y
		case "fp.div":
			r = x / y
		}
		return c.BV(math.Float64bits(r), 64)
	}
	if a.IsConst() && b.IsConst() && a.W == 32 {
		x, y := math.Float32frombits(uint32(a.C)), math.Float32frombits(uint32(b.C))
		var r float32
		switch op {
		case "fp.add":
			r = x + y
		case "fp.sub":
			r = x - y
		case "fp.mul":
			r = x * y
		case "fp.div":
			r = x / y
		}
		return c.BV(uint64(math.Float32bits(r)), 32)
	}
	return c.mk(&Term{W: a.W, Op: op, Args: []*Term{a, b}})
}

// FpCmp: op in fp.lt fp.leq fp.gt fp.geq fp.eq (IEEE equality).
func (c *Ctx) FpCmp(op string, a, b *Term) *Term {
	if a.IsConst() && b.IsConst() {
		var x, y float64
		if a.W == 64 {
			x, y = math.Float64frombits(a.C), math.Float64frombits(b.C)
		} else {
			x, y = float64(math.Float32frombits(uint32(a.C))), float64(math.Float32frombits(uint32(b.C)))
		}
		switch op {
		case "fp.lt":
			return c.Bool(x < y)
		case "fp.leq":
			return c.Bool(x <= y)
		case "fp.gt":
			return c.Bool(x > y)
		case "fp.geq":
			return c.Bool(x >= y)
		case "fp.eq":
			return c.Bool(x == y)
		}
	}
	return c.mk(&Term{W: 0, Op: op, Args: []*Term{a, b}})
}

func (c *Ctx) FpNeg(a *Term) *Term {
	return c.BvXor(a, c.BV(uint64(1)<<uint(a.W-1), a.W))
}
func (c *Ctx) FpIsNaN(a *Term) *Term {
	if a.IsConst() {
		if a.W == 64 {
			return c.Bool(math.IsNaN(math.Float64frombits(a.C)))
		}
		return c.Bool(math.Float32frombits(uint32(a.C)) != math.Float32frombits(uint32(a.C)))
	}
	return c.mk(&Term{W: 0, Op: "fp.isNaN", Args: []*Term{a}})
}

// IntToFp converts a signed/unsigned integer term to float bits of width fw (RNE).
func (c *Ctx) IntToFp(a *Term, signed bool, fw int) *Term {
	if a.IsConst() {
		var f float64
		if signed {
			f = float64(a.SignedVal())
		} else {
			f = float64(a.C)
		}
		if fw == 64 {
			return c.BV(math.Float64bits(f), 64)
		}
		if signed {
			return c.BV(uint64(math.Float32bits(float32(a.SignedVal()))), 32)
		}
		return c.BV(uint64(math.Float32bits(float32(a.C))), 32)
	}
	op := "to_fp_s"
	if !signed {
		op = "to_fp_u"
	}
	return c.mk(&Term{W: fw, Op: op, Args: []*Term{a}})
}

// FpToInt converts float bits to an integer of width w, truncating toward zero. Out-of-range
// and NaN results are unspecified in SMT-LIB; Go/amd64 yields 0x8000.. for signed 64-bit:
// callers add that case explicitly where it matters.
func (c *Ctx) FpToInt(a *Term, signed bool, w int) *Term {
	if a.IsConst() && a.W == 64 {
		f := math.Float64frombits(a.C)
		if signed {
			return c.BV(uint64(int64(f)), w)
		}
		return c.BV(uint64(f), w)
	}
	op := "fp.to_sbv"
	if !signed {
		op = "fp.to_ubv"
	}
	return c.mk(&Term{W: w, Op: op, Args: []*Term{a}})
}

// FpToFp converts between float widths.
func (c *Ctx) FpToFp(a *Term, w int) *Term {
	if a.W == w {
		return a
	}
	if a.IsConst() {
		if a.W == 32 {
			return c.BV(math.Float64bits(float64(math.Float32frombits(uint32(a.C)))), 64)
		}
		return c.BV(uint64(math.Float32bits(float32(math.Float64frombits(a.C)))), 32)
	}
	return c.mk(&Term{W: w, Op: "fp.to_fp", Args: []*Term{a}})
}

// UF application: uninterpreted function over bit-vector args (declared on demand by Solver).
func (c *Ctx) UF(name string, w int, args ...*Term) *Term {
	return c.mk(&Term{W: w, Op: "uf", Name: name, Args: args})
}

// ---- printing ----

func sortStr(w int) string {
	if w == 0 {
		return "Bool"
	}
	return fmt.Sprintf("(_ BitVec %d)", w)
}

func constStr(t *Term) string {
	if t.W == 0 {
		if t.C == 1 {
			return "true"
		}
		return "false"
	}
	if t.W%4 == 0 {
		return fmt.Sprintf("#x%0*x", t.W/4, t.C)
	}
	return fmt.Sprintf("#b%0*b", t.W, t.C)
}

func ref(t *Term) string {
	switch t.Op {
	case "c":
		return constStr(t)
	case "v":
		return t.Name
	}
	return fmt.Sprintf("t%d", t.ID)
}

func toFP(t *Term) string {
	eb, sb := fpSort(t.W)
	return fmt.Sprintf("((_ to_fp %d %d) %s)", eb, sb, ref(t))
}

// body renders the defining expression of a non-leaf term, referencing children by name.
func body(t *Term) string {
	a := t.Args
	switch t.Op {
	case "not", "and", "or", "=", "ite", "bvadd", "bvsub", "bvmul", "bvnot", "bvand", "bvor", "bvxor",
		"bvshl", "bvlshr", "bvashr", "bvudiv", "bvurem", "bvsdiv", "bvsrem", "bvult", "bvule", "bvslt", "bvsle", "concat":
		parts := make([]string, len(a))
		for i, x := range a {
			parts[i] = ref(x)
		}
		return "(" + t.Op + " " + strings.Join(parts, " ") + ")"
	case "extract":
		return fmt.Sprintf("((_ extract %d %d) %s)", t.P[0], t.P[1], ref(a[0]))
	case "zext":
		return fmt.Sprintf("((_ zero_extend %d) %s)", t.P[0], ref(a[0]))
	case "sext":
		return fmt.Sprintf("((_ sign_extend %d) %s)", t.P[0], ref(a[0]))
	case "fp.add", "fp.sub", "fp.mul", "fp.div":
		return fmt.Sprintf("(fp.to_ieee_bv (%s RNE %s %s))", t.Op, toFP(a[0]), toFP(a[1]))
	case "fp.lt", "fp.leq", "fp.gt", "fp.geq", "fp.eq":
		return fmt.Sprintf("(%s %s %s)", t.Op, toFP(a[0]), toFP(a[1]))
	case "fp.isNaN":
		return fmt.Sprintf("(fp.isNaN %s)", toFP(a[0]))
	case "to_fp_s":
		eb, sb := fpSort(t.W)
		return fmt.Sprintf("(fp.to_ieee_bv ((_ to_fp %d %d) RNE %s))", eb, sb, ref(a[0]))
	case "to_fp_u":
		eb, sb := fpSort(t.W)
		return fmt.Sprintf("(fp.to_ieee_bv ((_ to_fp_unsigned %d %d) RNE %s))", eb, sb, ref(a[0]))
	case "fp.to_sbv":
		return fmt.Sprintf("((_ fp.to_sbv %d) RTZ %s)", t.W, toFP(a[0]))
	case "fp.to_ubv":
		return fmt.Sprintf("((_ fp.to_ubv %d) RTZ %s)", t.W, toFP(a[0]))
	case "fp.to_fp":
		eb, sb := fpSort(t.W)
		return fmt.Sprintf("(fp.to_ieee_bv ((_ to_fp %d %d) RNE %s))", eb, sb, toFP(a[0]))
	case "dec":
		// correctly rounded m * 10^e: computed in binary128 (exact operands), then rounded to binary64
		e := t.P[0]
		op := "fp.mul"
		if e < 0 {
			op = "fp.div"
			e = -e
		}
		return fmt.Sprintf("(fp.to_ieee_bv ((_ to_fp 11 53) RNE (%s RNE ((_ to_fp 15 113) RNE %s) ((_ to_fp 15 113) RNE 1%s.0))))", op, ref(a[0]), strings.Repeat("0", e))
	case "uf":
		parts := make([]string, len(a))
		for i, x := range a {
			parts[i] = ref(x)
		}
		return "(" + t.Name + " " + strings.Join(parts, " ") + ")"
	}
	panic("smt.body: unknown op " + t.Op)
}

// Size returns the DAG size of t (for evidence).
func Size(t *Term) int {
	seen := map[int]bool{}
	var rec func(*Term)
	rec = func(x *Term) {
		if seen[x.ID] {
			return
		}
		seen[x.ID] = true
		for _, a := range x.Args {
			rec(a)
		}
	}
	rec(t)
	return len(seen)
}

// String renders a term fully inline (debugging / evidence samples; may be large).
func (t *Term) String() string {
	return t.str(0)
}

func (t *Term) str(depth int) string {
	switch t.Op {
	case "c":
		return constStr(t)
	case "v":
		return t.Name
	}
	if depth > 6 {
		return "…"
	}
	parts := make([]string, len(t.Args))
	for i, x := range t.Args {
		parts[i] = x.str(depth + 1)
	}
	op := t.Op
	if op == "extract" {
		op = fmt.Sprintf("extract[%d:%d]", t.P[0], t.P[1])
	}
	if op == "uf" {
		op = t.Name
	}
	return "(" + op + " " + strings.Join(parts, " ") + ")"
}
