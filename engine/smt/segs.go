package smt

// Segment normal form for byte-shuffling code: a bit-vector is viewed as a concatenation of
// constant runs, extracts of base terms and replicated single bits (sign fills). Shifts by
// constants, zero/sign extension and and/or/xor stay inside this form piecewise, so that
// decode(encode(x)) style re-assembly (big-endian bytes, varint groups, zig-zag) collapses
// syntactically instead of being left to bit-blasting.

type seg struct {
	base   *Term // nil: constant
	hi, lo int   // extract bounds in base (base != nil, !rep)
	rep    bool  // base is a 1-bit term replicated w times
	c      uint64
	w      int
}

const maxSegs = 40

func (c *Ctx) segs(t *Term) []seg {
	switch t.Op {
	case "c":
		return []seg{{c: t.C, w: t.W}}
	case "concat":
		a := c.segs(t.Args[0])
		b := c.segs(t.Args[1])
		if len(a)+len(b) > maxSegs {
			return []seg{{base: t, hi: t.W - 1, lo: 0, w: t.W}}
		}
		return append(append([]seg{}, a...), b...)
	case "extract":
		inner := c.segs(t.Args[0])
		return sliceSegs(inner, t.P[0], t.P[1])
	case "zext":
		inner := c.segs(t.Args[0])
		return append([]seg{{c: 0, w: t.P[0]}}, inner...)
	case "sext":
		a := t.Args[0]
		if a.W == 1 && !a.IsConst() {
			return []seg{{base: a, rep: true, w: t.W}}
		}
		inner := c.segs(a)
		signBit := c.fromSegs(sliceSegs(inner, a.W-1, a.W-1))
		if signBit.IsConst() {
			v := uint64(0)
			if signBit.C == 1 {
				v = mask(t.P[0])
			}
			return append([]seg{{c: v, w: t.P[0]}}, inner...)
		}
		return append([]seg{{base: signBit, rep: true, w: t.P[0]}}, inner...)
	}
	return []seg{{base: t, hi: t.W - 1, lo: 0, w: t.W}}
}

// sliceSegs takes bits [hi:lo] of the value described by segs (most significant first).
func sliceSegs(s []seg, hi, lo int) []seg {
	total := 0
	for _, x := range s {
		total += x.w
	}
	var out []seg
	pos := total // bit index just above current segment
	for _, x := range s {
		top := pos - 1
		bot := pos - x.w
		pos = bot
		if bot > hi || top < lo {
			continue
		}
		h := top
		if hi < h {
			h = hi
		}
		l := bot
		if lo > l {
			l = lo
		}
		rh, rl := h-bot, l-bot
		switch {
		case x.base == nil:
			out = append(out, seg{c: (x.c >> uint(rl)) & mask(rh-rl+1), w: rh - rl + 1})
		case x.rep:
			out = append(out, seg{base: x.base, rep: true, w: rh - rl + 1})
		default:
			out = append(out, seg{base: x.base, hi: x.lo + rh, lo: x.lo + rl, w: rh - rl + 1})
		}
	}
	return out
}

func (c *Ctx) segTerm(x seg) *Term {
	switch {
	case x.base == nil:
		return c.BV(x.c, x.w)
	case x.rep:
		if x.w == 1 {
			return x.base
		}
		return c.mk(&Term{W: x.w, Op: "sext", Args: []*Term{x.base}, P: [2]int{x.w - 1, 0}})
	case x.hi == x.base.W-1 && x.lo == 0:
		return x.base
	}
	return c.mk(&Term{W: x.w, Op: "extract", Args: []*Term{x.base}, P: [2]int{x.hi, x.lo}})
}

func (c *Ctx) fromSegs(s []seg) *Term {
	var m []seg
	for _, x := range s {
		if x.w == 0 {
			continue
		}
		// a 1-bit extract used as replicated bit: normalise rep(w=1) to a plain segment
		if len(m) > 0 {
			p := &m[len(m)-1]
			if p.base == nil && x.base == nil && p.w+x.w <= 64 {
				p.c = p.c<<uint(x.w) | x.c
				p.w += x.w
				continue
			}
			if p.base != nil && x.base != nil && p.rep && x.rep && p.base == x.base {
				p.w += x.w
				continue
			}
			// rep(b,n) next to the bit b itself
			if p.base != nil && p.rep && !x.rep && x.base == p.base && x.w == 1 {
				p.w++
				continue
			}
			if p.base != nil && !p.rep && p.w == 1 && p.base.W == 1 && x.rep && x.base == p.base {
				*p = seg{base: x.base, rep: true, w: x.w + 1}
				continue
			}
			if p.base != nil && !p.rep && !x.rep && p.base == x.base && p.lo == x.hi+1 {
				p.lo = x.lo
				p.w += x.w
				continue
			}
		}
		m = append(m, x)
	}
	// rep(b, n) directly above a segment whose top bit is b  ==> sign extension of that segment
	if len(m) == 2 && m[0].rep && m[1].base != nil && !m[1].rep {
		top := c.segTerm(seg{base: m[1].base, hi: m[1].hi, lo: m[1].hi, w: 1})
		if top == m[0].base {
			inner := c.segTerm(m[1])
			return c.mk(&Term{W: m[0].w + inner.W, Op: "sext", Args: []*Term{inner}, P: [2]int{m[0].w, 0}})
		}
	}
	var res *Term
	for i := len(m) - 1; i >= 0; i-- {
		t := c.segTerm(m[i])
		if res == nil {
			res = t
		} else {
			res = c.mk(&Term{W: t.W + res.W, Op: "concat", Args: []*Term{t, res}})
		}
	}
	return res
}

func isShuffle(t *Term) bool {
	switch t.Op {
	case "c", "concat", "extract", "zext", "sext":
		return true
	}
	return false
}

func (c *Ctx) shlConst(a *Term, k int) *Term {
	if k >= a.W {
		return c.BV(0, a.W)
	}
	s := sliceSegs(c.segs(a), a.W-1-k, 0)
	s = append(s, seg{c: 0, w: k})
	if len(s) > maxSegs {
		return nil
	}
	return c.fromSegs(s)
}

func (c *Ctx) lshrConst(a *Term, k int) *Term {
	if k >= a.W {
		return c.BV(0, a.W)
	}
	s := append([]seg{{c: 0, w: k}}, sliceSegs(c.segs(a), a.W-1, k)...)
	if len(s) > maxSegs {
		return nil
	}
	return c.fromSegs(s)
}

func (c *Ctx) ashrConst(a *Term, k int) *Term {
	if k >= a.W {
		k = a.W - 1
		if a.W == 1 {
			return a
		}
	}
	sa := c.segs(a)
	signBit := c.fromSegs(sliceSegs(sa, a.W-1, a.W-1))
	var fill seg
	if signBit.IsConst() {
		v := uint64(0)
		if signBit.C == 1 {
			v = mask(k)
		}
		fill = seg{c: v, w: k}
	} else {
		fill = seg{base: signBit, rep: true, w: k}
	}
	s := append([]seg{fill}, sliceSegs(sa, a.W-1, k)...)
	if len(s) > maxSegs {
		return nil
	}
	return c.fromSegs(s)
}

func align(a, b []seg) ([]seg, []seg) {
	var ra, rb []seg
	i, j := 0, 0
	var ca, cb seg
	haveA, haveB := false, false
	for {
		if !haveA {
			if i >= len(a) {
				break
			}
			ca = a[i]
			i++
			haveA = true
		}
		if !haveB {
			if j >= len(b) {
				break
			}
			cb = b[j]
			j++
			haveB = true
		}
		w := ca.w
		if cb.w < w {
			w = cb.w
		}
		ra = append(ra, topBits(ca, w))
		rb = append(rb, topBits(cb, w))
		ca = restBits(ca, w)
		cb = restBits(cb, w)
		if ca.w == 0 {
			haveA = false
		}
		if cb.w == 0 {
			haveB = false
		}
	}
	return ra, rb
}

func topBits(s seg, w int) seg {
	switch {
	case s.base == nil:
		return seg{c: (s.c >> uint(s.w-w)) & mask(w), w: w}
	case s.rep:
		return seg{base: s.base, rep: true, w: w}
	}
	return seg{base: s.base, hi: s.hi, lo: s.hi - w + 1, w: w}
}

func restBits(s seg, w int) seg {
	switch {
	case s.base == nil:
		return seg{c: s.c & mask(s.w-w), w: s.w - w}
	case s.rep:
		return seg{base: s.base, rep: true, w: s.w - w}
	}
	return seg{base: s.base, hi: s.hi - w, lo: s.lo, w: s.w - w}
}

func sameSeg(x, y seg) bool {
	return x.base == y.base && x.rep == y.rep && (x.rep || (x.hi == y.hi && x.lo == y.lo))
}

// bitwiseSegs computes a op b piecewise over aligned segments; op: '&', '|', '^'. Returns nil
// when nothing would be gained (both operands opaque) or the result would be too fragmented.
func (c *Ctx) bitwiseSegs(op byte, a, b *Term) *Term {
	sa, sb := splitRuns(c.segs(a)), splitRuns(c.segs(b))
	if len(sa) == 1 && len(sb) == 1 && sa[0].base != nil && sb[0].base != nil {
		return nil
	}
	if len(sa)+len(sb) > 3*maxSegs {
		return nil
	}
	ra, rb := align(sa, sb)
	if len(ra) > 2*maxSegs {
		return nil
	}
	if len(ra) == 1 && ra[0].base != nil && rb[0].base != nil {
		return nil
	}
	// Splitting pays only when some aligned pair simplifies (a constant piece, or the same piece
	// on both sides); otherwise keep the plain operator, whose shape the equality rules recognise.
	progress := false
	for i := range ra {
		x, y := ra[i], rb[i]
		if x.base == nil || y.base == nil || sameSeg(x, y) {
			progress = true
			break
		}
	}
	if !progress {
		return nil
	}
	out := make([]seg, 0, len(ra))
	for i := range ra {
		x, y := ra[i], rb[i]
		if x.base != nil && y.base != nil {
			if sameSeg(x, y) {
				if op == '^' {
					out = append(out, seg{c: 0, w: x.w})
				} else {
					out = append(out, x)
				}
				continue
			}
			tx, ty := c.segTerm(x), c.segTerm(y)
			var r *Term
			switch op {
			case '&':
				r = c.BvAnd(tx, ty)
			case '|':
				r = c.BvOr(tx, ty)
			default:
				r = c.BvXor(tx, ty)
			}
			out = append(out, c.segs(r)...)
			continue
		}
		if x.base == nil && y.base == nil {
			var v uint64
			switch op {
			case '&':
				v = x.c & y.c
			case '|':
				v = x.c | y.c
			default:
				v = x.c ^ y.c
			}
			out = append(out, seg{c: v, w: x.w})
			continue
		}
		if x.base == nil {
			x, y = y, x
		}
		zero := y.c == 0
		ones := y.c == mask(y.w)
		switch {
		case op == '&' && zero:
			out = append(out, seg{c: 0, w: x.w})
		case op == '&' && ones:
			out = append(out, x)
		case op == '|' && zero:
			out = append(out, x)
		case op == '|' && ones:
			out = append(out, seg{c: mask(x.w), w: x.w})
		case op == '^' && zero:
			out = append(out, x)
		case op == '^' && ones:
			n := c.BvNot(c.segTerm(x))
			out = append(out, seg{base: n, hi: n.W - 1, lo: 0, w: n.W})
		default:
			return nil
		}
	}
	if len(out) > 2*maxSegs {
		return nil
	}
	return c.fromSegs(out)
}

func splitRuns(s []seg) []seg {
	var out []seg
	for _, x := range s {
		if x.base != nil || x.c == 0 || x.c == mask(x.w) {
			out = append(out, x)
			continue
		}
		i := x.w - 1
		for i >= 0 {
			bit := (x.c >> uint(i)) & 1
			j := i
			for j-1 >= 0 && (x.c>>uint(j-1))&1 == bit {
				j--
			}
			w := i - j + 1
			v := uint64(0)
			if bit == 1 {
				v = mask(w)
			}
			out = append(out, seg{c: v, w: w})
			i = j - 1
		}
	}
	return out
}

// LowBase recognises a value re-assembled from the low bits of a base term of the same width
// plus constant / sign-fill high bits: concat(fill…, extract(X, k, 0)). It returns X (or nil).
// Whether the fill really equals X's high bits depends on the path condition; the executor
// asks the solver and substitutes X when it does.
func (c *Ctx) LowBase(t *Term) *Term {
	if t.Op != "concat" && t.Op != "zext" && t.Op != "sext" {
		return nil
	}
	s := c.segs(t)
	if len(s) < 2 {
		return nil
	}
	last := s[len(s)-1]
	if last.base == nil || last.rep || last.lo != 0 || last.base.W != t.W {
		return nil
	}
	for _, x := range s[:len(s)-1] {
		if x.base != nil && !x.rep {
			return nil
		}
	}
	return last.base
}
