package smt

import (
	"math/rand"
	"testing"
)

// TestRewriteSoundness builds random bit-vector expressions twice: through the simplifying
// constructors, and as a reference value computed directly on uint64; the built term evaluated
// by Eval (direct semantics) must equal the reference for random assignments.
var lastOp int
var lastX *Term

func TestRewriteSoundness(t *testing.T) {
	rng := rand.New(rand.NewSource(7))
	for iter := 0; iter < 30000; iter++ {
		c := NewCtx()
		env := map[string]uint64{}
		type tv struct {
			t *Term
			v uint64
		}
		var pool []tv
		widths := []int{1, 8, 16, 32, 64}
		for i := 0; i < 3; i++ {
			w := widths[rng.Intn(len(widths))]
			name := string(rune('a' + i))
			val := rng.Uint64()
			switch rng.Intn(4) {
			case 0:
				val = 0
			case 1:
				val = ^uint64(0)
			}
			val &= mask(w)
			env[name] = val
			pool = append(pool, tv{c.Var(name, w), val})
		}
		pick := func(w int) (tv, bool) {
			var cand []tv
			for _, p := range pool {
				if p.t.W == w {
					cand = append(cand, p)
				}
			}
			if len(cand) == 0 {
				return tv{}, false
			}
			return cand[rng.Intn(len(cand))], true
		}
		sgn := func(v uint64, w int) int64 {
			if w >= 64 {
				return int64(v)
			}
			sh := uint(64 - w)
			return int64(v<<sh) >> sh
		}
		for step := 0; step < 14; step++ {
			x := pool[rng.Intn(len(pool))]
			w := x.t.W
			m := mask(w)
			var n tv
			opc := rng.Intn(16)
			lastOp = opc
			lastX = x.t
			switch opc {
			case 0: // const of same width
				v := rng.Uint64() & m
				if rng.Intn(2) == 0 {
					v = []uint64{0, 1, 0x7f, 0x80, 0xff, m, m >> 1, 1 << uint(w-1)}[rng.Intn(8)] & m
				}
				n = tv{c.BV(v, w), v}
			case 1:
				y, ok := pick(w)
				if !ok {
					continue
				}
				n = tv{c.BvAnd(x.t, y.t), x.v & y.v}
			case 2:
				y, ok := pick(w)
				if !ok {
					continue
				}
				n = tv{c.BvOr(x.t, y.t), x.v | y.v}
			case 3:
				y, ok := pick(w)
				if !ok {
					continue
				}
				n = tv{c.BvXor(x.t, y.t), x.v ^ y.v}
			case 4:
				k := uint64(rng.Intn(w+2)) & m
				r := uint64(0)
				if k < uint64(w) {
					r = (x.v << k) & m
				}
				n = tv{c.Shl(x.t, c.BV(k, w)), r}
			case 5:
				k := uint64(rng.Intn(w+2)) & m
				r := uint64(0)
				if k < uint64(w) {
					r = x.v >> k
				}
				n = tv{c.Lshr(x.t, c.BV(k, w)), r}
			case 6:
				k := uint64(rng.Intn(w+2)) & m
				kk := k
				if kk >= uint64(w) {
					kk = uint64(w - 1)
				}
				n = tv{c.Ashr(x.t, c.BV(k, w)), uint64(sgn(x.v, w)>>kk) & m}
			case 7:
				if w < 2 {
					continue
				}
				lo := rng.Intn(w)
				hi := lo + rng.Intn(w-lo)
				n = tv{c.Extract(x.t, hi, lo), (x.v >> uint(lo)) & mask(hi-lo+1)}
			case 8:
				y := pool[rng.Intn(len(pool))]
				if w+y.t.W > 64 {
					continue
				}
				n = tv{c.Concat(x.t, y.t), x.v<<uint(y.t.W) | y.v}
			case 9:
				nw := w + rng.Intn(65-w)
				n = tv{c.Zext(x.t, nw), x.v}
			case 10:
				nw := w + rng.Intn(65-w)
				n = tv{c.Sext(x.t, nw), uint64(sgn(x.v, w)) & mask(nw)}
			case 11:
				y, ok := pick(w)
				if !ok {
					continue
				}
				n = tv{c.Add(x.t, y.t), (x.v + y.v) & m}
			case 12:
				y, ok := pick(w)
				if !ok {
					continue
				}
				n = tv{c.Sub(x.t, y.t), (x.v - y.v) & m}
			case 13:
				n = tv{c.BvNot(x.t), ^x.v & m}
			case 14:
				y, ok := pick(w)
				if !ok {
					continue
				}
				b := c.Ult(x.t, y.t)
				n = tv{c.Ite(b, x.t, y.t), map[bool]uint64{true: x.v, false: y.v}[x.v < y.v]}
			case 15:
				y, ok := pick(w)
				if !ok {
					continue
				}
				e := c.Eq(x.t, y.t)
				n = tv{c.BoolToBV(e, 8), map[bool]uint64{true: 1, false: 0}[x.v == y.v]}
			}
			if n.t == nil {
				continue
			}
			got, ok := Eval(n.t, env)
			if !ok || got != n.v {
				t.Fatalf("op %d x=%s iter %d step %d: term %s evaluates to %#x, reference %#x (env %v)", lastOp, lastX.String(), iter, step, n.t.String(), got, n.v, env)
			}
			pool = append(pool, n)
		}
	}
}
