package sx

import (
	"fmt"
	"go/types"

	"golang.org/x/tools/go/ssa"
)

// NoopFunc is a function value that does nothing (context cancel functions).
type NoopFunc struct{}

func (m *Machine) noopCancel() Value { return NoopFunc{} }

func (m *Machine) ctxType(name string) types.Type {
	p := m.E.Prog.ImportedPackage("context")
	if p == nil {
		m.unsupported("package context not loaded")
	}
	t := p.Type(name)
	if t == nil {
		m.unsupported("context." + name + " not found")
	}
	return t.Type()
}

// ctxValue builds context values with the real dynamic types of package context, so that the
// real (*valueCtx).Value / value() code runs on them: Background → backgroundCtx{}, WithValue →
// &valueCtx{parent,key,val} (without the reflect-based comparability check).
func (m *Machine) ctxValue(parent, key, val Value) Value {
	if parent == nil {
		t := m.ctxType("backgroundCtx")
		return IfaceV{T: t, V: m.zero(t)}
	}
	t := m.ctxType("valueCtx")
	c := new(Value)
	*c = StructV{parent, key, val}
	return IfaceV{T: types.NewPointer(t), V: Ptr{c}}
}

// ---- a sliver of reflect: type identity of a value and nil-ness of a reference ----

func reflectIntrinsics(I map[string]Intrinsic) {
	I["reflect.TypeOf"] = func(m *Machine, fn *ssa.Function, a []Value) Value {
		iv, ok := a[0].(IfaceV)
		if !ok || iv.T == nil {
			return IfaceV{}
		}
		p := m.E.Prog.ImportedPackage("reflect")
		if p == nil || p.Type("rtype") == nil {
			m.unsupported("reflect.rtype not loaded")
		}
		return IfaceV{T: types.NewPointer(p.Type("rtype").Type()), V: Native{V: iv.T.String()}}
	}
	I["(*reflect.rtype).String"] = func(m *Machine, fn *ssa.Function, a []Value) Value {
		if n, ok := a[0].(Native); ok {
			if s, ok := n.V.(string); ok {
				return s
			}
		}
		m.unsupported("reflect type String of a non-modelled type")
		return nil
	}
	I["reflect.ValueOf"] = func(m *Machine, fn *ssa.Function, a []Value) Value {
		return Native{V: reflectBox{a[0]}}
	}
	I["(reflect.Value).IsNil"] = func(m *Machine, fn *ssa.Function, a []Value) Value {
		n, ok := a[0].(Native)
		if !ok {
			m.unsupported("reflect.Value.IsNil on a non-modelled value")
		}
		b, ok := n.V.(reflectBox)
		if !ok {
			m.unsupported("reflect.Value.IsNil on a non-modelled value")
		}
		v := b.v
		if iv, ok := v.(IfaceV); ok {
			if iv.T == nil {
				m.goPanic("reflect: call of reflect.Value.IsNil on zero Value")
			}
			v = iv.V
		}
		switch x := v.(type) {
		case Ptr:
			return m.ctx.Bool(x.C == nil)
		case *MapV:
			return m.ctx.Bool(x == nil)
		case *ChanV:
			return m.ctx.Bool(x == nil)
		case SliceV:
			return m.ctx.Bool(x.Nil)
		case FuncNil:
			return m.ctx.True
		case *ClosureV, *ssa.Function, NoopFunc:
			return m.ctx.False
		}
		m.unsupported(fmt.Sprintf("reflect.Value.IsNil of %T", v))
		return nil
	}
}

type reflectBox struct{ v Value }
