package sx

import "go/types"

// NoopFunc is a function value that does nothing (context cancel functions).
type NoopFunc struct{}

func (m *Machine) noopCancel() Value { return NoopFunc{} }

func (m *Machine) ctxType(name string) types.Type {
	p := m.E.Prog.ImportedPackage("context")
	if p == nil {
		m.unsupported("package context not loaded")
	}
	t := p.Type(name)
	if t == nil {
		m.unsupported("context." + name + " not found")
	}
	return t.Type()
}

// ctxValue builds context values with the real dynamic types of package context, so that the
// real (*valueCtx).Value / value() code runs on them: Background → backgroundCtx{}, WithValue →
// &valueCtx{parent,key,val} (without the reflect-based comparability check).
func (m *Machine) ctxValue(parent, key, val Value) Value {
	if parent == nil {
		t := m.ctxType("backgroundCtx")
		return IfaceV{T: t, V: m.zero(t)}
	}
	t := m.ctxType("valueCtx")
	c := new(Value)
	*c = StructV{parent, key, val}
	return IfaceV{T: types.NewPointer(t), V: Ptr{c}}
}
