package sx

import (
	"encoding/json"
	"fmt"
	"go/types"
	"math"
	"path/filepath"
	"strconv"
	"strings"

	"golang.org/x/tools/go/ssa"

	"verif/engine/smt"
)

const zz = "github.com/apache/skywalking-banyandb/pkg/zzverif."

func (m *Machine) lookupIntrinsic(fn *ssa.Function) Intrinsic {
	name := fn.String()
	if in, ok := m.E.Intrinsics[name]; ok {
		return in
	}
	if o := fn.Origin(); o != nil {
		if in, ok := m.E.Intrinsics[o.String()]; ok {
			return in
		}
	}
	if fn.Pkg == nil && fn.Origin() == nil && fn.Signature.Recv() == nil {
		return nil
	}
	pkg := ""
	if fn.Pkg != nil {
		pkg = fn.Pkg.Pkg.Path()
	} else if o := fn.Origin(); o != nil && o.Pkg != nil {
		pkg = o.Pkg.Pkg.Path()
	} else if recv := fn.Signature.Recv(); recv != nil {
		// wrapper methods ($bound, $thunk, promoted): find the package of the receiver's named type
		if n := namedOf(recv.Type()); n != nil && n.Obj().Pkg() != nil {
			pkg = n.Obj().Pkg().Path()
		}
	}
	switch pkg {
	case "github.com/rs/zerolog", "github.com/rs/zerolog/log":
		return zerologRule
	case "github.com/apache/skywalking-banyandb/pkg/logger":
		return loggerRule
	}
	return nil
}

func namedOf(t types.Type) *types.Named {
	for {
		switch x := t.(type) {
		case *types.Pointer:
			t = x.Elem()
		case *types.Named:
			return x
		case *types.Alias:
			t = types.Unalias(x)
		default:
			return nil
		}
	}
}

func resultType(fn *ssa.Function) types.Type {
	r := fn.Signature.Results()
	if r.Len() == 0 {
		return nil
	}
	if r.Len() == 1 {
		return r.At(0).Type()
	}
	return r
}

func isEventPtr(t types.Type) bool {
	if t == nil {
		return false
	}
	n := namedOf(t)
	return n != nil && n.Obj().Name() == "Event" && n.Obj().Pkg() != nil && n.Obj().Pkg().Path() == "github.com/rs/zerolog"
}

func zerologRule(m *Machine, fn *ssa.Function, args []Value) Value {
	rt := resultType(fn)
	name := fn.Name()
	// receiver event?
	var ev *LogEvent
	if len(args) > 0 {
		if p, ok := args[0].(Ptr); ok && p.C != nil {
			if e, ok := (*p.C).(*LogEvent); ok {
				ev = e
			}
		}
	}
	if ev != nil && ev.Panic {
		switch name {
		case "Msg", "Msgf", "Send", "MsgFunc":
			panic(goPanic{V: "zerolog panic-level event", Desc: "logger Panic()/Fatal() event emitted", Site: m.pos()})
		}
	}
	if isEventPtr(rt) {
		if ev != nil {
			return args[0]
		}
		c := new(Value)
		*c = &LogEvent{Panic: name == "Panic" || name == "Fatal"}
		return Ptr{c}
	}
	if rt == nil {
		return nil
	}
	return m.zero(rt)
}

func loggerRule(m *Machine, fn *ssa.Function, args []Value) Value {
	switch fn.Name() {
	case "Panicf":
		panic(goPanic{V: "logger.Panicf", Desc: "logger.Panicf called", Site: m.pos()})
	case "GetLogger", "Fetch", "FetchOrDefault", "Named", "DefaultLevel":
		rt := resultType(fn)
		c := new(Value)
		*c = m.zero(rt.(*types.Pointer).Elem())
		return Ptr{c}
	}
	rt := resultType(fn)
	if rt == nil {
		return nil
	}
	return m.zero(rt)
}

func term(v Value) *smt.Term { t, _ := v.(*smt.Term); return t }

func (m *Machine) strArg(v Value) string {
	s, ok := concStr(v)
	if !ok {
		m.unsupported("symbolic string where a concrete one is required")
	}
	return s
}

func builtinIntrinsics() map[string]Intrinsic {
	I := map[string]Intrinsic{}
	nd := func(w int) Intrinsic {
		return func(m *Machine, fn *ssa.Function, a []Value) Value { return m.nondet(m.strArg(a[0]), w) }
	}
	I[zz+"Int64"], I[zz+"Uint64"], I[zz+"Int"], I[zz+"Float64"] = nd(64), nd(64), nd(64), nd(64)
	I[zz+"Int32"], I[zz+"Uint32"] = nd(32), nd(32)
	I[zz+"Int16"], I[zz+"Uint16"] = nd(16), nd(16)
	I[zz+"Int8"], I[zz+"Uint8"], I[zz+"Byte"] = nd(8), nd(8), nd(8)
	I[zz+"Bool"] = func(m *Machine, fn *ssa.Function, a []Value) Value {
		t := m.nondet(m.strArg(a[0]), 1)
		return m.ctx.Eq(t, m.ctx.BV(1, 1))
	}
	I[zz+"Bytes"] = func(m *Machine, fn *ssa.Function, a []Value) Value {
		n := m.concInt(a[1], "Bytes n")
		name := m.strArg(a[0])
		s := make([]Value, n)
		for i := range s {
			s[i] = m.nondet(fmt.Sprintf("%s_%d", name, i), 8)
		}
		return SliceV{A: s}
	}
	I[zz+"String"] = func(m *Machine, fn *ssa.Function, a []Value) Value {
		n := m.concInt(a[1], "String n")
		name := m.strArg(a[0])
		s := make([]*smt.Term, n)
		for i := range s {
			s[i] = m.nondet(fmt.Sprintf("%s_%d", name, i), 8)
		}
		return normStr(s)
	}
	I[zz+"Choice"] = func(m *Machine, fn *ssa.Function, a []Value) Value {
		n := m.concInt(a[1], "Choice n")
		t := m.nondet(m.strArg(a[0]), 64)
		m.assume(m.ctx.Ult(t, m.ctx.BV(uint64(n), 64)))
		return t
	}
	I[zz+"Assume"] = func(m *Machine, fn *ssa.Function, a []Value) Value {
		c := term(a[0])
		if m.sol != nil && !c.IsConst() {
			// an infeasible assumption ends the path silently
			if m.check(c) == smt.Unsat {
				m.abort("infeasible", "assumption unsatisfiable")
			}
		}
		m.assume(c)
		return nil
	}
	I[zz+"Assert"] = func(m *Machine, fn *ssa.Function, a []Value) Value {
		m.assertProp(term(a[0]), m.strArg(a[1]), "", nil)
		return nil
	}
	I[zz+"AssertExcept"] = func(m *Machine, fn *ssa.Function, a []Value) Value {
		m.assertProp(term(a[0]), m.strArg(a[1]), m.strArg(a[2]), term(a[3]))
		return nil
	}
	I[zz+"Reach"] = func(m *Machine, fn *ssa.Function, a []Value) Value {
		m.events = append(m.events, Event{Kind: "reach", Name: m.strArg(a[0])})
		return nil
	}
	obs := func(m *Machine, fn *ssa.Function, a []Value) Value {
		t := term(a[1])
		if t.W == 0 {
			t = m.ctx.BoolToBV(t, 64)
		}
		m.events = append(m.events, Event{Kind: "observe", Name: m.strArg(a[0]), T: t})
		return nil
	}
	I[zz+"Observe"], I[zz+"ObserveI"], I[zz+"ObserveB"] = obs, obs, obs
	I[zz+"ObserveBytes"] = func(m *Machine, fn *ssa.Function, a []Value) Value {
		name := m.strArg(a[0])
		b := m.sliceBytes(a[1])
		m.events = append(m.events, Event{Kind: "observe", Name: name + ".len", T: m.ctx.BV(uint64(len(b)), 64)})
		for i, x := range b {
			m.events = append(m.events, Event{Kind: "observe", Name: fmt.Sprintf("%s[%d]", name, i), T: m.ctx.Zext(x, 64)})
		}
		return nil
	}
	I[zz+"Try"] = func(m *Machine, fn *ssa.Function, a []Value) Value {
		panicked := false
		depth := len(m.stack)
		func() {
			defer func() {
				if r := recover(); r != nil {
					if gp, ok := r.(goPanic); ok {
						panicked = true
						m.stack = m.stack[:depth]
						m.locals["lastPanic"] = gp.Desc + " at " + gp.Site
						return
					}
					panic(r)
				}
			}()
			m.callValue(a[0], nil, nil)
		}()
		return m.ctx.Bool(panicked)
	}
	I[zz+"And"] = func(m *Machine, fn *ssa.Function, a []Value) Value { return m.ctx.And(term(a[0]), term(a[1])) }
	I[zz+"Or"] = func(m *Machine, fn *ssa.Function, a []Value) Value { return m.ctx.Or(term(a[0]), term(a[1])) }
	I[zz+"Implies"] = func(m *Machine, fn *ssa.Function, a []Value) Value { return m.ctx.Implies(term(a[0]), term(a[1])) }
	I[zz+"Iff"] = func(m *Machine, fn *ssa.Function, a []Value) Value { return m.ctx.Eq(term(a[0]), term(a[1])) }
	ite := func(m *Machine, fn *ssa.Function, a []Value) Value { return m.ctx.Ite(term(a[0]), term(a[1]), term(a[2])) }
	I[zz+"IteI"], I[zz+"IteU"] = ite, ite
	I[zz+"Decimal"] = func(m *Machine, fn *ssa.Function, a []Value) Value {
		e := m.concInt(a[1], "Decimal exponent")
		if e < -48 || e > 48 {
			m.unsupported("zzverif.Decimal exponent outside [-48,48]")
		}
		return m.ctx.Decimal(term(a[0]), e)
	}
	I[zz+"Thorough"] = func(m *Machine, fn *ssa.Function, a []Value) Value { return m.ctx.Bool(m.Cfg.Thorough) }
	I[zz+"TempDir"] = func(m *Machine, fn *ssa.Function, a []Value) Value { return "/zzverif-tmp" }
	I["github.com/apache/skywalking-banyandb/pkg/fs.NewLocalFileSystem"] = func(m *Machine, fn *ssa.Function, a []Value) Value {
		// an opaque local file system: every call on it must be redirected by the harness
		t := resultType(fn)
		lt := m.E.Prog.ImportedPackage("github.com/apache/skywalking-banyandb/pkg/fs").Type("localFileSystem").Type()
		c := new(Value)
		*c = m.zero(lt)
		_ = t
		return IfaceV{T: types.NewPointer(lt), V: Ptr{c}}
	}
	I[zz+"SymbolicMapOrder"] = func(m *Machine, fn *ssa.Function, a []Value) Value { m.locals["maporder"] = true; return nil }
	I[zz+"UF64"] = func(m *Machine, fn *ssa.Function, a []Value) Value {
		name := m.strArg(a[0])
		var as []*smt.Term
		for _, e := range a[1].(SliceV).A {
			as = append(as, e.(*smt.Term))
		}
		return m.ctx.UF(fmt.Sprintf("uf_%s_%d", sanitize(name), len(as)), 64, as...)
	}

	// ---- sync ----
	nop := func(m *Machine, fn *ssa.Function, a []Value) Value { return nil }
	for _, n := range []string{"(*sync.Mutex).Lock", "(*sync.Mutex).Unlock", "(*sync.RWMutex).Lock", "(*sync.RWMutex).Unlock",
		"(*sync.RWMutex).RLock", "(*sync.RWMutex).RUnlock", "(*sync.WaitGroup).Add", "(*sync.WaitGroup).Done", "(*sync.WaitGroup).Wait",
		"(*sync.Pool).Put", "runtime.KeepAlive", "runtime.Gosched", "runtime.SetFinalizer", "(*sync.Cond).Broadcast", "(*sync.Cond).Signal"} {
		I[n] = nop
	}
	concIntrinsics(I)
	reflectIntrinsics(I)
	// sync.Pool: LIFO store (maximal reuse: the case in which stale state of a recycled object matters)
	I["(*sync.Pool).Get"] = func(m *Machine, fn *ssa.Function, a []Value) Value {
		p := m.ptrOf(a[0])
		key := fmt.Sprintf("pool%p", p)
		if items, _ := m.locals[key].([]Value); len(items) > 0 {
			v := items[len(items)-1]
			m.locals[key] = items[:len(items)-1]
			return v
		}
		st := (*p).(StructV)
		// field "New" is the last field of sync.Pool
		newFn := st[len(st)-1]
		if _, isNil := newFn.(FuncNil); isNil {
			return IfaceV{}
		}
		return m.callValue(newFn, nil, nil)
	}
	I["(*sync.Pool).Put"] = func(m *Machine, fn *ssa.Function, a []Value) Value {
		p := m.ptrOf(a[0])
		if iv, ok := a[1].(IfaceV); ok && iv.T == nil {
			return nil
		}
		key := fmt.Sprintf("pool%p", p)
		items, _ := m.locals[key].([]Value)
		m.locals[key] = append(items, a[1])
		return nil
	}
	// sync.Map as an association list
	smap := func(m *Machine, recv Value) *MapV {
		p := m.ptrOf(recv)
		key := fmt.Sprintf("syncmap%p", p)
		mp, _ := m.locals[key].(*MapV)
		if mp == nil {
			mp = &MapV{idx: map[string]int{}}
			m.locals[key] = mp
		}
		return mp
	}
	I["(*sync.Map).Load"] = func(m *Machine, fn *ssa.Function, a []Value) Value {
		mp := smap(m, a[0])
		if i := m.mapFind(mp, a[1]); i >= 0 {
			return TupleV{mp.Vals[i], m.ctx.True}
		}
		return TupleV{IfaceV{}, m.ctx.False}
	}
	I["(*sync.Map).Store"] = func(m *Machine, fn *ssa.Function, a []Value) Value {
		m.mapSet(smap(m, a[0]), a[1], a[2])
		return nil
	}
	I["(*sync.Map).LoadOrStore"] = func(m *Machine, fn *ssa.Function, a []Value) Value {
		mp := smap(m, a[0])
		if i := m.mapFind(mp, a[1]); i >= 0 {
			return TupleV{mp.Vals[i], m.ctx.True}
		}
		m.mapSet(mp, a[1], a[2])
		return TupleV{a[2], m.ctx.False}
	}
	I["(*sync.Map).LoadAndDelete"] = func(m *Machine, fn *ssa.Function, a []Value) Value {
		mp := smap(m, a[0])
		if i := m.mapFind(mp, a[1]); i >= 0 {
			v := mp.Vals[i]
			m.mapDelete(mp, a[1])
			return TupleV{v, m.ctx.True}
		}
		return TupleV{IfaceV{}, m.ctx.False}
	}
	I["(*sync.Map).Delete"] = func(m *Machine, fn *ssa.Function, a []Value) Value {
		m.mapDelete(smap(m, a[0]), a[1])
		return nil
	}
	I["(*sync.Map).Range"] = func(m *Machine, fn *ssa.Function, a []Value) Value {
		mp := smap(m, a[0])
		keys := append([]Value{}, mp.Keys...)
		vals := append([]Value{}, mp.Vals...)
		for i := range keys {
			r := m.callValue(a[1], []Value{keys[i], vals[i]}, nil)
			if t, ok := r.(*smt.Term); ok && !m.branch(t) {
				break
			}
		}
		return nil
	}
	I["(*sync.Once).Do"] = func(m *Machine, fn *ssa.Function, a []Value) Value {
		p := m.ptrOf(a[0])
		st := (*p).(StructV)
		// first scalar field used as the done flag
		done := onceFlag(st)
		if done != nil {
			if t, ok := (*done).(*smt.Term); ok && t.IsConst() && t.C != 0 {
				return nil
			}
			*done = m.ctx.BV(1, (*done).(*smt.Term).W)
		}
		m.callValue(a[1], nil, nil)
		return nil
	}

	// ---- sync/atomic (sequential semantics) ----
	ld := func(m *Machine, fn *ssa.Function, a []Value) Value { m.yield(); return copyVal(*m.ptrOf(a[0])) }
	stf := func(m *Machine, fn *ssa.Function, a []Value) Value { m.yield(); storeInto(m.ptrOf(a[0]), a[1]); return nil }
	add := func(m *Machine, fn *ssa.Function, a []Value) Value {
		m.yield()
		p := m.ptrOf(a[0])
		n := m.ctx.Add((*p).(*smt.Term), term(a[1]))
		*p = n
		return n
	}
	swap := func(m *Machine, fn *ssa.Function, a []Value) Value {
		m.yield()
		p := m.ptrOf(a[0])
		old := copyVal(*p)
		storeInto(p, a[1])
		return old
	}
	cas := func(m *Machine, fn *ssa.Function, a []Value) Value {
		m.yield()
		p := m.ptrOf(a[0])
		if m.branch(m.equal(*p, a[1])) {
			storeInto(p, a[2])
			return m.ctx.True
		}
		return m.ctx.False
	}
	for _, t := range []string{"Int32", "Int64", "Uint32", "Uint64", "Uintptr", "Pointer"} {
		I["sync/atomic.Load"+t] = ld
		I["sync/atomic.Store"+t] = stf
		I["sync/atomic.Swap"+t] = swap
		I["sync/atomic.CompareAndSwap"+t] = cas
		if t != "Pointer" {
			I["sync/atomic.Add"+t] = add
		}
	}
	I["sync/atomic.AndInt32"], I["sync/atomic.OrInt32"] = nil, nil
	delete(I, "sync/atomic.AndInt32")
	delete(I, "sync/atomic.OrInt32")
	// atomic.Value: store the interface in the first field cell
	I["(*sync/atomic.Value).Load"] = func(m *Machine, fn *ssa.Function, a []Value) Value {
		st := (*m.ptrOf(a[0])).(StructV)
		if iv, ok := st[0].(IfaceV); ok {
			return iv
		}
		return IfaceV{}
	}
	I["(*sync/atomic.Value).Store"] = func(m *Machine, fn *ssa.Function, a []Value) Value {
		st := (*m.ptrOf(a[0])).(StructV)
		st[0] = a[1]
		return nil
	}

	// ---- bytes / strings on byte terms ----
	I["bytes.Equal"] = func(m *Machine, fn *ssa.Function, a []Value) Value {
		return m.bytesEqual(m.sliceBytes(a[0]), m.sliceBytes(a[1]))
	}
	I["bytes.Compare"] = func(m *Machine, fn *ssa.Function, a []Value) Value {
		return m.bytesCompare(m.sliceBytes(a[0]), m.sliceBytes(a[1]))
	}
	I["strings.Compare"] = func(m *Machine, fn *ssa.Function, a []Value) Value {
		return m.bytesCompare(m.strBytes(a[0]), m.strBytes(a[1]))
	}
	I["internal/bytealg.Compare"] = I["bytes.Compare"]
	I["bytes.IndexByte"] = func(m *Machine, fn *ssa.Function, a []Value) Value {
		return m.indexByte(m.sliceBytes(a[0]), term(a[1]))
	}
	I["strings.IndexByte"] = func(m *Machine, fn *ssa.Function, a []Value) Value {
		return m.indexByte(m.strBytes(a[0]), term(a[1]))
	}
	I["internal/bytealg.IndexByte"] = I["bytes.IndexByte"]
	I["internal/bytealg.IndexByteString"] = I["strings.IndexByte"]
	I["strings.HasPrefix"] = func(m *Machine, fn *ssa.Function, a []Value) Value {
		s, p := m.strBytes(a[0]), m.strBytes(a[1])
		if len(p) > len(s) {
			return m.ctx.False
		}
		return m.bytesEqual(s[:len(p)], p)
	}
	I["strings.HasSuffix"] = func(m *Machine, fn *ssa.Function, a []Value) Value {
		s, p := m.strBytes(a[0]), m.strBytes(a[1])
		if len(p) > len(s) {
			return m.ctx.False
		}
		return m.bytesEqual(s[len(s)-len(p):], p)
	}
	I["bytes.HasPrefix"] = func(m *Machine, fn *ssa.Function, a []Value) Value {
		s, p := m.sliceBytes(a[0]), m.sliceBytes(a[1])
		if len(p) > len(s) {
			return m.ctx.False
		}
		return m.bytesEqual(s[:len(p)], p)
	}

	// ---- math ----
	id := func(m *Machine, fn *ssa.Function, a []Value) Value { return a[0] }
	I["math.Float64bits"], I["math.Float64frombits"], I["math.Float32bits"], I["math.Float32frombits"] = id, id, id, id
	I["math.IsNaN"] = func(m *Machine, fn *ssa.Function, a []Value) Value { return m.ctx.FpIsNaN(term(a[0])) }
	I["math.IsInf"] = func(m *Machine, fn *ssa.Function, a []Value) Value {
		c := m.ctx
		f, sign := term(a[0]), term(a[1])
		pinf := c.Eq(f, c.BV(math.Float64bits(math.Inf(1)), 64))
		ninf := c.Eq(f, c.BV(math.Float64bits(math.Inf(-1)), 64))
		pos := c.Slt(c.BV(0, 64), sign)
		neg := c.Slt(sign, c.BV(0, 64))
		return c.Ite(pos, pinf, c.Ite(neg, ninf, c.Or(pinf, ninf)))
	}
	I["math.Abs"] = func(m *Machine, fn *ssa.Function, a []Value) Value {
		return m.ctx.BvAnd(term(a[0]), m.ctx.BV(^uint64(0)>>1, 64))
	}
	I["math.Signbit"] = func(m *Machine, fn *ssa.Function, a []Value) Value {
		return m.ctx.Eq(m.ctx.Extract(term(a[0]), 63, 63), m.ctx.BV(1, 1))
	}
	I["math.Inf"] = func(m *Machine, fn *ssa.Function, a []Value) Value {
		c := m.ctx
		return c.Ite(c.Sle(c.BV(0, 64), term(a[0])), c.BV(math.Float64bits(math.Inf(1)), 64), c.BV(math.Float64bits(math.Inf(-1)), 64))
	}
	I["math.NaN"] = func(m *Machine, fn *ssa.Function, a []Value) Value { return m.ctx.BV(math.Float64bits(math.NaN()), 64) }
	nativeF1 := func(f func(float64) float64) Intrinsic {
		return func(m *Machine, fn *ssa.Function, a []Value) Value {
			t := term(a[0])
			if !t.IsConst() {
				m.unsupported(fn.String() + " on symbolic float")
			}
			return m.ctx.BV(math.Float64bits(f(math.Float64frombits(t.C))), 64)
		}
	}
	I["math.Floor"], I["math.Ceil"], I["math.Trunc"], I["math.Sqrt"], I["math.Log10"], I["math.Log2"], I["math.Log"], I["math.Round"] =
		nativeF1(math.Floor), nativeF1(math.Ceil), nativeF1(math.Trunc), nativeF1(math.Sqrt), nativeF1(math.Log10), nativeF1(math.Log2), nativeF1(math.Log), nativeF1(math.Round)
	I["math.Pow10"] = func(m *Machine, fn *ssa.Function, a []Value) Value {
		t := term(a[0])
		if !t.IsConst() {
			m.unsupported("math.Pow10 on symbolic exponent")
		}
		return m.ctx.BV(math.Float64bits(math.Pow10(int(t.SignedVal()))), 64)
	}
	I["math.Pow"] = func(m *Machine, fn *ssa.Function, a []Value) Value {
		x, y := term(a[0]), term(a[1])
		if !x.IsConst() || !y.IsConst() {
			m.unsupported("math.Pow on symbolic operands")
		}
		return m.ctx.BV(math.Float64bits(math.Pow(math.Float64frombits(x.C), math.Float64frombits(y.C))), 64)
	}

	// ---- math/bits ----
	I["math/bits.LeadingZeros64"] = func(m *Machine, fn *ssa.Function, a []Value) Value { return m.ctx.LeadingZeros(term(a[0])) }
	I["math/bits.LeadingZeros32"] = func(m *Machine, fn *ssa.Function, a []Value) Value {
		return m.ctx.Zext(m.ctx.LeadingZeros(term(a[0])), 64)
	}
	I["math/bits.TrailingZeros64"] = func(m *Machine, fn *ssa.Function, a []Value) Value { return m.ctx.TrailingZeros(term(a[0])) }
	I["math/bits.TrailingZeros32"] = func(m *Machine, fn *ssa.Function, a []Value) Value {
		return m.ctx.Zext(m.ctx.TrailingZeros(term(a[0])), 64)
	}
	I["math/bits.Len64"] = func(m *Machine, fn *ssa.Function, a []Value) Value {
		return m.ctx.Sub(m.ctx.BV(64, 64), m.ctx.LeadingZeros(term(a[0])))
	}
	I["math/bits.Len32"] = func(m *Machine, fn *ssa.Function, a []Value) Value {
		return m.ctx.Zext(m.ctx.Sub(m.ctx.BV(32, 32), m.ctx.LeadingZeros(term(a[0]))), 64)
	}
	I["math/bits.Len"] = I["math/bits.Len64"]
	I["math/bits.Mul64"] = func(m *Machine, fn *ssa.Function, a []Value) Value {
		x, y := term(a[0]), term(a[1])
		if !x.IsConst() || !y.IsConst() {
			m.unsupported("bits.Mul64 on symbolic operands")
		}
		hi, lo := mul64(x.C, y.C)
		return TupleV{m.ctx.BV(hi, 64), m.ctx.BV(lo, 64)}
	}

	// ---- unsafe-based conversions of the repository (modelled as copying conversions) ----
	const cv = "github.com/apache/skywalking-banyandb/pkg/convert."
	I[cv+"BytesToString"] = func(m *Machine, fn *ssa.Function, a []Value) Value { return normStr(m.sliceBytes(a[0])) }
	I[cv+"StringToBytes"] = func(m *Machine, fn *ssa.Function, a []Value) Value {
		b := m.strBytes(a[0])
		return m.bytesToSlice(append([]*smt.Term{}, b...))
	}
	I["(*strings.Builder).String"] = func(m *Machine, fn *ssa.Function, a []Value) Value {
		st := (*m.ptrOf(a[0])).(StructV)
		return normStr(m.sliceBytes(st[len(st)-1]))
	}
	I["(*strings.Builder).copyCheck"] = nop
	I["strings.Clone"] = id

	// ---- errors / fmt ----
	I["fmt.Errorf"] = func(m *Machine, fn *ssa.Function, a []Value) Value {
		format, _ := concStr(a[0])
		var wrapped Value
		if strings.Contains(format, "%w") {
			for _, e := range a[1].(SliceV).A {
				if iv, ok := e.(IfaceV); ok && iv.T != nil && m.isErrorType(iv.T) {
					wrapped = iv
				}
			}
		}
		return m.newError("fmt.Errorf: "+format, wrapped)
	}
	I["errors.New"] = func(m *Machine, fn *ssa.Function, a []Value) Value {
		s, _ := concStr(a[0])
		return m.newError(s, nil)
	}
	for _, n := range []string{"github.com/pkg/errors.New", "github.com/pkg/errors.Errorf"} {
		I[n] = func(m *Machine, fn *ssa.Function, a []Value) Value {
			s, _ := concStr(a[0])
			return m.newError(s, nil)
		}
	}
	for _, n := range []string{"github.com/pkg/errors.Wrap", "github.com/pkg/errors.Wrapf", "github.com/pkg/errors.WithMessage", "github.com/pkg/errors.WithMessagef", "github.com/pkg/errors.WithStack"} {
		I[n] = func(m *Machine, fn *ssa.Function, a []Value) Value {
			iv, _ := a[0].(IfaceV)
			if iv.T == nil {
				return IfaceV{}
			}
			return m.newError("wrapped", iv)
		}
	}
	I["errors.Is"] = func(m *Machine, fn *ssa.Function, a []Value) Value { return m.errorsIs(a[0], a[1]) }
	I["github.com/pkg/errors.Is"] = I["errors.Is"]
	I["errors.Unwrap"] = func(m *Machine, fn *ssa.Function, a []Value) Value { return m.errUnwrap(a[0]) }
	I["github.com/pkg/errors.Cause"] = func(m *Machine, fn *ssa.Function, a []Value) Value {
		cur := a[0]
		for i := 0; i < 32; i++ {
			n := m.errUnwrap(cur)
			if iv, _ := n.(IfaceV); iv.T == nil {
				return cur
			}
			cur = n
		}
		return cur
	}
	I["go.uber.org/multierr.Append"] = func(m *Machine, fn *ssa.Function, a []Value) Value {
		l, _ := a[0].(IfaceV)
		r, _ := a[1].(IfaceV)
		if l.T == nil {
			return r
		}
		if r.T == nil {
			return l
		}
		return m.newError("multierr", l)
	}
	I["go.uber.org/multierr.Combine"] = func(m *Machine, fn *ssa.Function, a []Value) Value {
		var first Value = IfaceV{}
		n := 0
		for _, e := range a[0].(SliceV).A {
			if iv, ok := e.(IfaceV); ok && iv.T != nil {
				if n == 0 {
					first = iv
				}
				n++
			}
		}
		if n <= 1 {
			return first
		}
		return m.newError("multierr", first)
	}
	// ---- zstd: opaque. Decompress of untrusted bytes returns an arbitrary short result or an error;
	// Compress is outside every harness bound (inputs < 128 bytes take the plain path).
	const zs = "github.com/apache/skywalking-banyandb/pkg/compress/zstd."
	I[zs+"Compress"] = func(m *Machine, fn *ssa.Function, a []Value) Value {
		m.unsupported("zstd.Compress (inputs >= 128 bytes are outside the harness bounds)")
		return nil
	}
	I[zs+"Decompress"] = func(m *Machine, fn *ssa.Function, a []Value) Value {
		fail := m.nondet("aux:zstd_err", 1)
		if m.branch(m.ctx.Eq(fail, m.ctx.BV(1, 1))) {
			return TupleV{SliceV{Nil: true}, m.newError("zstd: invalid input", nil)}
		}
		n := m.nondet("aux:zstd_len", 8)
		m.assume(m.ctx.Ule(n, m.ctx.BV(2, 8)))
		k := int(m.concretize(n, 4, "zstd output length"))
		dst := a[0].(SliceV)
		out := append([]Value{}, dst.A...)
		for i := 0; i < k; i++ {
			out = append(out, m.nondet("aux:zstd_byte", 8))
		}
		return TupleV{SliceV{A: out}, IfaceV{}}
	}
	I["fmt.Sprintf"] = func(m *Machine, fn *ssa.Function, a []Value) Value { return m.sprintf(a[0], a[1]) }
	I["fmt.Sprint"] = func(m *Machine, fn *ssa.Function, a []Value) Value { return m.sprintf("%v", a[0]) }
	I["fmt.Println"], I["fmt.Printf"], I["fmt.Print"], I["fmt.Fprintf"], I["fmt.Fprintln"] = zeroRes, zeroRes, zeroRes, zeroRes, zeroRes
	I["runtime/debug.Stack"] = func(m *Machine, fn *ssa.Function, a []Value) Value { return SliceV{Nil: true} }
	I["runtime.Caller"] = zeroRes
	I["runtime.Callers"] = zeroRes
	// ---- hashes as uninterpreted functions of (length, bytes): results hold for every hash function ----
	ufBytes := func(name string, w int) func(m *Machine, b []*smt.Term) *smt.Term {
		return func(m *Machine, b []*smt.Term) *smt.Term {
			allConst := true
			for _, t := range b {
				if !t.IsConst() {
					allConst = false
				}
			}
			_ = allConst
			if len(b) == 0 {
				return m.ctx.UF(fmt.Sprintf("uf_%s_0", name), w, m.ctx.BV(0, 8))
			}
			return m.ctx.UF(fmt.Sprintf("uf_%s_%d", name, len(b)), w, b...)
		}
	}
	xx := ufBytes("xxhash", 64)
	I["github.com/cespare/xxhash/v2.Sum64"] = func(m *Machine, fn *ssa.Function, a []Value) Value { return xx(m, m.sliceBytes(a[0])) }
	I["github.com/cespare/xxhash/v2.Sum64String"] = func(m *Machine, fn *ssa.Function, a []Value) Value { return xx(m, m.strBytes(a[0])) }
	crc := ufBytes("crc32", 32)
	I["hash/crc32.ChecksumIEEE"] = func(m *Machine, fn *ssa.Function, a []Value) Value { return crc(m, m.sliceBytes(a[0])) }
	timeIntrinsics(I)
	joinPaths := func(m *Machine, fn *ssa.Function, a []Value) Value {
		var parts []string
		for _, e := range a[0].(SliceV).A {
			s, ok := concStr(e)
			if !ok {
				s = "<sym>"
			}
			parts = append(parts, s)
		}
		return strings.Join(parts, "/")
	}
	I["path.Join"], I["path/filepath.Join"] = joinPaths, joinPaths
	pathFn := func(f func(string) string) Intrinsic {
		return func(m *Machine, fn *ssa.Function, a []Value) Value {
			s, ok := concStr(a[0])
			if !ok {
				m.unsupported(fn.String() + " of a symbolic path")
			}
			return f(s)
		}
	}
	I["path/filepath.Base"], I["path.Base"] = pathFn(filepath.Base), pathFn(filepath.Base)
	I["path/filepath.Dir"], I["path.Dir"] = pathFn(filepath.Dir), pathFn(filepath.Dir)
	I["path/filepath.Ext"], I["path.Ext"] = pathFn(filepath.Ext), pathFn(filepath.Ext)
	I["path/filepath.Clean"], I["path.Clean"] = pathFn(filepath.Clean), pathFn(filepath.Clean)
	I["path/filepath.Rel"] = func(m *Machine, fn *ssa.Function, a []Value) Value {
		base, ok1 := concStr(a[0])
		targ, ok2 := concStr(a[1])
		if !ok1 || !ok2 {
			m.unsupported("filepath.Rel of a symbolic path")
		}
		r, err := filepath.Rel(base, targ)
		if err != nil {
			return TupleV{"", m.newError(err.Error(), nil)}
		}
		return TupleV{r, IfaceV{}}
	}
	I["encoding/json.Marshal"] = func(m *Machine, fn *ssa.Function, a []Value) Value {
		// a concrete []string is marshalled for real (part-name manifests); anything else is opaque
		if iv, ok := a[0].(IfaceV); ok {
			if sl, ok := iv.V.(SliceV); ok {
				strs := make([]string, 0, len(sl.A))
				all := true
				for _, e := range sl.A {
					s, isStr := concStr(e)
					if _, isString := e.(string); !isString {
						if _, isSym := e.(SymStr); !isSym {
							all = false
							break
						}
					}
					if !isStr {
						all = false
						break
					}
					strs = append(strs, s)
				}
				if all {
					if b, err := json.Marshal(strs); err == nil {
						out := make([]Value, len(b))
						for i, c := range b {
							out[i] = m.ctx.BV(uint64(c), 8)
						}
						return TupleV{SliceV{A: out}, IfaceV{}}
					}
				}
			}
		}
		return TupleV{SliceV{A: []Value{m.ctx.BV('{', 8), m.ctx.BV('}', 8)}}, IfaceV{}}
	}
	I["strconv.Itoa"] = func(m *Machine, fn *ssa.Function, a []Value) Value {
		t := term(a[0])
		if !t.IsConst() {
			return "<itoa>"
		}
		return fmt.Sprint(t.SignedVal())
	}
	I["strconv.FormatInt"] = I["strconv.Itoa"]
	I["strconv.Atoi"] = func(m *Machine, fn *ssa.Function, a []Value) Value {
		s, ok := concStr(a[0])
		if !ok {
			m.unsupported("strconv.Atoi of a symbolic string")
		}
		var v int64
		if _, err := fmt.Sscanf(s, "%d", &v); err != nil || fmt.Sprint(v) != s {
			return TupleV{m.ctx.BV(0, 64), m.newError("strconv.Atoi: invalid syntax", nil)}
		}
		return TupleV{m.ctx.BV(uint64(v), 64), IfaceV{}}
	}
	// strings functions over concrete strings run natively (symbolic strings take the SSA bodies)
	strSlice := func(parts []string) Value {
		out := make([]Value, len(parts))
		for i, p := range parts {
			out[i] = p
		}
		return SliceV{A: out}
	}
	concOr := func(name string, f func(m *Machine, s []string, a []Value) Value, nstr int) {
		prev := I[name]
		I[name] = func(m *Machine, fn *ssa.Function, a []Value) Value {
			ss := make([]string, nstr)
			for i := 0; i < nstr; i++ {
				s, ok := concStr(a[i])
				if !ok {
					if prev != nil {
						return prev(m, fn, a)
					}
					return m.runFunction(fn, a, nil)
				}
				ss[i] = s
			}
			return f(m, ss, a)
		}
	}
	concOr("strings.Split", func(m *Machine, s []string, a []Value) Value { return strSlice(strings.Split(s[0], s[1])) }, 2)
	concOr("strings.SplitN", func(m *Machine, s []string, a []Value) Value {
		return strSlice(strings.SplitN(s[0], s[1], m.concInt(a[2], "SplitN n")))
	}, 2)
	concOr("strings.Count", func(m *Machine, s []string, a []Value) Value {
		return m.ctx.BV(uint64(strings.Count(s[0], s[1])), 64)
	}, 2)
	concOr("strings.Index", func(m *Machine, s []string, a []Value) Value {
		return m.ctx.BV(uint64(int64(strings.Index(s[0], s[1]))), 64)
	}, 2)
	concOr("strings.Contains", func(m *Machine, s []string, a []Value) Value { return m.ctx.Bool(strings.Contains(s[0], s[1])) }, 2)
	concOr("strings.TrimSpace", func(m *Machine, s []string, a []Value) Value { return strings.TrimSpace(s[0]) }, 1)
	concOr("strings.ToUpper", func(m *Machine, s []string, a []Value) Value { return strings.ToUpper(s[0]) }, 1)
	concOr("strings.ToLower", func(m *Machine, s []string, a []Value) Value { return strings.ToLower(s[0]) }, 1)
	concOr("strings.EqualFold", func(m *Machine, s []string, a []Value) Value { return m.ctx.Bool(strings.EqualFold(s[0], s[1])) }, 2)
	// sort.Slice / sort.SliceStable go through reflect's swapper; modelled as an insertion sort that
	// calls the real less closure (one admissible behaviour of the unstable sort: ties keep order).
	I["sort.Slice"] = func(m *Machine, fn *ssa.Function, a []Value) Value {
		iv, ok := a[0].(IfaceV)
		if !ok {
			m.unsupported("sort.Slice of a non-interface value")
		}
		sl, ok := iv.V.(SliceV)
		if !ok {
			m.unsupported("sort.Slice of a non-slice")
		}
		for i := 1; i < len(sl.A); i++ {
			for j := i; j > 0; j-- {
				r := m.callValue(a[1], []Value{m.ctx.BV(uint64(j), 64), m.ctx.BV(uint64(j-1), 64)}, nil)
				if !m.branch(term(r)) {
					break
				}
				sl.A[j], sl.A[j-1] = sl.A[j-1], sl.A[j]
			}
		}
		return nil
	}
	I["sort.SliceStable"] = I["sort.Slice"]
	I["strconv.ParseUint"] = func(m *Machine, fn *ssa.Function, a []Value) Value {
		s, ok := concStr(a[0])
		if !ok {
			m.unsupported("strconv.ParseUint of a symbolic string")
		}
		base := int(m.concInt(a[1], "ParseUint base"))
		bits := int(m.concInt(a[2], "ParseUint bitSize"))
		v, err := strconv.ParseUint(s, base, bits)
		if err != nil {
			return TupleV{m.ctx.BV(v, 64), m.newError(err.Error(), nil)}
		}
		return TupleV{m.ctx.BV(v, 64), IfaceV{}}
	}
	I["strconv.ParseInt"] = func(m *Machine, fn *ssa.Function, a []Value) Value {
		s, ok := concStr(a[0])
		if !ok {
			m.unsupported("strconv.ParseInt of a symbolic string")
		}
		base := int(m.concInt(a[1], "ParseInt base"))
		bits := int(m.concInt(a[2], "ParseInt bitSize"))
		v, err := strconv.ParseInt(s, base, bits)
		if err != nil {
			return TupleV{m.ctx.BV(uint64(v), 64), m.newError(err.Error(), nil)}
		}
		return TupleV{m.ctx.BV(uint64(v), 64), IfaceV{}}
	}
	I["context.Background"] = func(m *Machine, fn *ssa.Function, a []Value) Value { return m.ctxValue(nil, nil, nil) }
	I["context.TODO"] = I["context.Background"]
	I["context.WithValue"] = func(m *Machine, fn *ssa.Function, a []Value) Value { return m.ctxValue(a[0], a[1], a[2]) }
	I["context.WithCancel"] = func(m *Machine, fn *ssa.Function, a []Value) Value {
		return TupleV{a[0], m.noopCancel()}
	}
	I["context.WithTimeout"] = func(m *Machine, fn *ssa.Function, a []Value) Value { return TupleV{a[0], m.noopCancel()} }
	I["context.WithDeadline"] = I["context.WithTimeout"]
	I["internal/bytealg.MakeNoZero"] = func(m *Machine, fn *ssa.Function, a []Value) Value {
		n := m.concInt(a[0], "MakeNoZero")
		s := make([]Value, n)
		for i := range s {
			s[i] = m.ctx.BV(0, 8)
		}
		return SliceV{A: s}
	}
	I["internal/bytealg.Equal"] = I["bytes.Equal"]
	I["internal/bytealg.Count"] = func(m *Machine, fn *ssa.Function, a []Value) Value {
		b, c := m.sliceBytes(a[0]), term(a[1])
		r := m.ctx.BV(0, 64)
		for _, x := range b {
			r = m.ctx.Add(r, m.ctx.Ite(m.ctx.Eq(x, c), m.ctx.BV(1, 64), m.ctx.BV(0, 64)))
		}
		return r
	}
	four := func(m *Machine, fn *ssa.Function, a []Value) Value { return m.ctx.BV(4, 64) }
	I["github.com/apache/skywalking-banyandb/pkg/cgroups.CPUs"], I["runtime.NumCPU"], I["runtime.GOMAXPROCS"] = four, four, four
	I["os.Getenv"] = func(m *Machine, fn *ssa.Function, a []Value) Value { return "" }
	I["os.LookupEnv"] = func(m *Machine, fn *ssa.Function, a []Value) Value { return TupleV{"", m.ctx.False} }
	return I
}

func zeroRes(m *Machine, fn *ssa.Function, a []Value) Value {
	rt := resultType(fn)
	if rt == nil {
		return nil
	}
	return m.zero(rt)
}

func onceFlag(st StructV) *Value {
	for i := range st {
		switch f := st[i].(type) {
		case *smt.Term:
			return &st[i]
		case StructV:
			if r := onceFlag(f); r != nil {
				return r
			}
		}
	}
	return nil
}

func mul64(x, y uint64) (hi, lo uint64) {
	const mask32 = 1<<32 - 1
	x0 := x & mask32
	x1 := x >> 32
	y0 := y & mask32
	y1 := y >> 32
	w0 := x0 * y0
	t := x1*y0 + w0>>32
	w1 := t & mask32
	w2 := t >> 32
	w1 += x0 * y1
	hi = x1*y1 + w2 + w1>>32
	lo = x * y
	return
}

func (m *Machine) indexByte(b []*smt.Term, c *smt.Term) *smt.Term {
	res := m.ctx.BV(^uint64(0), 64)
	for i := len(b) - 1; i >= 0; i-- {
		res = m.ctx.Ite(m.ctx.Eq(b[i], c), m.ctx.BV(uint64(i), 64), res)
	}
	return res
}

// ---- error values: *errors.errorString for leaves, *fmt.wrapError for wrappers ----

func (m *Machine) errType(pkg, name string) types.Type {
	p := m.E.Prog.ImportedPackage(pkg)
	if p == nil {
		m.unsupported("package " + pkg + " not loaded (needed for error values)")
	}
	t := p.Type(name)
	if t == nil {
		m.unsupported("type " + pkg + "." + name + " not found")
	}
	return types.NewPointer(t.Type())
}

func (m *Machine) newError(msg string, wrapped Value) Value {
	c := new(Value)
	if wrapped == nil {
		*c = StructV{msg}
		return IfaceV{T: m.errType("errors", "errorString"), V: Ptr{c}}
	}
	*c = StructV{msg, wrapped}
	return IfaceV{T: m.errType("fmt", "wrapError"), V: Ptr{c}}
}

func (m *Machine) isErrorType(t types.Type) bool {
	ms := m.E.Prog.MethodSets.MethodSet(t)
	return ms.Lookup(nil, "Error") != nil
}

func (m *Machine) errUnwrap(e Value) Value {
	iv, _ := e.(IfaceV)
	if iv.T == nil {
		return IfaceV{}
	}
	if n := namedOf(iv.T); n != nil && n.Obj().Name() == "wrapError" && n.Obj().Pkg().Path() == "fmt" {
		st := (*m.ptrOf(iv.V)).(StructV)
		return st[1]
	}
	if f := m.exportedMethod(iv.T, "Unwrap"); f != nil && f.Signature.Results().Len() == 1 {
		if _, isIface := f.Signature.Results().At(0).Type().Underlying().(*types.Interface); isIface {
			return m.callFn(f, []Value{iv.V}, nil)
		}
	}
	return IfaceV{}
}

// exportedMethod finds an exported method of a dynamic type (nil when it has none).
func (m *Machine) exportedMethod(t types.Type, name string) *ssa.Function {
	sel := m.E.Prog.MethodSets.MethodSet(t).Lookup(nil, name)
	if sel == nil {
		return nil
	}
	return m.E.Prog.MethodValue(sel)
}

func (m *Machine) errorsIs(e, target Value) *smt.Term {
	cur := e
	for i := 0; i < 32; i++ {
		iv, _ := cur.(IfaceV)
		if iv.T == nil {
			tv, _ := target.(IfaceV)
			return m.ctx.Bool(tv.T == nil && i == 0)
		}
		tv, _ := target.(IfaceV)
		if tv.T != nil && types.Identical(iv.T, tv.T) {
			if types.Comparable(iv.T) {
				eq := m.equal(iv.V, tv.V)
				if m.branch(eq) {
					return m.ctx.True
				}
			}
		}
		// an error may declare itself equivalent to a target: func (e T) Is(target error) bool
		if f := m.exportedMethod(iv.T, "Is"); f != nil && f.Signature.Params().Len() == 1 && f.Signature.Results().Len() == 1 {
			if r, ok := m.callFn(f, []Value{iv.V, target}, nil).(*smt.Term); ok && m.branch(r) {
				return m.ctx.True
			}
		}
		cur = m.errUnwrap(cur)
	}
	return m.ctx.False
}

// sprintf: concrete formatting for the few verbs used on paths/names; symbolic operands give an
// opaque but deterministic string (content never inspected by supported code).
func (m *Machine) sprintf(format Value, args Value) Value {
	f, ok := concStr(format)
	if !ok {
		return "<fmt>"
	}
	var goArgs []interface{}
	sl, _ := args.(SliceV)
	for _, e := range sl.A {
		v := e
		if iv, ok := e.(IfaceV); ok {
			v = iv.V
			if iv.T != nil {
				if w, signed, fl, ok := typeWidth(iv.T); ok {
					if t, ok := v.(*smt.Term); ok && t.IsConst() {
						switch {
						case w == 0:
							goArgs = append(goArgs, t.C == 1)
						case fl:
							goArgs = append(goArgs, math.Float64frombits(t.C))
						case signed:
							goArgs = append(goArgs, t.SignedVal())
						default:
							goArgs = append(goArgs, t.C)
						}
						continue
					}
					return "<fmt:" + f + ">"
				}
			}
		}
		if s, ok := concStr(v); ok {
			goArgs = append(goArgs, s)
			continue
		}
		return "<fmt:" + f + ">"
	}
	return fmt.Sprintf(f, goArgs...)
}
