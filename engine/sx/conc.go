package sx

import (
	"fmt"
	"runtime"

	"golang.org/x/tools/go/ssa"

	"verif/engine/smt"
)

// Interleavings. `zzverif.Par(f1, …, fn)` runs the bodies as logical threads of the executor.
// A thread runs until its next *visible operation* — an atomic load/store/add/CAS/swap, or a
// mutex/rwmutex operation — where the scheduler may switch to any other runnable thread. The
// choice is a fork of the exploration (recorded in the path's decision trace, so every schedule
// within the bound is explored, each with symbolic data), mutexes block, and a state in which no
// thread can run while some are unfinished is reported as a deadlock. Sequential consistency
// is assumed for the visible operations; plain (non-atomic) accesses are not scheduling points,
// i.e. the harness relies on them being protected by the locks the code takes.
//
// Each logical thread is a goroutine of the engine, but only one ever runs at a time (baton
// passing), so the Machine needs no locking.

type thread struct {
	id      int
	fn      Value
	stack   []*frame
	resume  chan struct{}
	out     chan threadMsg
	done    bool
	blocked func() bool // non-nil: runnable only when it returns false
}

type threadMsg struct {
	kind string // yield | done | panic
	val  interface{}
}

type concState struct {
	threads []*thread
	cur     *thread
	kill    chan struct{}
	sched   []uint64 // decisions taken (for reporting)

	last        *thread // thread that ran the previous step
	preemptions int
}

// chooseFree forks over n alternatives that are all possible regardless of data (schedule
// choices). In concrete mode the decisions come from Machine.schedVector.
func (m *Machine) chooseFree(n int) int {
	if n <= 1 {
		return 0
	}
	if m.sol == nil {
		k := 0
		if m.schedPos < len(m.schedVector) {
			k = int(m.schedVector[m.schedPos])
		}
		m.schedPos++
		if k >= n {
			k = 0
		}
		m.schedTrace = append(m.schedTrace, uint64(k))
		return k
	}
	d := len(m.trace)
	if d < len(m.prefix) {
		k := int(m.prefix[d])
		m.trace = append(m.trace, uint64(k))
		m.schedTrace = append(m.schedTrace, uint64(k))
		return k
	}
	if d >= m.Cfg.MaxDepth {
		m.abort("bound", fmt.Sprintf("decision depth %d exceeded", m.Cfg.MaxDepth))
	}
	for k := 1; k < n; k++ {
		w := make([]uint64, d+1)
		copy(w, m.trace)
		w[d] = uint64(k)
		m.work = append(m.work, w)
	}
	m.trace = append(m.trace, 0)
	m.schedTrace = append(m.schedTrace, 0)
	return 0
}

// yield is called before every visible operation.
func (m *Machine) yield() {
	cs := m.conc
	if cs == nil || cs.cur == nil {
		return
	}
	t := cs.cur
	t.stack = m.stack
	t.out <- threadMsg{kind: "yield"}
	m.park(t)
}

// blockUntil parks the current thread until cond() is false (mutex acquisition).
func (m *Machine) blockUntil(blocked func() bool) {
	cs := m.conc
	if cs == nil || cs.cur == nil {
		if blocked() {
			m.abort("infeasible", "self-deadlock: lock already held in sequential mode")
		}
		return
	}
	for blocked() {
		t := cs.cur
		t.blocked = blocked
		t.stack = m.stack
		t.out <- threadMsg{kind: "yield"}
		m.park(t)
		t.blocked = nil
	}
}

func (m *Machine) park(t *thread) {
	select {
	case <-t.resume:
		m.stack = t.stack
	case <-m.conc.kill:
		runtime.Goexit()
	}
}

func (m *Machine) killThreads() {
	if m.conc != nil && m.conc.kill != nil {
		close(m.conc.kill)
		m.conc = nil
	}
}

// par implements zzverif.Par.
func (m *Machine) par(fns []Value) {
	if m.conc != nil && m.conc.cur != nil {
		m.unsupported("nested zzverif.Par")
	}
	cs := &concState{kill: make(chan struct{})}
	m.conc = cs
	parentStack := m.stack
	for i, f := range fns {
		t := &thread{id: i, fn: f, resume: make(chan struct{}), out: make(chan threadMsg)}
		cs.threads = append(cs.threads, t)
		go func(t *thread) {
			select {
			case <-t.resume:
			case <-cs.kill:
				return
			}
			defer func() {
				if r := recover(); r != nil {
					t.done = true
					select {
					case t.out <- threadMsg{kind: "panic", val: r}:
					case <-cs.kill:
					}
				}
			}()
			m.stack = append([]*frame{}, parentStack...)
			m.callValue(t.fn, nil, nil)
			t.done = true
			t.stack = nil
			select {
			case t.out <- threadMsg{kind: "done"}:
			case <-cs.kill:
			}
		}(t)
	}
	for {
		var runnable []*thread
		unfinished := 0
		for _, t := range cs.threads {
			if t.done {
				continue
			}
			unfinished++
			if t.blocked != nil && t.blocked() {
				continue
			}
			runnable = append(runnable, t)
		}
		if unfinished == 0 {
			break
		}
		if len(runnable) == 0 {
			cs.cur = nil
			m.stack = parentStack
			panic(goPanic{V: "deadlock", Desc: "deadlock: every unfinished thread waits for a lock", Site: m.pos()})
		}
		// Preemption bound (Cfg.Preempt >= 0): switching away from a thread that could have
		// continued is a preemption; once the budget is spent the running thread keeps the
		// processor until it blocks or finishes. Switches at blocking points are free.
		lastIdx := -1
		for i, t := range runnable {
			if t == cs.last {
				lastIdx = i
			}
		}
		var t *thread
		if m.Cfg.Preempt >= 0 && lastIdx >= 0 && cs.preemptions >= m.Cfg.Preempt {
			t = runnable[lastIdx]
		} else {
			k := m.chooseFree(len(runnable))
			t = runnable[k]
			if lastIdx >= 0 && k != lastIdx {
				cs.preemptions++
			}
		}
		cs.last = t
		cs.cur = t
		t.resume <- struct{}{}
		msg := <-t.out
		cs.cur = nil
		m.stack = parentStack
		if msg.kind == "panic" {
			panic(msg.val)
		}
	}
	cs.cur = nil
	m.stack = parentStack
	m.killThreads()
}

// ---- lock model: the lock word(s) live in the first scalar cells of the sync struct ----

func lockCells(st StructV, out *[]*Value) {
	for i := range st {
		switch f := st[i].(type) {
		case *smt.Term:
			*out = append(*out, &st[i])
		case StructV:
			lockCells(f, out)
		}
	}
}

func (m *Machine) mutexCells(recv Value, need int) []*Value {
	p := m.ptrOf(recv)
	st, ok := (*p).(StructV)
	if !ok {
		m.unsupported("lock operation on a non-struct value")
	}
	var cells []*Value
	lockCells(st, &cells)
	if len(cells) < need {
		m.unsupported("lock struct has too few scalar fields for the lock model")
	}
	return cells
}

func isZeroCell(c *Value) bool {
	t, ok := (*c).(*smt.Term)
	return ok && t.IsConst() && t.C == 0
}

func concIntrinsics(I map[string]Intrinsic) {
	I[zz+"Par"] = func(m *Machine, fn *ssa.Function, a []Value) Value {
		var fns []Value
		for _, e := range a[0].(SliceV).A {
			fns = append(fns, e)
		}
		m.par(fns)
		return nil
	}
	I[zz+"Yield"] = func(m *Machine, fn *ssa.Function, a []Value) Value { m.yield(); return nil }
	I["(*sync.Mutex).Lock"] = func(m *Machine, fn *ssa.Function, a []Value) Value {
		w := m.mutexCells(a[0], 1)[0]
		m.yield()
		m.blockUntil(func() bool { return !isZeroCell(w) })
		*w = m.ctx.BV(1, (*w).(*smt.Term).W)
		return nil
	}
	I["(*sync.Mutex).Unlock"] = func(m *Machine, fn *ssa.Function, a []Value) Value {
		w := m.mutexCells(a[0], 1)[0]
		m.yield()
		if isZeroCell(w) {
			m.goPanic("sync: unlock of unlocked mutex")
		}
		*w = m.ctx.BV(0, (*w).(*smt.Term).W)
		return nil
	}
	I["(*sync.Mutex).TryLock"] = func(m *Machine, fn *ssa.Function, a []Value) Value {
		w := m.mutexCells(a[0], 1)[0]
		m.yield()
		if !isZeroCell(w) {
			return m.ctx.False
		}
		*w = m.ctx.BV(1, (*w).(*smt.Term).W)
		return m.ctx.True
	}
	// RWMutex: cell 0 = writer flag, cell 1 = reader count
	I["(*sync.RWMutex).Lock"] = func(m *Machine, fn *ssa.Function, a []Value) Value {
		c := m.mutexCells(a[0], 2)
		m.yield()
		m.blockUntil(func() bool { return !isZeroCell(c[0]) || !isZeroCell(c[1]) })
		*c[0] = m.ctx.BV(1, (*c[0]).(*smt.Term).W)
		return nil
	}
	I["(*sync.RWMutex).Unlock"] = func(m *Machine, fn *ssa.Function, a []Value) Value {
		c := m.mutexCells(a[0], 2)
		m.yield()
		if isZeroCell(c[0]) {
			m.goPanic("sync: Unlock of unlocked RWMutex")
		}
		*c[0] = m.ctx.BV(0, (*c[0]).(*smt.Term).W)
		return nil
	}
	I["(*sync.RWMutex).RLock"] = func(m *Machine, fn *ssa.Function, a []Value) Value {
		c := m.mutexCells(a[0], 2)
		m.yield()
		m.blockUntil(func() bool { return !isZeroCell(c[0]) })
		t := (*c[1]).(*smt.Term)
		*c[1] = m.ctx.Add(t, m.ctx.BV(1, t.W))
		return nil
	}
	I["(*sync.RWMutex).RUnlock"] = func(m *Machine, fn *ssa.Function, a []Value) Value {
		c := m.mutexCells(a[0], 2)
		m.yield()
		if isZeroCell(c[1]) {
			m.goPanic("sync: RUnlock of unlocked RWMutex")
		}
		t := (*c[1]).(*smt.Term)
		*c[1] = m.ctx.Sub(t, m.ctx.BV(1, t.W))
		return nil
	}
}
