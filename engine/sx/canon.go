package sx

import "verif/engine/smt"

// canon replaces a value that was re-assembled from the low bits of X plus constant/sign-fill
// high bits by X itself when the path condition implies they are equal (one cheap solver query,
// cached per term). Sound by construction: the substitution is only made after `unsat`.
// It keeps decode(encode(x)) chains (varint + zig-zag) syntactically equal to x, so that the
// arithmetic identities around them are decided by rewriting instead of bit-blasted adders.
func (m *Machine) canon(t *smt.Term) *smt.Term {
	if m.sol == nil || t.IsConst() || t.W < 16 {
		return t
	}
	x := m.ctx.LowBase(t)
	if x == nil {
		return t
	}
	if m.canonCache == nil {
		m.canonCache = map[int]*smt.Term{}
	}
	if r, ok := m.canonCache[t.ID]; ok {
		return r
	}
	res := t
	if m.check(m.ctx.Not(m.ctx.Eq(t, x))) == smt.Unsat {
		res = x
	}
	m.canonCache[t.ID] = res
	return res
}
