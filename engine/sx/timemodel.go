package sx

import (
	"fmt"
	"time"

	"golang.org/x/tools/go/ssa"

	"verif/engine/smt"
)

// Time model. A time.Time value keeps its real struct shape {wall, ext, loc} but is encoded as
//   wall = 1 (marker: "ext holds Unix nanoseconds, UTC"), ext = Unix nanoseconds, loc = nil
// and the zero Time stays {0,0,nil}. Every method of time.Time that the code under test uses is
// an intrinsic over that encoding; anything else on a Time aborts the path as unsupported.
// Calendar: UTC only. t.Year()/Month()/Day()/Hour() return tagged placeholders that are only
// meaningful as arguments of time.Date, where three patterns are recognised:
//   Date(Y(t),M(t),D(t),H(t)|0,0,0,0,loc)  = t floored to the hour | day
//   Date(1970,1,1+n,h,0,0,0,loc)           = n days + h hours after the epoch
//   Date(constants…)                       = evaluated natively
// Native replays run with TZ=UTC.

const (
	nsPerHour = uint64(3600) * 1e9
	nsPerDay  = uint64(86400) * 1e9
)

func (m *Machine) mkTime(ns *smt.Term) Value {
	return StructV{m.ctx.BV(1, 64), ns, Ptr{}}
}

func (m *Machine) timeParts(v Value) (wall, ext *smt.Term) {
	st, ok := v.(StructV)
	if !ok || len(st) != 3 {
		m.unsupported(fmt.Sprintf("time value of shape %T", v))
	}
	return st[0].(*smt.Term), st[1].(*smt.Term)
}

// timeNS returns the Unix-nanosecond term of a non-zero modelled time.
func (m *Machine) timeNS(v Value) *smt.Term {
	wall, ext := m.timeParts(v)
	if wall.IsConst() && wall.C == 0 {
		m.unsupported("arithmetic on the zero time.Time")
	}
	return ext
}

// timeKey orders times, the zero Time (year 1) before everything.
func (m *Machine) timeKey(v Value) *smt.Term {
	wall, ext := m.timeParts(v)
	c := m.ctx
	return c.Ite(c.Eq(wall, c.BV(0, 64)), c.BV(uint64(1)<<63, 64), ext)
}

func (m *Machine) recvTime(a Value) Value {
	if p, ok := a.(Ptr); ok {
		return *m.ptrOf(p)
	}
	return a
}

func (m *Machine) calTag(kind string, ns *smt.Term) *smt.Term {
	return m.ctx.UF("cal_"+kind, 64, ns)
}

func calArg(t *smt.Term, kind string) *smt.Term {
	if t.Op == "uf" && t.Name == "cal_"+kind && len(t.Args) == 1 {
		return t.Args[0]
	}
	return nil
}

// floorTo(ns, unit) for 0 <= ns < 2^62. A 64-bit bvurem by a constant is not decided in
// reasonable time when it occurs more than once in a query, so the quotient is a fresh variable q
// with the defining constraints  ns = q*unit + r,  0 <= r < unit,  q < 2^62/unit  (q and r are
// uniquely determined by ns, so nothing is assumed beyond the range of ns). Equal arguments share q.
func (m *Machine) floorTo(ns *smt.Term, unit uint64) *smt.Term {
	c := m.ctx
	if ns.IsConst() {
		if int64(ns.C) < 0 {
			m.unsupported("calendar model: time before 1970")
		}
		return c.BV(ns.C-ns.C%unit, 64)
	}
	if m.branch(c.Slt(ns, c.BV(0, 64))) {
		m.unsupported("calendar model: time before 1970")
	}
	if m.branch(c.Sle(c.BV(uint64(1)<<62, 64), ns)) {
		m.unsupported("calendar model: time beyond 2^62 ns")
	}
	if m.sol == nil {
		return c.Sub(ns, c.Urem(ns, c.BV(unit, 64)))
	}
	key := fmt.Sprintf("%d/%d", ns.ID, unit)
	if m.floorCache == nil {
		m.floorCache = map[string]*smt.Term{}
	}
	if r, ok := m.floorCache[key]; ok {
		return r
	}
	if m.isMultiple(ns, unit) {
		return ns
	}
	// The floor is a fresh variable fl with  ns = fl + r, 0 <= r < unit,  plus the lattice facts
	// that make it "a multiple of unit" relative to every other known multiple: two multiples of
	// g are equal or at least g apart. (All true of the real floor; no multiplication or
	// division reaches the solver.)
	m.nameSeq++
	fl := c.Var(fmt.Sprintf("auxfloor%d", m.nameSeq), 64)
	r := c.Var(fmt.Sprintf("auxrem%d", m.nameSeq), 64)
	m.auxVars = append(m.auxVars, fl, r)
	m.assume(c.Ult(r, c.BV(unit, 64)))
	m.assume(c.Ule(fl, ns))
	m.assume(c.Eq(ns, c.Add(fl, r)))
	for _, o := range m.multiples {
		g := gcd64(o.unit, unit)
		gt := c.BV(g, 64)
		m.assume(c.Or(c.Eq(fl, o.t), c.Or(c.Ule(c.Add(fl, gt), o.t), c.Ule(c.Add(o.t, gt), fl))))
	}
	m.multiples = append(m.multiples, multipleOf{fl, unit})
	m.floorCache[key] = fl
	return fl
}

type multipleOf struct {
	t    *smt.Term
	unit uint64
}

func gcd64(a, b uint64) uint64 {
	for b != 0 {
		a, b = b, a%b
	}
	return a
}

// isMultiple: t is syntactically known to be a multiple of unit.
func (m *Machine) isMultiple(t *smt.Term, unit uint64) bool {
	if t.IsConst() {
		return t.C%unit == 0
	}
	for _, o := range m.multiples {
		if o.t == t && o.unit%unit == 0 {
			return true
		}
	}
	switch t.Op {
	case "bvadd", "bvsub":
		return m.isMultiple(t.Args[0], unit) && m.isMultiple(t.Args[1], unit)
	case "bvmul":
		for _, a := range t.Args {
			if a.IsConst() && a.C%unit == 0 {
				return true
			}
		}
	}
	return false
}

func timeIntrinsics(I map[string]Intrinsic) {
	I["time.Unix"] = func(m *Machine, fn *ssa.Function, a []Value) Value {
		c := m.ctx
		sec, nsec := term(a[0]), term(a[1])
		// time.Unix(t.Unix(), t.Nanosecond()) is t (the protobuf timestamp round trip)
		// (the nanosecond part may have gone through an int32: the remainder is below 2^30, so
		// narrowing and re-widening it changes nothing)
		for (nsec.Op == "sext" || nsec.Op == "zext") && nsec.Args[0].Op == "extract" && nsec.Args[0].P[1] == 0 &&
			nsec.Args[0].P[0] >= 30 && nsec.Args[0].Args[0].Op == "bvurem" && nsec.Args[0].Args[0].W == 64 {
			nsec = nsec.Args[0].Args[0]
		}
		if sec.Op == "bvudiv" && nsec.Op == "bvurem" && sec.Args[0] == nsec.Args[0] && sec.Args[1] == nsec.Args[1] &&
			sec.Args[1].IsConst() && sec.Args[1].C == 1e9 {
			return m.mkTime(sec.Args[0])
		}
		return m.mkTime(c.Add(c.Mul(sec, c.BV(1e9, 64)), nsec))
	}
	I["time.UnixMilli"] = func(m *Machine, fn *ssa.Function, a []Value) Value {
		return m.mkTime(m.ctx.Mul(term(a[0]), m.ctx.BV(1e6, 64)))
	}
	I["time.UnixMicro"] = func(m *Machine, fn *ssa.Function, a []Value) Value {
		return m.mkTime(m.ctx.Mul(term(a[0]), m.ctx.BV(1e3, 64)))
	}
	I["(time.Time).UnixNano"] = func(m *Machine, fn *ssa.Function, a []Value) Value { return m.timeNS(m.recvTime(a[0])) }
	I["(time.Time).UnixMilli"] = func(m *Machine, fn *ssa.Function, a []Value) Value {
		ns := m.timeNS(m.recvTime(a[0]))
		if m.branch(m.ctx.Slt(ns, m.ctx.BV(0, 64))) {
			m.unsupported("UnixMilli of a pre-1970 time")
		}
		return m.ctx.Udiv(ns, m.ctx.BV(1e6, 64))
	}
	I["(time.Time).Unix"] = func(m *Machine, fn *ssa.Function, a []Value) Value {
		ns := m.timeNS(m.recvTime(a[0]))
		if m.branch(m.ctx.Slt(ns, m.ctx.BV(0, 64))) {
			m.unsupported("Unix of a pre-1970 time")
		}
		return m.ctx.Udiv(ns, m.ctx.BV(1e9, 64))
	}
	I["(time.Time).Nanosecond"] = func(m *Machine, fn *ssa.Function, a []Value) Value {
		ns := m.timeNS(m.recvTime(a[0]))
		if m.branch(m.ctx.Slt(ns, m.ctx.BV(0, 64))) {
			m.unsupported("Nanosecond of a pre-1970 time")
		}
		return m.ctx.Urem(ns, m.ctx.BV(1e9, 64))
	}
	cmp := func(f func(c *smt.Ctx, x, y *smt.Term) *smt.Term) Intrinsic {
		return func(m *Machine, fn *ssa.Function, a []Value) Value {
			return f(m.ctx, m.timeKey(m.recvTime(a[0])), m.timeKey(a[1]))
		}
	}
	I["(time.Time).Before"] = cmp(func(c *smt.Ctx, x, y *smt.Term) *smt.Term { return c.Slt(x, y) })
	I["(time.Time).After"] = cmp(func(c *smt.Ctx, x, y *smt.Term) *smt.Term { return c.Slt(y, x) })
	I["(time.Time).Equal"] = cmp(func(c *smt.Ctx, x, y *smt.Term) *smt.Term { return c.Eq(x, y) })
	I["(time.Time).Compare"] = cmp(func(c *smt.Ctx, x, y *smt.Term) *smt.Term {
		return c.Ite(c.Slt(x, y), c.BV(^uint64(0), 64), c.Ite(c.Slt(y, x), c.BV(1, 64), c.BV(0, 64)))
	})
	I["(time.Time).IsZero"] = func(m *Machine, fn *ssa.Function, a []Value) Value {
		wall, _ := m.timeParts(m.recvTime(a[0]))
		return m.ctx.Eq(wall, m.ctx.BV(0, 64))
	}
	I["(time.Time).Add"] = func(m *Machine, fn *ssa.Function, a []Value) Value {
		return m.mkTime(m.ctx.Add(m.timeNS(m.recvTime(a[0])), term(a[1])))
	}
	I["(time.Time).Sub"] = func(m *Machine, fn *ssa.Function, a []Value) Value {
		return m.ctx.Sub(m.timeNS(m.recvTime(a[0])), m.timeNS(a[1]))
	}
	I["(time.Time).AddDate"] = func(m *Machine, fn *ssa.Function, a []Value) Value {
		y, mo, d := term(a[1]), term(a[2]), term(a[3])
		if !y.IsConst() || !mo.IsConst() || y.C != 0 || mo.C != 0 {
			m.unsupported("AddDate with years/months (calendar model supports days only)")
		}
		c := m.ctx
		return m.mkTime(c.Add(m.timeNS(m.recvTime(a[0])), c.Mul(d, c.BV(nsPerDay, 64))))
	}
	ident := func(m *Machine, fn *ssa.Function, a []Value) Value { return copyVal(m.recvTime(a[0])) }
	I["(time.Time).Local"], I["(time.Time).UTC"], I["(time.Time).In"], I["(time.Time).Round"] = ident, ident, ident, nil
	delete(I, "(time.Time).Round")
	I["(time.Time).Location"] = func(m *Machine, fn *ssa.Function, a []Value) Value { return Ptr{} }
	for _, k := range []string{"Year", "Month", "Day", "Hour"} {
		kind := k
		I["(time.Time)."+k] = func(m *Machine, fn *ssa.Function, a []Value) Value {
			return m.calTag(kind, m.timeNS(m.recvTime(a[0])))
		}
	}
	I["(time.Time).Truncate"] = func(m *Machine, fn *ssa.Function, a []Value) Value {
		d := term(a[1])
		if !d.IsConst() || d.SignedVal() <= 0 {
			m.unsupported("Truncate by a symbolic duration")
		}
		return m.mkTime(m.floorTo(m.timeNS(m.recvTime(a[0])), d.C))
	}
	I["time.Date"] = func(m *Machine, fn *ssa.Function, a []Value) Value {
		c := m.ctx
		y, mo, d, h := term(a[0]), term(a[1]), term(a[2]), term(a[3])
		for _, z := range a[4:7] {
			if t := term(z); !t.IsConst() || t.C != 0 {
				m.unsupported("time.Date with non-zero minutes/seconds/nanoseconds")
			}
		}
		// pattern 1: floor of one time
		if ty := calArg(y, "Year"); ty != nil {
			if calArg(mo, "Month") == ty && calArg(d, "Day") == ty {
				if h.IsConst() && h.C == 0 {
					return m.mkTime(m.floorTo(ty, nsPerDay))
				}
				if calArg(h, "Hour") == ty {
					return m.mkTime(m.floorTo(ty, nsPerHour))
				}
			}
			m.unsupported("time.Date: calendar pattern not recognised")
		}
		if y.IsConst() && mo.IsConst() && d.IsConst() && h.IsConst() {
			t := time.Date(int(y.SignedVal()), time.Month(mo.SignedVal()), int(d.SignedVal()), int(h.SignedVal()), 0, 0, 0, time.UTC)
			return m.mkTime(c.BV(uint64(t.UnixNano()), 64))
		}
		// pattern 2: days/hours after the epoch
		if y.IsConst() && y.SignedVal() == 1970 && mo.IsConst() && mo.SignedVal() == 1 {
			days := c.Sub(d, c.BV(1, 64))
			return m.mkTime(c.Add(c.Mul(days, c.BV(nsPerDay, 64)), c.Mul(h, c.BV(nsPerHour, 64))))
		}
		m.unsupported("time.Date: calendar pattern not recognised")
		return nil
	}
	str := func(m *Machine, fn *ssa.Function, a []Value) Value { return "<time>" }
	I["(time.Time).String"], I["(time.Duration).String"] = str, str
	// Format/Parse: a constant instant is formatted for real (UTC); a symbolic instant formatted
	// with RFC3339Nano or RFC3339 becomes an opaque text token that remembers the instant at the
	// layout's precision (RFC3339 has no fractional seconds), and time.Parse of the token gives
	// that instant back. Any other use of the token treats it as an ordinary (unparseable) text.
	I["(time.Time).Format"] = func(m *Machine, fn *ssa.Function, a []Value) Value {
		layout, ok := concStr(a[1])
		if !ok {
			return "<time>"
		}
		wall, ext := m.timeParts(m.recvTime(a[0]))
		if wall.IsConst() && wall.C == 0 {
			return time.Time{}.Format(layout)
		}
		if ext.IsConst() {
			return time.Unix(0, int64(ext.C)).UTC().Format(layout)
		}
		switch layout {
		case time.RFC3339Nano:
		case time.RFC3339:
			ext = m.floorTo(ext, 1000000000)
		default:
			return "<time>"
		}
		m.timeStrs = append(m.timeStrs, ext)
		return fmt.Sprintf("\x00time#%d\x00", len(m.timeStrs)-1)
	}
	I["time.Parse"] = func(m *Machine, fn *ssa.Function, a []Value) Value {
		layout, ok1 := concStr(a[0])
		val, ok2 := concStr(a[1])
		if !ok1 || !ok2 {
			m.unsupported("time.Parse of a symbolic string")
		}
		var idx int
		if n, _ := fmt.Sscanf(val, "\x00time#%d\x00", &idx); n == 1 && idx < len(m.timeStrs) {
			if layout != time.RFC3339 && layout != time.RFC3339Nano {
				m.unsupported("time.Parse of a formatted symbolic instant with layout " + layout)
			}
			return TupleV{m.mkTime(m.timeStrs[idx]), IfaceV{}}
		}
		t, err := time.Parse(layout, val)
		if err != nil {
			return TupleV{StructV{m.ctx.BV(0, 64), m.ctx.BV(0, 64), Ptr{}}, m.newError(err.Error(), nil)}
		}
		return TupleV{m.mkTime(m.ctx.BV(uint64(t.UnixNano()), 64)), IfaceV{}}
	}
	// ParseInLocation: every location is UTC in the model (native replays run with TZ=UTC)
	I["time.ParseInLocation"] = func(m *Machine, fn *ssa.Function, a []Value) Value {
		layout, ok1 := concStr(a[0])
		val, ok2 := concStr(a[1])
		if !ok1 || !ok2 {
			m.unsupported("time.ParseInLocation of a symbolic string")
		}
		t, err := time.ParseInLocation(layout, val, time.UTC)
		if err != nil {
			return TupleV{StructV{m.ctx.BV(0, 64), m.ctx.BV(0, 64), Ptr{}}, m.newError(err.Error(), nil)}
		}
		return TupleV{m.mkTime(m.ctx.BV(uint64(t.UnixNano()), 64)), IfaceV{}}
	}
	I["(time.Time).AppendFormat"] = func(m *Machine, fn *ssa.Function, a []Value) Value { return a[1] }
	I["time.Now"] = func(m *Machine, fn *ssa.Function, a []Value) Value {
		// only reachable from code whose result the properties do not depend on (last-access stamps, logs)
		now := m.nondet("aux:now", 64)
		m.assume(m.ctx.Ult(now, m.ctx.BV(uint64(1)<<62, 64))) // the wall clock reads between 1970 and 2116
		return m.mkTime(now)
	}
	I["time.Since"] = func(m *Machine, fn *ssa.Function, a []Value) Value { return m.nondet("aux:since", 64) }
	I["time.Sleep"] = func(m *Machine, fn *ssa.Function, a []Value) Value { return nil }
}
