package sx

import (
	"os"
	"fmt"
	"go/constant"
	"go/token"
	"go/types"
	"strings"

	"golang.org/x/tools/go/ssa"

	"verif/engine/smt"
)

type deferred struct {
	fn   Value
	args []Value
	site ssa.Instruction
	tail *deferred
}

type frame struct {
	m         *Machine
	fn        *ssa.Function
	env       map[ssa.Value]Value
	block     *ssa.BasicBlock
	prev      *ssa.BasicBlock
	defers    *deferred
	result    Value
	panicking bool
	panicVal  interface{}
	visits    map[*ssa.BasicBlock]int
	caller    *frame
}

func (fr *frame) get(v ssa.Value) Value {
	switch x := v.(type) {
	case nil:
		return nil
	case *ssa.Const:
		return fr.m.constValue(x)
	case *ssa.Global:
		return Ptr{fr.m.global(x)}
	case *ssa.Function:
		return x
	case *ssa.Builtin:
		return x
	}
	if r, ok := fr.env[v]; ok {
		return r
	}
	fr.m.abort("internal", fmt.Sprintf("get: no value for %T %v in %s", v, v.Name(), fr.fn))
	return nil
}

func (m *Machine) constValue(c *ssa.Const) Value {
	t := c.Type()
	if c.Value == nil {
		return m.zero(t)
	}
	if _, ok := t.Underlying().(*types.Interface); ok {
		// typed constant converted to interface / type param: not expected after instantiation
		return m.zero(t)
	}
	if isString(t) {
		if c.Value.Kind() == constant.String {
			return constant.StringVal(c.Value)
		}
		return ""
	}
	w, signed, fl, ok := typeWidth(t)
	if !ok {
		return Poison{"const of " + t.String()}
	}
	if w == 0 {
		return m.ctx.Bool(constant.BoolVal(c.Value))
	}
	if fl {
		f, _ := constant.Float64Val(constant.ToFloat(c.Value))
		return m.floatConst(f, w)
	}
	if signed {
		return m.ctx.BV(uint64(c.Int64()), w)
	}
	return m.ctx.BV(c.Uint64(), w)
}

// callFn runs a function: redirect → intrinsic → SSA body.
func (m *Machine) callFn(fn *ssa.Function, args []Value, env []Value) Value {
	name := fn.String()
	if r, ok := m.E.Redirects[name]; ok && r != fn {
		return m.callFn(r, args, nil)
	}
	if in := m.lookupIntrinsic(fn); in != nil {
		m.noteStub(name)
		return in(m, fn, args)
	}
	if fn.Pkg != nil && fn.Signature.Recv() == nil && fn.Name() == "init" && fn.Synthetic != "" {
		// other package's initialiser: they run lazily on first global access
		return nil
	}
	if fn.Pkg != nil {
		if pp := fn.Pkg.Pkg.Path(); pp == "runtime" || strings.HasPrefix(pp, "internal/") || pp == "reflect" || pp == "unsafe" {
			// never interpret the runtime's own machinery
			if m.inInit > 0 {
				return Poison{"runtime-internal " + name}
			}
			m.unsupported("call into " + pp + ": " + name)
		}
	}
	if fn.Blocks == nil {
		if m.inInit > 0 {
			return Poison{"external " + name}
		}
		m.unsupported("call of function without body: " + name)
	}
	return m.runFunction(fn, args, env)
}

func (m *Machine) noteStub(name string) {
	m.E.mu.Lock()
	m.E.StubsSeen[name] = true
	m.E.mu.Unlock()
}

func (m *Machine) runFunction(fn *ssa.Function, args []Value, env []Value) Value {
	if len(m.stack) > 400 {
		m.abort("bound", "call depth > 400")
	}
	m.E.mu.Lock()
	if !m.E.FuncsSeen[fn.String()] {
		m.E.FuncsSeen[fn.String()] = true
	}
	m.E.mu.Unlock()
	fr := &frame{m: m, fn: fn, env: make(map[ssa.Value]Value, 16), visits: map[*ssa.BasicBlock]int{}}
	if len(m.stack) > 0 {
		fr.caller = m.stack[len(m.stack)-1]
	}
	for i, p := range fn.Params {
		if i < len(args) {
			fr.env[p] = args[i]
		}
	}
	for i, fv := range fn.FreeVars {
		fr.env[fv] = env[i]
	}
	m.stack = append(m.stack, fr)
	depth := len(m.stack)
	fr.block = fn.Blocks[0]
	for fr.block != nil {
		m.runFrame(fr)
		m.stack = m.stack[:depth]
	}
	m.stack = m.stack[:depth-1]
	return fr.result
}

func (m *Machine) runFrame(fr *frame) {
	defer func() {
		if fr.block == nil {
			return // normal return
		}
		r := recover()
		if r == nil {
			return // goroutine of a parked logical thread is being torn down (runtime.Goexit)
		}
		if _, ok := r.(goPanic); !ok {
			panic(r) // path abort or interpreter bug: not visible to the program
		}
		fr.panicking = true
		fr.panicVal = r
		m.stack = m.stack[:indexOfFrame(m.stack, fr)+1]
		fr.runDefers()
		fr.block = fr.fn.Recover
		if fr.block == nil {
			// recovered, no named results: return zero values
			fr.result = m.zeroResults(fr.fn)
		}
	}()
	for {
		blk := fr.block
		if blk.Index != 0 || fr.prev != nil {
			fr.visits[blk]++
			if fr.visits[blk] > m.Cfg.Unwind {
				m.abort("bound", fmt.Sprintf("unwind %d exceeded at %s block %d (%s)", m.Cfg.Unwind, fr.fn, blk.Index, m.E.Prog.Fset.Position(m.lastPos)))
			}
		}
		jumped := false
		// φ-nodes of a block are a parallel assignment (a swap `a, b = b, a` in a loop makes them
		// refer to each other): read all incoming values first, then bind.
		nphi := 0
		for nphi < len(blk.Instrs) {
			if _, ok := blk.Instrs[nphi].(*ssa.Phi); !ok {
				break
			}
			nphi++
		}
		if nphi > 1 {
			vals := make([]Value, nphi)
			for k := 0; k < nphi; k++ {
				phi := blk.Instrs[k].(*ssa.Phi)
				for i, pred := range blk.Preds {
					if fr.prev == pred {
						vals[k] = fr.get(phi.Edges[i])
						break
					}
				}
			}
			for k := 0; k < nphi; k++ {
				fr.env[blk.Instrs[k].(*ssa.Phi)] = vals[k]
			}
		}
		for idx, instr := range blk.Instrs {
			if idx < nphi && nphi > 1 {
				m.steps++
				continue
			}
			m.steps++
			if m.steps > m.Cfg.MaxSteps {
				m.abort("bound", fmt.Sprintf("step limit %d exceeded", m.Cfg.MaxSteps))
			}
			if p := instr.Pos(); p != token.NoPos {
				m.lastPos = p
			}
			var k int
			if m.inInit > 0 {
				k = m.visitGuarded(fr, instr)
			} else {
				k = m.visit(fr, instr)
			}
			if k == kReturn {
				fr.block = nil
				return
			}
			if k == kJump {
				jumped = true
				break
			}
		}
		if !jumped {
			m.abort("internal", "block fell through")
		}
	}
}

func (m *Machine) zeroResults(fn *ssa.Function) Value {
	res := fn.Signature.Results()
	switch res.Len() {
	case 0:
		return nil
	case 1:
		return m.zero(res.At(0).Type())
	}
	tv := make(TupleV, res.Len())
	for i := range tv {
		tv[i] = m.zero(res.At(i).Type())
	}
	return tv
}

// visitGuarded: inside package initialisers, an unsupported instruction poisons its result.
func (m *Machine) visitGuarded(fr *frame, instr ssa.Instruction) (k int) {
	defer func() {
		if r := recover(); r != nil {
			if gp, ok := r.(goPanic); ok && fr.fn.Synthetic != "" && fr.fn.Name() == "init" {
				// an init() function or initialiser expression of the package panicked (e.g. it
				// reads embedded files or the environment): skip it, keep initialising the rest
				if debugInit {
					fmt.Fprintf(os.Stderr, "init-panic skipped: %s: %s\n", fr.fn, gp.Desc)
				}
				if v, ok := instr.(ssa.Value); ok {
					fr.env[v] = Poison{gp.Desc}
				}
				m.stack = m.stack[:indexOfFrame(m.stack, fr)+1]
				k = kNext
				return
			}
			if pa, ok := r.(pathAbort); ok && pa.Kind == "unsupported" {
				if debugInit {
					fmt.Fprintf(os.Stderr, "init-poison: %s: %s\n", fr.fn, pa.Msg)
				}
				if v, ok := instr.(ssa.Value); ok {
					fr.env[v] = Poison{pa.Msg}
				}
				m.stack = m.stack[:indexOfFrame(m.stack, fr)+1]
				k = kNext
				if _, isIf := instr.(*ssa.If); isIf {
					// a branch on an unavailable (poisoned) value inside an initialiser: take the
					// false edge (by far most often `if err != nil { panic }`)
					fr.prev, fr.block = fr.block, fr.block.Succs[1]
					k = kJump
				}
				return
			}
			panic(r)
		}
	}()
	return m.visit(fr, instr)
}

func indexOfFrame(st []*frame, fr *frame) int {
	for i := len(st) - 1; i >= 0; i-- {
		if st[i] == fr {
			return i
		}
	}
	return len(st) - 1
}

func (fr *frame) runDefers() {
	for d := fr.defers; d != nil; d = d.tail {
		fr.runDefer(d)
	}
	fr.defers = nil
	if fr.panicking {
		panic(fr.panicVal)
	}
}

func (fr *frame) runDefer(d *deferred) {
	ok := false
	depth := len(fr.m.stack)
	defer func() {
		if !ok {
			r := recover()
			if r == nil {
				return
			}
			if _, isGo := r.(goPanic); !isGo {
				panic(r)
			}
			fr.m.stack = fr.m.stack[:depth]
			fr.panicking = true
			fr.panicVal = r
		}
	}()
	fr.m.callValue(d.fn, d.args, d.site)
	ok = true
}

const (
	kNext = iota
	kReturn
	kJump
)

func (m *Machine) callValue(fnv Value, args []Value, site ssa.Instruction) Value {
	switch f := fnv.(type) {
	case *ssa.Function:
		return m.callFn(f, args, nil)
	case *ClosureV:
		return m.callFn(f.Fn, args, f.Env)
	case *ssa.Builtin:
		return m.callBuiltin(f, args, site)
	case NoopFunc:
		return nil
	case FuncNil:
		m.goPanic("invalid memory address or nil pointer dereference (nil func)")
	case Poison:
		m.unsupported("call of poisoned function value: " + f.Why)
	}
	m.unsupported(fmt.Sprintf("call of %T", fnv))
	return nil
}

func (m *Machine) prepareCall(fr *frame, call *ssa.CallCommon) (Value, []Value) {
	var args []Value
	var fnv Value
	if call.IsInvoke() {
		recv := fr.get(call.Value)
		iv, ok := recv.(IfaceV)
		if !ok {
			m.unsupported(fmt.Sprintf("invoke on %T", recv))
		}
		if iv.T == nil {
			m.goPanic("invalid memory address or nil pointer dereference (nil interface method call " + call.Method.Name() + ")")
		}
		f := m.E.Prog.LookupMethod(iv.T, call.Method.Pkg(), call.Method.Name())
		if f == nil {
			m.unsupported("no method " + call.Method.Name() + " on " + iv.T.String())
		}
		fnv = f
		args = append(args, iv.V)
	} else {
		fnv = fr.get(call.Value)
	}
	for _, a := range call.Args {
		args = append(args, copyVal(fr.get(a)))
	}
	return fnv, args
}

func (m *Machine) visit(fr *frame, instr ssa.Instruction) int {
	switch in := instr.(type) {
	case *ssa.DebugRef:
	case *ssa.UnOp:
		fr.env[in] = m.unop(fr, in)
	case *ssa.BinOp:
		fr.env[in] = m.binop(in.Op, in.X.Type(), fr.get(in.X), fr.get(in.Y), in.Y.Type())
	case *ssa.Call:
		fnv, args := m.prepareCall(fr, &in.Call)
		fr.env[in] = m.callValue(fnv, args, in)
	case *ssa.ChangeInterface:
		fr.env[in] = fr.get(in.X)
	case *ssa.ChangeType:
		fr.env[in] = fr.get(in.X)
	case *ssa.Convert:
		fr.env[in] = m.convert(in.X.Type(), in.Type(), fr.get(in.X))
	case *ssa.MultiConvert:
		fr.env[in] = m.convert(in.X.Type(), in.Type(), fr.get(in.X))
	case *ssa.SliceToArrayPointer:
		s := fr.get(in.X).(SliceV)
		n := int(in.Type().(*types.Pointer).Elem().Underlying().(*types.Array).Len())
		if len(s.A) < n {
			m.goPanic("cannot convert slice to array pointer: length too short")
		}
		if s.Nil {
			fr.env[in] = Ptr{}
		} else {
			m.unsupported("SliceToArrayPointer")
		}
	case *ssa.MakeInterface:
		fr.env[in] = IfaceV{T: in.X.Type(), V: copyVal(fr.get(in.X))}
	case *ssa.Extract:
		tv, isTuple := fr.get(in.Tuple).(TupleV)
		if !isTuple {
			if pz, ok := fr.get(in.Tuple).(Poison); ok {
				m.unsupported("use of an unavailable value: " + pz.Why)
			}
			m.unsupported(fmt.Sprintf("extract from %T", fr.get(in.Tuple)))
		}
		fr.env[in] = tv[in.Index]
	case *ssa.Slice:
		fr.env[in] = m.sliceOp(fr, in)
	case *ssa.Return:
		switch len(in.Results) {
		case 0:
		case 1:
			fr.result = copyVal(fr.get(in.Results[0]))
		default:
			tv := make(TupleV, len(in.Results))
			for i, r := range in.Results {
				tv[i] = copyVal(fr.get(r))
			}
			fr.result = tv
		}
		return kReturn
	case *ssa.RunDefers:
		fr.runDefers()
	case *ssa.Panic:
		v := fr.get(in.X)
		panic(goPanic{V: v, Desc: "panic: " + m.describePanic(v), Site: m.pos()})
	case *ssa.Send:
		ch := fr.get(in.Chan).(*ChanV)
		m.chanSend(ch, fr.get(in.X))
	case *ssa.Store:
		p := m.ptrOf(fr.get(in.Addr))
		storeInto(p, fr.get(in.Val))
	case *ssa.If:
		c, ok := fr.get(in.Cond).(*smt.Term)
		if !ok {
			m.unsupported("if on non-term")
		}
		succ := 1
		if m.branch(c) {
			succ = 0
		}
		fr.prev, fr.block = fr.block, fr.block.Succs[succ]
		return kJump
	case *ssa.Jump:
		fr.prev, fr.block = fr.block, fr.block.Succs[0]
		return kJump
	case *ssa.Defer:
		fnv, args := m.prepareCall(fr, &in.Call)
		fr.defers = &deferred{fn: fnv, args: args, site: in, tail: fr.defers}
	case *ssa.Go:
		fnv, args := m.prepareCall(fr, &in.Call)
		m.goStmt(fnv, args, in)
	case *ssa.MakeChan:
		n := m.concInt(fr.get(in.Size), "chan size")
		fr.env[in] = &ChanV{Cap: n}
	case *ssa.Alloc:
		c := new(Value)
		*c = m.zero(in.Type().(*types.Pointer).Elem())
		fr.env[in] = Ptr{c}
	case *ssa.MakeSlice:
		fr.env[in] = m.makeSlice(in.Type(), fr.get(in.Len), fr.get(in.Cap))
	case *ssa.MakeMap:
		fr.env[in] = &MapV{idx: map[string]int{}}
	case *ssa.Range:
		fr.env[in] = m.rangeIter(fr.get(in.X))
	case *ssa.Next:
		fr.env[in] = m.next(fr.get(in.Iter).(*RangeIter), in)
	case *ssa.FieldAddr:
		p := m.ptrOf(fr.get(in.X))
		s, ok := (*p).(StructV)
		if !ok {
			m.unsupported(fmt.Sprintf("FieldAddr on %T", *p))
		}
		fr.env[in] = Ptr{&s[in.Field]}
	case *ssa.Field:
		s, ok := fr.get(in.X).(StructV)
		if !ok {
			m.unsupported(fmt.Sprintf("Field on %T", fr.get(in.X)))
		}
		fr.env[in] = copyVal(s[in.Field])
	case *ssa.IndexAddr:
		fr.env[in] = m.indexAddr(fr.get(in.X), fr.get(in.Index), in.Index.Type())
	case *ssa.Index:
		fr.env[in] = m.index(fr.get(in.X), fr.get(in.Index), in.Index.Type())
	case *ssa.Lookup:
		fr.env[in] = m.lookup(fr, in)
	case *ssa.MapUpdate:
		mp, _ := fr.get(in.Map).(*MapV)
		if mp == nil {
			m.goPanic("assignment to entry in nil map")
		}
		m.mapSet(mp, copyVal(fr.get(in.Key)), copyVal(fr.get(in.Value)))
	case *ssa.TypeAssert:
		fr.env[in] = m.typeAssert(in, fr.get(in.X))
	case *ssa.MakeClosure:
		var env []Value
		for _, b := range in.Bindings {
			env = append(env, fr.get(b))
		}
		fr.env[in] = &ClosureV{Fn: in.Fn.(*ssa.Function), Env: env}
	case *ssa.Phi:
		for i, pred := range in.Block().Preds {
			if fr.prev == pred {
				fr.env[in] = fr.get(in.Edges[i])
				break
			}
		}
	case *ssa.Select:
		fr.env[in] = m.selectOp(fr, in)
	default:
		m.unsupported(fmt.Sprintf("instruction %T", instr))
	}
	return kNext
}

func (m *Machine) describePanic(v Value) string {
	if iv, ok := v.(IfaceV); ok {
		if iv.T == nil {
			return "nil"
		}
		if s, ok := concStr(iv.V); ok {
			return s
		}
		// error values: try the Error string field of errors.errorString / fmt.wrapError
		if p, ok := iv.V.(Ptr); ok && p.C != nil {
			if st, ok := (*p.C).(StructV); ok && len(st) > 0 {
				if s, ok := concStr(st[0]); ok {
					return iv.T.String() + ": " + s
				}
			}
		}
		return iv.T.String()
	}
	if s, ok := v.(string); ok {
		return s
	}
	return fmt.Sprintf("%T", v)
}

func (m *Machine) ptrOf(v Value) *Value {
	switch p := v.(type) {
	case Ptr:
		if p.C == nil {
			m.goPanic("invalid memory address or nil pointer dereference")
		}
		return p.C
	case Poison:
		m.unsupported("dereference of poisoned value: " + p.Why)
	}
	m.unsupported(fmt.Sprintf("dereference of %T", v))
	return nil
}

// concInt forces an int-like value to a concrete Go int (forking over feasible values).
func (m *Machine) concInt(v Value, what string) int {
	t, ok := v.(*smt.Term)
	if !ok {
		if v == nil {
			return 0
		}
		m.unsupported(fmt.Sprintf("concInt of %T", v))
	}
	if t.IsConst() {
		return int(t.SignedVal())
	}
	u := m.concretize(t, m.Cfg.AllocCap, what)
	return int(m.ctx.BV(u, t.W).SignedVal())
}

func (m *Machine) unop(fr *frame, in *ssa.UnOp) Value {
	x := fr.get(in.X)
	switch in.Op {
	case token.MUL: // load
		p := m.ptrOf(x)
		if pz, ok := (*p).(Poison); ok && m.inInit == 0 {
			m.unsupported("load of poisoned cell: " + pz.Why)
		}
		if bo, ok := (*p).(ByteOf); ok {
			return m.byteOf(bo)
		}
		return copyVal(*p)
	case token.ARROW:
		ch, _ := x.(*ChanV)
		v, ok := m.chanRecv(ch, in.Type())
		if in.CommaOk {
			return TupleV{v, m.ctx.Bool(ok)}
		}
		return v
	case token.NOT:
		return m.ctx.Not(x.(*smt.Term))
	case token.SUB:
		t := x.(*smt.Term)
		if _, _, fl, _ := typeWidth(in.X.Type()); fl {
			return m.ctx.FpNeg(t)
		}
		return m.ctx.Neg(t)
	case token.XOR:
		return m.ctx.BvNot(x.(*smt.Term))
	}
	m.unsupported("unop " + in.Op.String())
	return nil
}

func (m *Machine) makeSlice(t types.Type, lv, cv Value) Value {
	elem := t.Underlying().(*types.Slice).Elem()
	m.checkMakeSize(lv, "len")
	n := m.concInt(lv, "make len")
	c := n
	if cv != nil {
		m.checkMakeSize(cv, "cap")
		c = m.concInt(cv, "make cap")
	}
	if n < 0 || c < n {
		m.goPanic("makeslice: len out of range")
	}
	if c > m.Cfg.AllocCap*64 {
		// concrete but enormous: model refuses rather than allocate
		m.abort("bound", fmt.Sprintf("make of %d elements exceeds model allocation limit", c))
	}
	a := make([]Value, n, c)
	for i := range a {
		a[i] = m.zero(elem)
	}
	if c > m.maxAlloc {
		m.maxAlloc = c
	}
	return SliceV{A: a}
}

// checkMakeSize: a symbolic size that can exceed the allocation cap (or be negative) is a finding
// of its own ("allocates without bound" / makeslice panic).
func (m *Machine) checkMakeSize(v Value, what string) {
	t, ok := v.(*smt.Term)
	if !ok || t.IsConst() {
		return
	}
	neg := m.ctx.Slt(t, m.ctx.BV(0, t.W))
	if m.branch(neg) {
		m.goPanic("makeslice: " + what + " out of range")
	}
	big := m.ctx.Slt(m.ctx.BV(uint64(m.Cfg.AllocCap), t.W), t)
	if m.branch(big) {
		panic(goPanic{V: "alloc", Desc: fmt.Sprintf("unbounded allocation: make with %s > %d elements controlled by input", what, m.Cfg.AllocCap), Site: m.pos()})
	}
}

func (m *Machine) sliceOp(fr *frame, in *ssa.Slice) Value {
	x := fr.get(in.X)
	var lo, hi, max Value
	if in.Low != nil {
		lo = m.widen(fr.get(in.Low), in.Low.Type())
	}
	if in.High != nil {
		hi = m.widen(fr.get(in.High), in.High.Type())
	}
	if in.Max != nil {
		max = m.widen(fr.get(in.Max), in.Max.Type())
	}
	var length, capacity int
	var base []Value
	var str []*smt.Term
	isStr := false
	nilSlice := false
	switch s := x.(type) {
	case SliceV:
		base = s.A[:cap(s.A)]
		length, capacity = len(s.A), cap(s.A)
		nilSlice = s.Nil
	case Ptr: // *array
		p := m.ptrOf(s)
		if t, isWord := (*p).(*smt.Term); isWord && t.W == 64 {
			// (*[8]byte)(unsafe.Pointer(&word))[:] : a live little-endian byte view of the word
			view := make([]Value, 8)
			for i := range view {
				view[i] = ByteOf{C: p, I: i}
			}
			base = view
			length, capacity = 8, 8
			break
		}
		a := (*p).(ArrayV)
		base = a
		length, capacity = len(a), len(a)
	case string, SymStr:
		isStr = true
		str = m.strBytes(s)
		length, capacity = len(str), len(str)
	default:
		m.unsupported(fmt.Sprintf("slice of %T", x))
	}
	// Bounds: 0 <= lo <= hi <= max <= cap. Symbolic bounds fork the out-of-range panic first.
	h := m.boundedIndex(hi, length, capacity, isStr, "slice high")
	if hi == nil {
		h = length
	}
	mx := capacity
	if max != nil {
		mx = m.boundedIndex(max, capacity, capacity, isStr, "slice max")
		if h > mx {
			m.goPanic(fmt.Sprintf("slice bounds out of range [:%d:%d]", h, mx))
		}
	}
	l := 0
	if lo != nil {
		l = m.boundedIndex(lo, h, h, true, "slice low")
	}
	if isStr {
		return normStr(str[l:h])
	}
	if nilSlice && l == 0 && h == 0 {
		return SliceV{Nil: true}
	}
	return SliceV{A: base[l:h:mx]}
}

// boundedIndex concretises an index that must satisfy 0 <= v <= limit, raising the Go panic on
// the path where it does not.
func (m *Machine) boundedIndex(v Value, length, limit int, useLen bool, what string) int {
	if v == nil {
		return 0
	}
	t, ok := v.(*smt.Term)
	if !ok {
		m.unsupported(fmt.Sprintf("index of %T", v))
	}
	lim := limit
	_ = length
	if t.IsConst() {
		i := t.SignedVal()
		if i < 0 || i > int64(lim) {
			m.goPanic(fmt.Sprintf("%s %d out of range [0,%d]", what, i, lim))
		}
		return int(i)
	}
	bad := m.ctx.Ult(m.ctx.BV(uint64(lim), t.W), t) // unsigned compare also catches negatives
	if m.branch(bad) {
		m.goPanic(fmt.Sprintf("%s out of range [0,%d] (symbolic)", what, lim))
	}
	return int(m.concretize(t, lim+1, what))
}

func (m *Machine) elemIndex(iv Value, n int, what string) int {
	t, ok := iv.(*smt.Term)
	if !ok {
		m.unsupported(fmt.Sprintf("index of %T", iv))
	}
	if t.IsConst() {
		i := t.SignedVal()
		if i < 0 || i >= int64(n) {
			m.goPanic(fmt.Sprintf("index out of range [%d] with length %d", i, n))
		}
		return int(i)
	}
	bad := m.ctx.Ule(m.ctx.BV(uint64(n), t.W), t)
	if m.branch(bad) {
		m.goPanic(fmt.Sprintf("index out of range [symbolic] with length %d", n))
	}
	return int(m.concretize(t, n, what))
}

func (m *Machine) widen(iv Value, it types.Type) Value {
	// index operands may be of any integer type; normalise to 64 bits respecting signedness
	t, ok := iv.(*smt.Term)
	if !ok {
		return iv
	}
	if t.W == 64 {
		return t
	}
	_, signed, _, _ := typeWidth(it)
	if signed {
		return m.ctx.Sext(t, 64)
	}
	return m.ctx.Zext(t, 64)
}

func (m *Machine) indexAddr(x, iv Value, it types.Type) Value {
	iv = m.widen(iv, it)
	switch s := x.(type) {
	case SliceV:
		i := m.elemIndex(iv, len(s.A), "slice index")
		return Ptr{&s.A[i]}
	case Ptr:
		p := m.ptrOf(s)
		a, ok := (*p).(ArrayV)
		if !ok {
			m.unsupported(fmt.Sprintf("IndexAddr on pointer to %T", *p))
		}
		i := m.elemIndex(iv, len(a), "array index")
		return Ptr{&a[i]}
	}
	m.unsupported(fmt.Sprintf("IndexAddr on %T", x))
	return nil
}

func (m *Machine) index(x, iv Value, it types.Type) Value {
	iv = m.widen(iv, it)
	switch s := x.(type) {
	case ArrayV:
		t := iv.(*smt.Term)
		if !t.IsConst() && len(s) > 0 && len(s) <= 256 {
			// read-only symbolic index into an array value (lookup tables): ite chain
			if first, ok := s[0].(*smt.Term); ok {
				bad := m.ctx.Ule(m.ctx.BV(uint64(len(s)), t.W), t)
				if m.branch(bad) {
					m.goPanic("index out of range (array value)")
				}
				res := first
				for i := 1; i < len(s); i++ {
					res = m.ctx.Ite(m.ctx.Eq(t, m.ctx.BV(uint64(i), t.W)), s[i].(*smt.Term), res)
				}
				return res
			}
		}
		i := m.elemIndex(iv, len(s), "array index")
		return copyVal(s[i])
	case string, SymStr:
		b := m.strBytes(s)
		i := m.elemIndex(iv, len(b), "string index")
		return b[i]
	}
	m.unsupported(fmt.Sprintf("Index on %T", x))
	return nil
}

func (m *Machine) typeAssert(in *ssa.TypeAssert, x Value) Value {
	iv, ok := x.(IfaceV)
	if !ok {
		m.unsupported(fmt.Sprintf("TypeAssert on %T", x))
	}
	okRes := false
	var res Value
	if iv.T != nil {
		if it, isI := in.AssertedType.Underlying().(*types.Interface); isI {
			if types.Implements(iv.T, it) || m.implementsViaMethodSet(iv.T, it) {
				okRes = true
				res = iv
			}
		} else if types.Identical(iv.T, in.AssertedType) {
			okRes = true
			res = iv.V
		}
	}
	if in.CommaOk {
		if !okRes {
			res = m.zero(in.AssertedType)
		}
		return TupleV{res, m.ctx.Bool(okRes)}
	}
	if !okRes {
		tn := "nil"
		if iv.T != nil {
			tn = iv.T.String()
		}
		m.goPanic("interface conversion: interface is " + tn + ", not " + in.AssertedType.String())
	}
	return res
}

func (m *Machine) implementsViaMethodSet(t types.Type, it *types.Interface) bool {
	ms := m.E.Prog.MethodSets.MethodSet(t)
	for i := 0; i < it.NumMethods(); i++ {
		meth := it.Method(i)
		if ms.Lookup(meth.Pkg(), meth.Name()) == nil {
			return false
		}
	}
	return true
}

func (m *Machine) goStmt(fnv Value, args []Value, site ssa.Instruction) {
	// Sequential mode: the new goroutine runs to completion at the point where it is started (one
	// legal schedule). Harnesses that need other schedules model them explicitly.
	m.noteStub("go statement executed inline (sequential schedule)")
	m.callValue(fnv, args, site)
}

// selectOp: sequential semantics. The first ready case is taken (Go chooses pseudo-randomly among
// ready cases; harnesses that depend on that choice must model it explicitly).
func (m *Machine) selectOp(fr *frame, in *ssa.Select) Value {
	c := m.ctx
	chosen := -1
	var recvVal Value
	recvOk := false
	for i, st := range in.States {
		ch, _ := fr.get(st.Chan).(*ChanV)
		if ch == nil {
			continue
		}
		if st.Dir == types.SendOnly {
			if ch.Closed {
				m.goPanic("send on closed channel")
			}
			if len(ch.Buf) < ch.Cap {
				ch.Buf = append(ch.Buf, copyVal(fr.get(st.Send)))
				chosen = i
				break
			}
		} else {
			if len(ch.Buf) > 0 {
				recvVal, recvOk = ch.Buf[0], true
				ch.Buf = ch.Buf[1:]
				chosen = i
				break
			}
			if ch.Closed {
				recvVal, recvOk = m.zero(st.Chan.Type().Underlying().(*types.Chan).Elem()), false
				chosen = i
				break
			}
		}
	}
	if chosen < 0 && in.Blocking {
		m.unsupported("blocking select in sequential mode")
	}
	res := TupleV{c.BV(uint64(int64(chosen)), 64), c.Bool(recvOk)}
	for i, st := range in.States {
		if st.Dir == types.RecvOnly {
			if i == chosen {
				res = append(res, recvVal)
			} else {
				res = append(res, m.zero(st.Chan.Type().Underlying().(*types.Chan).Elem()))
			}
		}
	}
	return res
}

func (m *Machine) chanSend(ch *ChanV, v Value) {
	if ch == nil {
		m.abort("infeasible", "send on nil channel blocks forever")
	}
	if ch.Closed {
		m.goPanic("send on closed channel")
	}
	if len(ch.Buf) >= ch.Cap {
		m.abort("unsupported", "blocking channel send in sequential mode")
	}
	ch.Buf = append(ch.Buf, copyVal(v))
}

func (m *Machine) chanRecv(ch *ChanV, t types.Type) (Value, bool) {
	if ch == nil {
		m.abort("infeasible", "receive on nil channel blocks forever")
	}
	if len(ch.Buf) > 0 {
		v := ch.Buf[0]
		ch.Buf = ch.Buf[1:]
		return v, true
	}
	if ch.Closed {
		var et types.Type
		switch u := t.(type) {
		case *types.Tuple:
			et = u.At(0).Type()
		default:
			et = t
		}
		return m.zero(et), false
	}
	m.abort("unsupported", "blocking channel receive in sequential mode")
	return nil, false
}

func shortName(fn *ssa.Function) string {
	s := fn.String()
	if i := strings.LastIndex(s, "/"); i >= 0 {
		return s[i+1:]
	}
	return s
}

var debugInit = os.Getenv("VERIF_DEBUG_INIT") != ""
