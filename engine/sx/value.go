// Package sx: symbolic executor over go/ssa.
package sx

import (
	"fmt"
	"go/types"
	"strings"

	"golang.org/x/tools/go/ssa"

	"verif/engine/smt"
)

// Value is one of:
//
//	*smt.Term        scalar (bool, intN, uintN, floatN as IEEE bits, uintptr)
//	StructV, ArrayV  aggregates (value semantics: copied on load/store)
//	Ptr              pointer to a cell (C==nil: nil pointer)
//	SliceV           slice sharing a Go backing array of cells
//	string / SymStr  strings (concrete / per-byte terms)
//	IfaceV           interface value (T==nil: nil interface)
//	TupleV           multi-value result
//	*MapV, *ChanV    reference objects (nil pointer value = nil map/chan)
//	*ClosureV, *ssa.Function, *ssa.Builtin, FuncNil   function values
//	Poison           result of an unsupported operation; any use aborts the path
type Value = interface{}

type StructV []Value
type ArrayV []Value
type TupleV []Value

type Ptr struct {
	C *Value
	// Base/Idx identify array-element pointers so that pointer arithmetic-free code comparing
	// &a[i]==&b[j] works; not needed otherwise.
}

type SliceV struct {
	A   []Value // len(A)=len, cap(A)=cap
	Nil bool
}

type SymStr []*smt.Term

type IfaceV struct {
	T types.Type
	V Value
}

type ClosureV struct {
	Fn  *ssa.Function
	Env []Value
}

type FuncNil struct{}

type Poison struct{ Why string }

type MapV struct {
	Keys []Value
	Vals []Value
	idx  map[string]int // concrete-key index
}

type ChanV struct {
	Buf    []Value
	Cap    int
	Closed bool
}

// RangeIter is the state of a `range` over map or string.
type RangeIter struct {
	M     *MapV
	Order []int
	Keys  []Value // the keys present when the iteration started (entries deleted meanwhile are skipped)
	Str   Value
	Pos   int
}

// LogEvent stands for a *zerolog.Event.
type LogEvent struct{ Panic bool }

// Opaque native object carried through symbolic execution (e.g. time.Location).
type Native struct{ V interface{} }

func isNilPtr(v Value) bool {
	p, ok := v.(Ptr)
	return ok && p.C == nil
}

// copyVal deep-copies aggregates (value semantics); references are shared.
func copyVal(v Value) Value {
	switch x := v.(type) {
	case StructV:
		n := make(StructV, len(x))
		for i, e := range x {
			n[i] = copyVal(e)
		}
		return n
	case ArrayV:
		n := make(ArrayV, len(x))
		for i, e := range x {
			n[i] = copyVal(e)
		}
		return n
	case TupleV:
		n := make(TupleV, len(x))
		for i, e := range x {
			n[i] = copyVal(e)
		}
		return n
	}
	return v
}

// storeInto writes v into the cell, preserving the identity of nested field cells.
func storeInto(dst *Value, v Value) {
	switch x := v.(type) {
	case StructV:
		if old, ok := (*dst).(StructV); ok && len(old) == len(x) {
			for i := range x {
				storeInto(&old[i], x[i])
			}
			return
		}
	case ArrayV:
		if old, ok := (*dst).(ArrayV); ok && len(old) == len(x) {
			for i := range x {
				storeInto(&old[i], x[i])
			}
			return
		}
	}
	*dst = copyVal(v)
}

// typeWidth returns the bit width of a basic scalar type (bool → 0), signedness, float-ness.
func typeWidth(t types.Type) (w int, signed bool, float bool, ok bool) {
	b, isB := t.Underlying().(*types.Basic)
	if !isB {
		return 0, false, false, false
	}
	switch b.Kind() {
	case types.Bool, types.UntypedBool:
		return 0, false, false, true
	case types.Int8:
		return 8, true, false, true
	case types.Int16:
		return 16, true, false, true
	case types.Int32, types.UntypedRune:
		return 32, true, false, true
	case types.Int64, types.Int, types.UntypedInt:
		return 64, true, false, true
	case types.Uint8:
		return 8, false, false, true
	case types.Uint16:
		return 16, false, false, true
	case types.Uint32:
		return 32, false, false, true
	case types.Uint64, types.Uint, types.Uintptr:
		return 64, false, false, true
	case types.Float32:
		return 32, true, true, true
	case types.Float64, types.UntypedFloat:
		return 64, true, true, true
	}
	return 0, false, false, false
}

func isString(t types.Type) bool {
	b, ok := t.Underlying().(*types.Basic)
	return ok && b.Info()&types.IsString != 0
}

// zero builds the zero value of a type.
func (m *Machine) zero(t types.Type) Value {
	switch u := t.Underlying().(type) {
	case *types.Basic:
		if u.Kind() == types.UnsafePointer {
			return Ptr{}
		}
		if u.Info()&types.IsString != 0 {
			return ""
		}
		if u.Kind() == types.UntypedNil {
			return Ptr{}
		}
		w, _, _, ok := typeWidth(t)
		if !ok {
			return Poison{"zero of " + t.String()}
		}
		if w == 0 {
			return m.ctx.False
		}
		return m.ctx.BV(0, w)
	case *types.Struct:
		s := make(StructV, u.NumFields())
		for i := range s {
			s[i] = m.zero(u.Field(i).Type())
		}
		return s
	case *types.Array:
		n := int(u.Len())
		if n > 1<<16 {
			return Poison{"huge array"}
		}
		a := make(ArrayV, n)
		for i := range a {
			a[i] = m.zero(u.Elem())
		}
		return a
	case *types.Pointer:
		return Ptr{}
	case *types.Slice:
		return SliceV{Nil: true}
	case *types.Map:
		return (*MapV)(nil)
	case *types.Chan:
		return (*ChanV)(nil)
	case *types.Interface:
		return IfaceV{}
	case *types.Signature:
		return FuncNil{}
	case *types.Tuple:
		tv := make(TupleV, u.Len())
		for i := range tv {
			tv[i] = m.zero(u.At(i).Type())
		}
		return tv
	}
	return Poison{"zero of " + t.String()}
}

// concStr returns the concrete Go string of a string value if every byte is constant.
func concStr(v Value) (string, bool) {
	switch s := v.(type) {
	case string:
		return s, true
	case SymStr:
		b := make([]byte, len(s))
		for i, t := range s {
			if !t.IsConst() {
				return "", false
			}
			b[i] = byte(t.C)
		}
		return string(b), true
	}
	return "", false
}

func (m *Machine) strBytes(v Value) []*smt.Term {
	switch s := v.(type) {
	case string:
		r := make([]*smt.Term, len(s))
		for i := 0; i < len(s); i++ {
			r[i] = m.ctx.BV(uint64(s[i]), 8)
		}
		return r
	case SymStr:
		return s
	}
	m.abort("unsupported", fmt.Sprintf("strBytes of %T", v))
	return nil
}

func normStr(b []*smt.Term) Value {
	bs := make([]byte, len(b))
	for i, t := range b {
		if !t.IsConst() {
			return SymStr(b)
		}
		bs[i] = byte(t.C)
	}
	return string(bs)
}

func strLen(v Value) int {
	switch s := v.(type) {
	case string:
		return len(s)
	case SymStr:
		return len(s)
	}
	return 0
}

// keyString serialises a fully concrete comparable value for map indexing; ok=false if symbolic.
func keyString(v Value) (string, bool) {
	switch x := v.(type) {
	case *smt.Term:
		if x.IsConst() {
			return fmt.Sprintf("n%d:%d", x.W, x.C), true
		}
		return "", false
	case string:
		return "s" + x, true
	case SymStr:
		s, ok := concStr(x)
		if ok {
			return "s" + s, true
		}
		return "", false
	case Ptr:
		return fmt.Sprintf("p%p", x.C), true
	case IfaceV:
		if x.T == nil {
			return "inil", true
		}
		k, ok := keyString(x.V)
		return "i" + x.T.String() + "|" + k, ok
	case StructV:
		var sb strings.Builder
		sb.WriteString("{")
		for _, f := range x {
			k, ok := keyString(f)
			if !ok {
				return "", false
			}
			sb.WriteString(k)
			sb.WriteString(";")
		}
		return sb.String(), true
	case ArrayV:
		var sb strings.Builder
		sb.WriteString("[")
		for _, f := range x {
			k, ok := keyString(f)
			if !ok {
				return "", false
			}
			sb.WriteString(k)
			sb.WriteString(";")
		}
		return sb.String(), true
	case *MapV:
		return fmt.Sprintf("m%p", x), true
	case *ChanV:
		return fmt.Sprintf("c%p", x), true
	case Native:
		return fmt.Sprintf("N%v", x.V), true
	}
	return "", false
}

func describe(v Value) string {
	switch x := v.(type) {
	case *smt.Term:
		return x.String()
	case Ptr:
		if x.C == nil {
			return "nil"
		}
		return fmt.Sprintf("&%p", x.C)
	}
	return fmt.Sprintf("%T", v)
}
