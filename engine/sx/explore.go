package sx

import (
	"fmt"
	"runtime/debug"
	"sort"
	"sync"
	"time"

	"golang.org/x/tools/go/ssa"

	"verif/engine/smt"
)

type Witness struct {
	Sched   []uint64
	Reached []string
	Vector  []uint64
	Observe map[string]uint64
	Outcome string // expected native outcome: ok
}

type HarnessResult struct {
	Name        string
	Paths       int
	Completed   int
	Infeasible  int
	Steps       int64
	Obligations int
	Discharged  int
	Trivial     int
	Unknown     int
	UnknownFeas int
	MaxAlloc    int
	Reached     map[string]int
	Witnesses   []Witness
	Violations  []Violation
	Aborts      map[string]int // "kind: msg" → count (unsupported / bound / internal)
	Queries     int
	SolverTime  time.Duration
	MaxQuery    time.Duration
	SolverErrs  []string
	Samples     []string
	Scripts     []string
	WallS       float64
	Exhausted   bool
	TimeBoxHit  bool // exploration stopped by the wall-clock time box (thorough tier): partial coverage
	Pending     int  // unexplored decision prefixes left when exploration stopped
	MaxDepthHit int
}

// Conclusive reports whether every path was explored to the end within bounds.
func (h *HarnessResult) Conclusive() bool {
	return h.Exhausted && len(h.Aborts) == 0 && h.Unknown == 0 && h.UnknownFeas == 0 && len(h.SolverErrs) == 0
}

type pathOutcome struct {
	m       *Machine
	kind    string // ok | infeasible | abort | panic
	abort   pathAbort
	witness *Witness
}

// Explore runs the harness over all feasible paths.
func (e *Engine) Explore(entry *ssa.Function, cfg Config) *HarnessResult {
	t0 := time.Now()
	res := &HarnessResult{Name: entry.Name(), Reached: map[string]int{}, Aborts: map[string]int{}}
	var mu sync.Mutex
	cond := sync.NewCond(&mu)
	work := [][]uint64{{}}
	active := 0
	started := 0
	stop := false
	violKeys := map[string]bool{}
	witnessed := map[string]bool{}

	worker := func() {
		sol, err := smt.NewSolver(cfg.SolverBin, cfg.TimeoutMs)
		if err != nil {
			mu.Lock()
			res.SolverErrs = append(res.SolverErrs, err.Error())
			mu.Unlock()
			return
		}
		sol.KeepLog = cfg.KeepLog
		defer func() {
			mu.Lock()
			res.Queries += sol.Queries
			res.SolverTime += sol.TotalTime
			if sol.MaxTime > res.MaxQuery {
				res.MaxQuery = sol.MaxTime
			}
			res.SolverErrs = append(res.SolverErrs, sol.Errors...)
			mu.Unlock()
			sol.Close()
		}()
		for {
			mu.Lock()
			for len(work) == 0 && active > 0 && !stop {
				cond.Wait()
			}
			if stop || (len(work) == 0 && active == 0) {
				mu.Unlock()
				cond.Broadcast()
				return
			}
			prefix := work[len(work)-1]
			work = work[:len(work)-1]
			if cfg.TimeBoxS > 0 && time.Since(t0).Seconds() > float64(cfg.TimeBoxS) {
				res.TimeBoxHit = true
			}
			if started >= cfg.MaxPaths || res.TimeBoxHit {
				stop = true
				work = append(work, prefix)
				mu.Unlock()
				cond.Broadcast()
				return
			}
			started++
			active++
			need := func(ids []string) bool {
				for _, id := range ids {
					if !witnessed[id] {
						return true
					}
				}
				return false
			}
			mu.Unlock()

			out := e.runPath(entry, &cfg, sol, prefix, nil, func(ids []string) bool {
				mu.Lock()
				defer mu.Unlock()
				return need(ids)
			})

			mu.Lock()
			active--
			m := out.m
			res.Paths++
			res.Steps += int64(m.steps)
			res.Obligations += m.obligations
			res.Discharged += m.discharged
			res.Trivial += m.trivial
			res.Unknown += m.unknown
			res.UnknownFeas += m.unknownFeas
			if m.maxAlloc > res.MaxAlloc {
				res.MaxAlloc = m.maxAlloc
			}
			if len(m.trace) > res.MaxDepthHit {
				res.MaxDepthHit = len(m.trace)
			}
			switch out.kind {
			case "ok", "panic":
				res.Completed++
				for _, ev := range m.events {
					if ev.Kind == "reach" {
						res.Reached[ev.Name]++
					}
				}
			case "infeasible":
				res.Infeasible++
			case "abort":
				res.Aborts[out.abort.Kind+": "+out.abort.Msg]++
			}
			if out.witness != nil {
				res.Witnesses = append(res.Witnesses, *out.witness)
				for _, id := range out.witness.Reached {
					witnessed[id] = true
				}
			}
			for _, v := range m.viols {
				k := v.Kind + "|" + v.Msg + "|" + v.Site + "|" + v.Known
				if v.Kind == "panic" {
					k = v.Kind + "|" + v.Site // run-time error texts carry concrete indices: one report per site
				}
				if !violKeys[k] {
					violKeys[k] = true
					res.Violations = append(res.Violations, v)
				}
			}
			for _, s := range m.samples {
				if len(res.Samples) < 6 {
					res.Samples = append(res.Samples, s)
				}
			}
			for _, s := range m.crossScripts {
				if len(res.Scripts) < 12 {
					res.Scripts = append(res.Scripts, s)
				}
			}
			work = append(work, m.work...)
			mu.Unlock()
			cond.Broadcast()
		}
	}
	n := cfg.Workers
	if n < 1 {
		n = 1
	}
	var wg sync.WaitGroup
	sols := make([]*smt.Solver, 0)
	_ = sols
	for i := 0; i < n; i++ {
		wg.Add(1)
		go func() { defer wg.Done(); worker() }()
	}
	wg.Wait()
	res.Exhausted = len(work) == 0 && !stop
	res.Pending = len(work)
	res.WallS = time.Since(t0).Seconds()
	sort.Slice(res.Violations, func(i, j int) bool { return res.Violations[i].Msg < res.Violations[j].Msg })
	return res
}

// RunConcrete executes the harness once with a fixed input vector and no solver.
func (e *Engine) RunConcrete(entry *ssa.Function, cfg Config, vector []uint64, sched ...uint64) (outcome string, msg string, reached []string, observed map[string]uint64) {
	e.concSched = sched
	out := e.runPath(entry, &cfg, nil, nil, vector, nil)
	e.concSched = nil
	observed = map[string]uint64{}
	for _, ev := range out.m.events {
		switch ev.Kind {
		case "reach":
			reached = append(reached, ev.Name)
		case "observe":
			if ev.T.IsConst() {
				observed[ev.Name] = ev.T.C
			}
		}
	}
	switch out.kind {
	case "ok":
		return "ok", "", reached, observed
	case "panic":
		return "panic", out.abort.Msg, reached, observed
	case "infeasible":
		if len(out.m.viols) > 0 {
			return "assert", out.m.viols[0].Msg, reached, observed
		}
		return "assume", "", reached, observed
	}
	return "abort:" + out.abort.Kind, out.abort.Msg, reached, observed
}

func (e *Engine) runPath(entry *ssa.Function, cfg *Config, sol *smt.Solver, prefix []uint64, vector []uint64, needWitness func([]string) bool) (out pathOutcome) {
	m := &Machine{E: e, Cfg: cfg, ctx: smt.NewCtx(), sol: sol, prefix: prefix, vector: vector,
		globals: map[*ssa.Global]*Value{}, initDone: map[*ssa.Package]bool{}, locals: map[string]Value{}}
	if vector == nil && sol == nil {
		m.vector = []uint64{}
	}
	if sol == nil {
		m.schedVector = e.concSched
	}
	defer m.killThreads()
	if sol != nil {
		sol.Reset()
		q0, t0 := sol.Queries, sol.TotalTime
		defer func() {
			_ = q0
			_ = t0
		}()
	}
	out.m = m
	defer func() {
		if r := recover(); r != nil {
			switch x := r.(type) {
			case pathAbort:
				if x.Kind == "infeasible" {
					out.kind = "infeasible"
				} else {
					out.kind = "abort"
					out.abort = x
				}
			case goPanic:
				out.kind = "panic"
				out.abort = pathAbort{"panic", x.Desc + " at " + x.Site}
				if sol != nil {
					m.recordViolation("panic", x.Desc, x.Site, "")
				} else {
					m.viols = append(m.viols, Violation{Kind: "panic", Msg: x.Desc, Site: x.Site})
				}
			default:
				out.kind = "abort"
				out.abort = pathAbort{"internal", fmt.Sprintf("%v\n%s", r, clip(string(debug.Stack()), 3000))}
			}
		}
	}()
	m.callFn(entry, nil, nil)
	out.kind = "ok"
	// witness for reach markers not yet witnessed
	if sol != nil && needWitness != nil {
		var ids []string
		for _, ev := range m.events {
			if ev.Kind == "reach" {
				ids = append(ids, ev.Name)
			}
		}
		if len(ids) > 0 && needWitness(ids) {
			r, model, _ := sol.Check(nil, m.modelVars())
			if r == smt.Sat {
				vec, _, _ := m.vectorFromModel(model)
				obs := map[string]uint64{}
				for _, ev := range m.events {
					if ev.Kind == "observe" {
						if v, ok := m.evalUnder(ev.T, model); ok {
							obs[ev.Name] = v
						}
					}
				}
				out.witness = &Witness{Reached: ids, Vector: vec, Observe: obs, Outcome: "ok", Sched: append([]uint64(nil), m.schedTrace...)}
			}
		}
	}
	return out
}

// SolverStats are accumulated by the caller from per-worker solvers; kept simple: each
// HarnessResult carries totals collected at worker exit.
