package sx

import (
	"fmt"
	"os"
	"go/token"
	"go/types"
	"sort"
	"strings"
	"sync"

	"golang.org/x/tools/go/ssa"

	"verif/engine/smt"
)

// Config holds per-harness exploration bounds.
type Config struct {
	SolverBin string
	TimeoutMs int
	Unwind    int // max visits of one loop header per frame activation
	MaxSteps  int // SSA instructions per path
	MaxPaths  int
	TimeBoxS  int // wall-clock cap of one harness' exploration in seconds (0 = none)
	MaxDepth  int // decisions per path
	AllocCap  int // max elements for make/append with symbolic size
	Preempt   int // zzverif.Par: max preemptive context switches per path (-1: unlimited)
	Workers   int
	Thorough  bool
	KeepLog   bool
}

type Intrinsic func(m *Machine, fn *ssa.Function, args []Value) Value

// Engine is shared, immutable during exploration.
type Engine struct {
	Prog       *ssa.Program
	Intrinsics map[string]Intrinsic
	Redirects  map[string]*ssa.Function
	ModulePath string

	mu        sync.Mutex
	concSched []uint64        // schedule for RunConcrete
	AuxZero   bool            // concrete mode: auxiliary (environment) choices read as 0 instead of aborting
	FuncsSeen map[string]bool // functions whose SSA body was executed
	StubsSeen map[string]bool // intrinsics / stubs hit
}

func NewEngine(prog *ssa.Program, module string) *Engine {
	e := &Engine{Prog: prog, ModulePath: module, Redirects: map[string]*ssa.Function{},
		FuncsSeen: map[string]bool{}, StubsSeen: map[string]bool{}}
	e.Intrinsics = builtinIntrinsics()
	return e
}

type NondetRec struct {
	Name string
	W    int
	T    *smt.Term
}

type Event struct {
	Kind string // reach | observe
	Name string
	T    *smt.Term // observe value
}

type Violation struct {
	Kind    string // assert | panic
	Msg     string
	Site    string
	Known   string // known-finding tag if the violation matches a declared signature
	Vector  []uint64
	Names   []string
	Widths  []int
	Prefix  []uint64
	Sched   []uint64 // schedule decisions of zzverif.Par (thread index among the runnable ones, per visible step)
	Observe map[string]uint64
}

type abortKind string

type pathAbort struct {
	Kind string // infeasible | unsupported | bound | internal
	Msg  string
}

type goPanic struct {
	V    Value
	Desc string
	Site string
}

// Machine executes one path.
type Machine struct {
	E   *Engine
	Cfg *Config
	ctx *smt.Ctx
	sol *smt.Solver

	prefix []uint64
	trace  []uint64
	work   [][]uint64

	vector  []uint64 // concrete mode: values for nondets
	nondets []NondetRec
	events  []Event
	viols   []Violation

	globals  map[*ssa.Global]*Value
	initDone map[*ssa.Package]bool
	inInit   int

	steps        int
	obligations  int
	discharged   int
	trivial      int
	unknown      int
	unknownFeas  int
	maxAlloc     int
	stack        []*frame
	expectPanic  bool
	samples      []string
	crossScripts []string
	locals       map[string]Value // per-path scratch for harness-side models (intrinsics)
	nameSeq      int
	lastPos      token.Pos
	canonCache   map[int]*smt.Term
	auxVars      []*smt.Term
	floorCache   map[string]*smt.Term
	timeStrs     []*smt.Term // instants behind formatted-time tokens
	multiples    []multipleOf
	conc         *concState
	schedVector  []uint64
	schedPos     int
	schedTrace   []uint64
}

func (m *Machine) abort(kind, msg string) {
	panic(pathAbort{kind, msg})
}

func (m *Machine) unsupported(msg string) {
	where := ""
	if len(m.stack) > 0 {
		fr := m.stack[len(m.stack)-1]
		where = " in " + fr.fn.String() + " @" + m.E.Prog.Fset.Position(m.lastPos).String()
	}
	m.abort("unsupported", msg+where)
}

func (m *Machine) pos() string {
	return m.E.Prog.Fset.Position(m.lastPos).String()
}

func (m *Machine) goPanic(desc string) {
	panic(goPanic{V: desc, Desc: desc, Site: m.pos()})
}

// assume adds c to the path condition.
func (m *Machine) assume(c *smt.Term) {
	if c.IsTrue() {
		return
	}
	if c.IsFalse() {
		m.abort("infeasible", "assume false")
	}
	if m.sol != nil {
		m.sol.Assert(c)
	}
}

func (m *Machine) check(extras ...*smt.Term) smt.Result {
	for _, e := range extras {
		if e.IsFalse() {
			return smt.Unsat
		}
	}
	if m.sol == nil {
		// concrete mode: everything constant
		return smt.Sat
	}
	r, _, _ := m.sol.Check(extras, nil)
	return r
}

// choose selects one of mutually exclusive, jointly exhaustive alternatives.
func (m *Machine) choose(conds []*smt.Term) int {
	nonFalse := -1
	cnt := 0
	for i, c := range conds {
		if c.IsTrue() {
			return i
		}
		if !c.IsFalse() {
			nonFalse = i
			cnt++
		}
	}
	if cnt == 0 {
		m.abort("infeasible", "no alternative")
	}
	if cnt == 1 {
		m.assume(conds[nonFalse])
		return nonFalse
	}
	if m.sol == nil {
		m.abort("internal", "symbolic choice in concrete mode")
	}
	d := len(m.trace)
	if d < len(m.prefix) {
		k := int(m.prefix[d])
		m.trace = append(m.trace, uint64(k))
		m.assume(conds[k])
		return k
	}
	if d >= m.Cfg.MaxDepth {
		m.abort("bound", fmt.Sprintf("decision depth %d exceeded", m.Cfg.MaxDepth))
	}
	var feas []int
	remaining := cnt
	for i, c := range conds {
		if c.IsFalse() {
			continue
		}
		remaining--
		if remaining == 0 && len(feas) == 0 {
			// all others infeasible and the path is feasible: this one must be
			feas = append(feas, i)
			break
		}
		r := m.check(c)
		if r == smt.Sat {
			feas = append(feas, i)
		} else if r == smt.Unknown {
			m.unknownFeas++
			feas = append(feas, i)
		}
	}
	if len(feas) == 0 {
		m.abort("infeasible", "no feasible alternative")
	}
	for _, k := range feas[1:] {
		w := make([]uint64, d+1)
		copy(w, m.trace)
		w[d] = uint64(k)
		m.work = append(m.work, w)
	}
	k := feas[0]
	m.trace = append(m.trace, uint64(k))
	m.assume(conds[k])
	return k
}

func (m *Machine) branch(c *smt.Term) bool {
	if c.IsConst() {
		return c.C == 1
	}
	return m.choose([]*smt.Term{c, m.ctx.Not(c)}) == 0
}

// concretize picks a concrete value for t, forking over all feasible values (at most max).
func (m *Machine) concretize(t *smt.Term, max int, what string) uint64 {
	if t.IsConst() {
		return t.C
	}
	if m.sol == nil {
		m.abort("internal", "symbolic value in concrete mode")
	}
	d := len(m.trace)
	if d < len(m.prefix) {
		v := m.prefix[d]
		m.trace = append(m.trace, v)
		m.assume(m.ctx.Eq(t, m.ctx.BV(v, t.W)))
		return v
	}
	if d >= m.Cfg.MaxDepth {
		m.abort("bound", fmt.Sprintf("decision depth %d exceeded", m.Cfg.MaxDepth))
	}
	var vals []uint64
	var excl []*smt.Term
	probe := m.ctx.Var(fmt.Sprintf("probe%d", m.nameSeq), t.W)
	m.nameSeq++
	eq := m.ctx.Eq(probe, t)
	for {
		r, model, _ := m.sol.Check(append([]*smt.Term{eq}, excl...), []*smt.Term{probe})
		if r == smt.Unsat {
			break
		}
		if r == smt.Unknown {
			m.abort("bound", "solver unknown while enumerating values of "+what)
		}
		if len(vals) >= max {
			m.abort("bound", fmt.Sprintf("more than %d feasible values for %s", max, what))
		}
		v := model[probe.Name]
		vals = append(vals, v)
		excl = append(excl, m.ctx.Not(m.ctx.Eq(t, m.ctx.BV(v, t.W))))
	}
	if len(vals) == 0 {
		m.abort("infeasible", "no value")
	}
	sort.Slice(vals, func(i, j int) bool { return vals[i] < vals[j] })
	for _, v := range vals[1:] {
		w := make([]uint64, d+1)
		copy(w, m.trace)
		w[d] = v
		m.work = append(m.work, w)
	}
	m.trace = append(m.trace, vals[0])
	m.assume(m.ctx.Eq(t, m.ctx.BV(vals[0], t.W)))
	return vals[0]
}

// nondet creates (or, in concrete mode, reads) the next input.
func (m *Machine) nondet(name string, w int) *smt.Term {
	if name == "maporder" || strings.HasPrefix(name, "aux:") {
		// auxiliary choice (map iteration order, havoc stubs): not part of the replay vector
		if m.vector != nil {
			if name == "maporder" {
				return m.ctx.BV(0, w)
			}
			if m.E.AuxZero {
				return m.ctx.BV(0, w) // model re-execution: environment choices default to 0
			}
			m.abort("unsupported", "havoc stub "+name+" reached in concrete mode")
		}
		m.nameSeq++
		return m.ctx.Var(fmt.Sprintf("aux%d_%s", m.nameSeq, sanitize(name)), w)
	}
	k := len(m.nondets)
	var t *smt.Term
	if m.vector != nil {
		var v uint64
		if k < len(m.vector) {
			v = m.vector[k]
		}
		if w == 0 {
			t = m.ctx.Bool(v&1 == 1)
		} else {
			t = m.ctx.BV(v, w)
		}
	} else {
		t = m.ctx.Var(fmt.Sprintf("in%d_%s", k, sanitize(name)), w)
	}
	m.nondets = append(m.nondets, NondetRec{name, w, t})
	return t
}

func sanitize(s string) string {
	var sb strings.Builder
	for _, r := range s {
		if r >= 'a' && r <= 'z' || r >= 'A' && r <= 'Z' || r >= '0' && r <= '9' || r == '_' {
			sb.WriteRune(r)
		} else {
			sb.WriteByte('_')
		}
	}
	return sb.String()
}

func (m *Machine) modelVars() []*smt.Term {
	var vs []*smt.Term
	for _, n := range m.nondets {
		if !n.T.IsConst() {
			vs = append(vs, n.T)
		}
	}
	vs = append(vs, m.auxVars...)
	return vs
}

func (m *Machine) vectorFromModel(model map[string]uint64) ([]uint64, []string, []int) {
	vec := make([]uint64, len(m.nondets))
	names := make([]string, len(m.nondets))
	ws := make([]int, len(m.nondets))
	for i, n := range m.nondets {
		names[i] = n.Name
		ws[i] = n.W
		if n.T.IsConst() {
			vec[i] = n.T.C
		} else {
			vec[i] = model[n.T.Name]
		}
	}
	return vec, names, ws
}

// evalUnder evaluates a term under a model of the nondet variables (constant folding by
// rebuilding the term with substituted leaves).
func (m *Machine) evalUnder(t *smt.Term, model map[string]uint64) (uint64, bool) {
	if v, ok := smt.Eval(t, model); ok {
		return v, true
	}
	memo := map[int]*smt.Term{}
	var rec func(x *smt.Term) *smt.Term
	rec = func(x *smt.Term) *smt.Term {
		if r, ok := memo[x.ID]; ok {
			return r
		}
		var r *smt.Term
		switch x.Op {
		case "c":
			r = x
		case "v":
			v, ok := model[x.Name]
			if !ok {
				v = 0
			}
			if x.W == 0 {
				r = m.ctx.Bool(v == 1)
			} else {
				r = m.ctx.BV(v, x.W)
			}
		default:
			args := make([]*smt.Term, len(x.Args))
			for i, a := range x.Args {
				args[i] = rec(a)
			}
			r = m.rebuild(x, args)
		}
		memo[x.ID] = r
		return r
	}
	r := rec(t)
	if r.IsConst() {
		return r.C, true
	}
	return 0, false
}

func (m *Machine) rebuild(x *smt.Term, a []*smt.Term) *smt.Term {
	c := m.ctx
	switch x.Op {
	case "not":
		return c.Not(a[0])
	case "and":
		return c.And(a[0], a[1])
	case "or":
		return c.Or(a[0], a[1])
	case "=":
		return c.Eq(a[0], a[1])
	case "ite":
		return c.Ite(a[0], a[1], a[2])
	case "bvadd":
		return c.Add(a[0], a[1])
	case "bvsub":
		return c.Sub(a[0], a[1])
	case "bvmul":
		return c.Mul(a[0], a[1])
	case "bvnot":
		return c.BvNot(a[0])
	case "bvand":
		return c.BvAnd(a[0], a[1])
	case "bvor":
		return c.BvOr(a[0], a[1])
	case "bvxor":
		return c.BvXor(a[0], a[1])
	case "bvshl":
		return c.Shl(a[0], a[1])
	case "bvlshr":
		return c.Lshr(a[0], a[1])
	case "bvashr":
		return c.Ashr(a[0], a[1])
	case "bvudiv":
		return c.Udiv(a[0], a[1])
	case "bvurem":
		return c.Urem(a[0], a[1])
	case "bvsdiv":
		return c.Sdiv(a[0], a[1])
	case "bvsrem":
		return c.Srem(a[0], a[1])
	case "bvult":
		return c.Ult(a[0], a[1])
	case "bvule":
		return c.Ule(a[0], a[1])
	case "bvslt":
		return c.Slt(a[0], a[1])
	case "bvsle":
		return c.Sle(a[0], a[1])
	case "concat":
		return c.Concat(a[0], a[1])
	case "extract":
		return c.Extract(a[0], x.P[0], x.P[1])
	case "zext":
		return c.Zext(a[0], x.W)
	case "sext":
		return c.Sext(a[0], x.W)
	case "fp.add", "fp.sub", "fp.mul", "fp.div":
		return c.FpBin(x.Op, a[0], a[1])
	case "fp.lt", "fp.leq", "fp.gt", "fp.geq", "fp.eq":
		return c.FpCmp(x.Op, a[0], a[1])
	case "fp.isNaN":
		return c.FpIsNaN(a[0])
	case "to_fp_s":
		return c.IntToFp(a[0], true, x.W)
	case "to_fp_u":
		return c.IntToFp(a[0], false, x.W)
	case "fp.to_sbv":
		return c.FpToInt(a[0], true, x.W)
	case "fp.to_ubv":
		return c.FpToInt(a[0], false, x.W)
	case "fp.to_fp":
		return c.FpToFp(a[0], x.W)
	case "dec":
		return c.Decimal(a[0], x.P[0])
	case "uf":
		return c.UF(x.Name, x.W, a...)
	}
	panic("rebuild: " + x.Op)
}

// recordViolation asks for a model of pc ∧ extras and stores it.
func (m *Machine) recordViolation(kind, msg, site, known string, extras ...*smt.Term) bool {
	var model map[string]uint64
	if m.sol != nil {
		r, mod, script := m.sol.Check(extras, m.modelVars())
		if r == smt.Unsat {
			return false
		}
		if r == smt.Unknown {
			m.unknown++
			return false
		}
		model = mod
		if script != "" && len(m.crossScripts) < 4 {
			m.crossScripts = append(m.crossScripts, script)
		}
	}
	vec, names, ws := m.vectorFromModel(model)
	obs := map[string]uint64{}
	for _, e := range m.events {
		if e.Kind == "observe" {
			if v, ok := m.evalUnder(e.T, model); ok {
				obs[e.Name] = v
			}
		}
	}
	pf := append([]uint64(nil), m.trace...)
	m.viols = append(m.viols, Violation{Kind: kind, Msg: msg, Site: site, Known: known, Vector: vec, Names: names, Widths: ws, Prefix: pf, Observe: obs, Sched: append([]uint64(nil), m.schedTrace...)})
	return true
}

// assertProp is the property oracle: pc ∧ ¬c must be unsat.
func (m *Machine) assertProp(c *smt.Term, msg string, knownTag string, sig *smt.Term) {
	m.obligations++
	if c.IsTrue() {
		m.trivial++
		m.discharged++
		return
	}
	nc := m.ctx.Not(c)
	site := m.callerPos()
	if m.sol == nil {
		// concrete mode
		if c.IsFalse() {
			m.viols = append(m.viols, Violation{Kind: "assert", Msg: msg, Site: site})
			m.abort("infeasible", "assert failed (concrete)")
		}
		return
	}
	var r smt.Result
	var script string
	if knownTag != "" && sig != nil {
		// a violation outside the declared signature is a new violation
		r, _, script = m.sol.Check([]*smt.Term{nc, m.ctx.Not(sig)}, nil)
		if r == smt.Sat {
			m.recordViolation("assert", msg, site, "", nc, m.ctx.Not(sig))
		} else if r == smt.Unknown {
			m.unknown++
		}
		r2, _, _ := m.sol.Check([]*smt.Term{nc, sig}, nil)
		if r2 == smt.Sat {
			m.recordViolation("assert", msg, site, knownTag, nc, sig)
		} else if r2 == smt.Unknown {
			m.unknown++
		}
		if r == smt.Unsat && r2 == smt.Unsat {
			m.discharged++
		}
	} else {
		r, _, script = m.sol.Check([]*smt.Term{nc}, nil)
		switch r {
		case smt.Unsat:
			m.discharged++
		case smt.Sat:
			m.recordViolation("assert", msg, site, "", nc)
		default:
			m.unknown++
		}
	}
	if len(m.samples) < 3 {
		m.samples = append(m.samples, fmt.Sprintf("%s: assert %q at %s: pc∧¬(%s) → %s", m.curFn(), msg, site, clip(c.String(), 160), r))
	}
	if script != "" && len(m.crossScripts) < 4 {
		m.crossScripts = append(m.crossScripts, script)
	}
	m.assume(c)
}

func clip(s string, n int) string {
	if len(s) > n {
		return s[:n] + "…"
	}
	return s
}

func (m *Machine) curFn() string {
	if len(m.stack) == 0 {
		return "?"
	}
	return m.stack[0].fn.Name()
}

func (m *Machine) callerPos() string {
	// position of the innermost call instruction being executed
	return m.pos()
}

// ---- globals & package init ----

func (m *Machine) global(g *ssa.Global) *Value {
	if c, ok := m.globals[g]; ok {
		return c
	}
	if g.Pkg != nil {
		m.ensureInit(g.Pkg)
	}
	if c, ok := m.globals[g]; ok {
		return c
	}
	c := new(Value)
	*c = m.zero(g.Type().(*types.Pointer).Elem())
	m.globals[g] = c
	return c
}

// ensureInit runs the package initialiser (variable initialisers and init funcs) once per
// path, lazily, skipping calls into other packages' init (they run lazily too). Unsupported
// operations inside an initialiser poison the value instead of aborting the path.
func (m *Machine) ensureInit(p *ssa.Package) {
	if m.initDone[p] {
		return
	}
	m.initDone[p] = true
	// allocate all globals first
	for _, mem := range p.Members {
		if g, ok := mem.(*ssa.Global); ok {
			if _, ok := m.globals[g]; !ok {
				c := new(Value)
				*c = m.zero(g.Type().(*types.Pointer).Elem())
				m.globals[g] = c
			}
		}
	}
	init := p.Func("init")
	if init == nil || init.Blocks == nil {
		return
	}
	if !m.wantInit(p) {
		return
	}
	m.inInit++
	savedStack := m.stack
	func() {
		defer func() {
			m.inInit--
			m.stack = savedStack
			if r := recover(); r != nil {
				if debugInit {
					fmt.Fprintf(os.Stderr, "init-abort: %s: %v\n", p.Pkg.Path(), r)
				}
				switch x := r.(type) {
				case pathAbort:
					if x.Kind == "unsupported" || x.Kind == "bound" {
						return // partially initialised package; poisoned globals stay zero
					}
					panic(r)
				case goPanic:
					return
				default:
					panic(r)
				}
			}
		}()
		m.runFunction(init, nil, nil)
	}()
}

// wantInit: run initialisers only for the module under test, the harness support package and a
// small set of standard packages whose package-level variables are plain data.
func (m *Machine) wantInit(p *ssa.Package) bool {
	path := p.Pkg.Path()
	if strings.HasPrefix(path, m.E.ModulePath) {
		return true
	}
	switch path {
	case "errors", "io", "io/fs", "sort", "strconv", "bytes", "strings", "unicode/utf8", "encoding/binary", "math", "math/bits",
		"container/heap", "context", "time", "os", "syscall", "github.com/pkg/errors", "go.uber.org/multierr", "sync", "sync/atomic",
		"hash/crc32", "path/filepath", "slices", "maps", "cmp":
		return true
	}
	return false
}
