package sx

import (
	"fmt"
	"go/token"
	"go/types"
	"math"

	"golang.org/x/tools/go/ssa"

	"verif/engine/smt"
)

func (m *Machine) floatConst(f float64, w int) *smt.Term {
	if w == 32 {
		return m.ctx.BV(uint64(math.Float32bits(float32(f))), 32)
	}
	return m.ctx.BV(math.Float64bits(f), 64)
}

func (m *Machine) binop(op token.Token, xt types.Type, x, y Value, yt types.Type) Value {
	c := m.ctx
	if _, _, fl, ok := typeWidth(xt); ok && fl && (op == token.EQL || op == token.NEQ) {
		// IEEE equality: NaN != NaN, -0 == +0
		eq := c.FpCmp("fp.eq", x.(*smt.Term), y.(*smt.Term))
		if op == token.NEQ {
			return c.Not(eq)
		}
		return eq
	}
	switch op {
	case token.EQL:
		return m.equal(x, y)
	case token.NEQ:
		return c.Not(m.equal(x, y))
	}
	if isString(xt) {
		switch op {
		case token.ADD:
			xs, xok := x.(string)
			ys, yok := y.(string)
			if xok && yok {
				return xs + ys
			}
			return normStr(append(append([]*smt.Term{}, m.strBytes(x)...), m.strBytes(y)...))
		case token.LSS:
			return m.strLess(x, y, false)
		case token.LEQ:
			return m.strLess(x, y, true)
		case token.GTR:
			return m.strLess(y, x, false)
		case token.GEQ:
			return m.strLess(y, x, true)
		}
	}
	a, ok1 := x.(*smt.Term)
	b, ok2 := y.(*smt.Term)
	if !ok1 || !ok2 {
		if p, ok := x.(Poison); ok {
			m.unsupported("binop on poisoned value: " + p.Why)
		}
		if p, ok := y.(Poison); ok {
			m.unsupported("binop on poisoned value: " + p.Why)
		}
		m.unsupported(fmt.Sprintf("binop %s on %T,%T", op, x, y))
	}
	w, signed, fl, _ := typeWidth(xt)
	if fl {
		switch op {
		case token.ADD:
			return c.FpBin("fp.add", a, b)
		case token.SUB:
			return c.FpBin("fp.sub", a, b)
		case token.MUL:
			return c.FpBin("fp.mul", a, b)
		case token.QUO:
			return c.FpBin("fp.div", a, b)
		case token.LSS:
			return c.FpCmp("fp.lt", a, b)
		case token.LEQ:
			return c.FpCmp("fp.leq", a, b)
		case token.GTR:
			return c.FpCmp("fp.gt", a, b)
		case token.GEQ:
			return c.FpCmp("fp.geq", a, b)
		}
		m.unsupported("float binop " + op.String())
	}
	if w == 0 { // bool
		switch op {
		case token.AND, token.LAND:
			return c.And(a, b)
		case token.OR, token.LOR:
			return c.Or(a, b)
		}
		m.unsupported("bool binop " + op.String())
	}
	switch op {
	case token.ADD:
		return c.Add(a, b)
	case token.SUB:
		return c.Sub(a, b)
	case token.MUL:
		return c.Mul(a, b)
	case token.QUO, token.REM:
		if m.branch(c.Eq(b, c.BV(0, b.W))) {
			m.goPanic("integer divide by zero")
		}
		if op == token.REM && b.IsConst() && b.C != 0 && !a.IsConst() && m.isMultiple(a, b.C) {
			return c.BV(0, a.W) // dividend is a known multiple of the constant divisor (calendar model)
		}
		if op == token.QUO {
			if signed {
				return c.Sdiv(a, b)
			}
			return c.Udiv(a, b)
		}
		if signed {
			return c.Srem(a, b)
		}
		return c.Urem(a, b)
	case token.AND:
		return c.BvAnd(a, b)
	case token.OR:
		return m.canon(c.BvOr(a, b))
	case token.XOR:
		return m.canon(c.BvXor(a, b))
	case token.AND_NOT:
		return c.BvAnd(a, c.BvNot(b))
	case token.SHL, token.SHR:
		_, ysigned, _, _ := typeWidth(yt)
		if ysigned && !b.IsConst() {
			if m.branch(c.Slt(b, c.BV(0, b.W))) {
				m.goPanic("negative shift amount")
			}
		} else if ysigned && b.SignedVal() < 0 {
			m.goPanic("negative shift amount")
		}
		// bring the amount to the operand width, saturating
		var amt *smt.Term
		if b.W == w {
			amt = b
		} else if b.W < w {
			amt = c.Zext(b, w)
		} else {
			over := c.Ule(c.BV(uint64(w), b.W), b)
			amt = c.Ite(over, c.BV(uint64(w), w), c.Extract(b, w-1, 0))
		}
		if op == token.SHL {
			return c.Shl(a, amt)
		}
		if signed {
			return c.Ashr(a, amt)
		}
		return c.Lshr(a, amt)
	case token.LSS:
		if signed {
			return c.Slt(a, b)
		}
		return c.Ult(a, b)
	case token.LEQ:
		if signed {
			return c.Sle(a, b)
		}
		return c.Ule(a, b)
	case token.GTR:
		if signed {
			return c.Slt(b, a)
		}
		return c.Ult(b, a)
	case token.GEQ:
		if signed {
			return c.Sle(b, a)
		}
		return c.Ule(b, a)
	}
	m.unsupported("binop " + op.String())
	return nil
}

func (m *Machine) strLess(x, y Value, orEq bool) *smt.Term {
	if xs, ok := x.(string); ok {
		if ys, ok := y.(string); ok {
			if orEq {
				return m.ctx.Bool(xs <= ys)
			}
			return m.ctx.Bool(xs < ys)
		}
	}
	return m.bytesLess(m.strBytes(x), m.strBytes(y), orEq)
}

// bytesLess builds the lexicographic comparison term.
func (m *Machine) bytesLess(a, b []*smt.Term, orEq bool) *smt.Term {
	c := m.ctx
	n := len(a)
	if len(b) < n {
		n = len(b)
	}
	// result when common prefix is equal
	var res *smt.Term
	if len(a) < len(b) {
		res = c.True
	} else if len(a) == len(b) {
		res = c.Bool(orEq)
	} else {
		res = c.False
	}
	for i := n - 1; i >= 0; i-- {
		res = c.Ite(c.Ult(a[i], b[i]), c.True, c.Ite(c.Ult(b[i], a[i]), c.False, res))
	}
	return res
}

// bytesCompare builds an int term: -1, 0, 1.
func (m *Machine) bytesCompare(a, b []*smt.Term) *smt.Term {
	c := m.ctx
	lt := m.bytesLess(a, b, false)
	gt := m.bytesLess(b, a, false)
	return c.Ite(lt, c.BV(^uint64(0), 64), c.Ite(gt, c.BV(1, 64), c.BV(0, 64)))
}

func (m *Machine) bytesEqual(a, b []*smt.Term) *smt.Term {
	if len(a) != len(b) {
		return m.ctx.False
	}
	r := m.ctx.True
	for i := range a {
		r = m.ctx.And(r, m.ctx.Eq(a[i], b[i]))
	}
	return r
}

func (m *Machine) sliceBytes(v Value) []*smt.Term {
	s, ok := v.(SliceV)
	if !ok {
		m.unsupported(fmt.Sprintf("sliceBytes of %T", v))
	}
	r := make([]*smt.Term, len(s.A))
	for i, e := range s.A {
		if bo, isView := e.(ByteOf); isView {
			r[i] = m.byteOf(bo)
			continue
		}
		t, ok := e.(*smt.Term)
		if !ok {
			m.unsupported(fmt.Sprintf("sliceBytes element %T", e))
		}
		r[i] = t
	}
	return r
}

// ByteOf is byte I (little endian) of the 64-bit word currently stored in cell C.
type ByteOf struct {
	C *Value
	I int
}

func (m *Machine) byteOf(b ByteOf) *smt.Term {
	t, ok := (*b.C).(*smt.Term)
	if !ok || t.W != 64 {
		m.unsupported("byte view of a non-word cell")
	}
	return m.ctx.Extract(t, 8*b.I+7, 8*b.I)
}

func (m *Machine) bytesToSlice(b []*smt.Term) SliceV {
	a := make([]Value, len(b))
	for i, t := range b {
		a[i] = t
	}
	return SliceV{A: a}
}

// equal implements Go's == on comparable values, returning a Bool term.
func (m *Machine) equal(x, y Value) *smt.Term {
	c := m.ctx
	switch a := x.(type) {
	case *smt.Term:
		b, ok := y.(*smt.Term)
		if !ok {
			m.unsupported(fmt.Sprintf("== of term and %T", y))
		}
		if a.W != b.W {
			m.unsupported("== width mismatch")
		}
		return c.Eq(a, b)
	case string, SymStr:
		if xs, ok := x.(string); ok {
			if ys, ok := y.(string); ok {
				return c.Bool(xs == ys)
			}
		}
		return m.bytesEqual(m.strBytes(x), m.strBytes(y))
	case Ptr:
		switch b := y.(type) {
		case Ptr:
			return c.Bool(a.C == b.C)
		}
	case SliceV: // only comparison with nil is legal
		if b, ok := y.(SliceV); ok {
			if b.Nil && cap(b.A) == 0 {
				return c.Bool(a.Nil)
			}
			if a.Nil && cap(a.A) == 0 {
				return c.Bool(b.Nil)
			}
		}
	case *MapV:
		b, _ := y.(*MapV)
		return c.Bool(a == b)
	case *ChanV:
		b, _ := y.(*ChanV)
		return c.Bool(a == b)
	case FuncNil:
		_, ok := y.(FuncNil)
		return c.Bool(ok)
	case *ssa.Function, *ClosureV, NoopFunc:
		if _, ok := y.(FuncNil); ok {
			return c.False
		}
	case IfaceV:
		b, ok := y.(IfaceV)
		if !ok {
			m.unsupported(fmt.Sprintf("== of iface and %T", y))
		}
		if a.T == nil || b.T == nil {
			return c.Bool(a.T == nil && b.T == nil)
		}
		if !types.Identical(a.T, b.T) {
			return c.False
		}
		return m.equal(a.V, b.V)
	case StructV:
		b := y.(StructV)
		r := c.True
		for i := range a {
			r = c.And(r, m.equal(a[i], b[i]))
		}
		return r
	case ArrayV:
		b := y.(ArrayV)
		r := c.True
		for i := range a {
			r = c.And(r, m.equal(a[i], b[i]))
		}
		return r
	case Native:
		b, ok := y.(Native)
		return c.Bool(ok && a.V == b.V)
	case Poison:
		m.unsupported("== on poisoned value: " + a.Why)
	}
	m.unsupported(fmt.Sprintf("== of %T and %T", x, y))
	return nil
}

func (m *Machine) convert(from, to types.Type, x Value) Value {
	c := m.ctx
	fu, tu := from.Underlying(), to.Underlying()
	// pointers / unsafe
	if _, ok := tu.(*types.Pointer); ok {
		return x
	}
	if tb, ok := tu.(*types.Basic); ok && tb.Kind() == types.UnsafePointer {
		return x
	}
	if fb, ok := fu.(*types.Basic); ok && fb.Kind() == types.UnsafePointer {
		return x
	}
	// string conversions
	if isString(to) {
		switch v := x.(type) {
		case string, SymStr:
			return v
		case SliceV: // []byte or []rune → string
			if el, ok := fu.(*types.Slice); ok {
				if w, _, _, _ := typeWidth(el.Elem()); w == 8 {
					return normStr(m.sliceBytes(v))
				}
				// []rune
				var rs []rune
				for _, e := range v.A {
					t := e.(*smt.Term)
					if !t.IsConst() {
						m.unsupported("string(symbolic runes)")
					}
					rs = append(rs, rune(t.SignedVal()))
				}
				return string(rs)
			}
		case *smt.Term: // string(rune)
			if v.IsConst() {
				return string(rune(v.SignedVal()))
			}
			m.unsupported("string(symbolic rune)")
		}
		m.unsupported(fmt.Sprintf("convert %T to string", x))
	}
	if isString(from) {
		if sl, ok := tu.(*types.Slice); ok {
			if w, _, _, _ := typeWidth(sl.Elem()); w == 8 {
				b := m.strBytes(x)
				return m.bytesToSlice(append([]*smt.Term{}, b...))
			}
			s, ok := concStr(x)
			if !ok {
				m.unsupported("[]rune(symbolic string)")
			}
			var a []Value
			for _, r := range s {
				a = append(a, c.BV(uint64(r), 32))
			}
			return SliceV{A: a}
		}
	}
	if _, ok := tu.(*types.Slice); ok {
		return x
	}
	t, ok := x.(*smt.Term)
	if !ok {
		if p, ok := x.(Poison); ok {
			m.unsupported("convert of poisoned value: " + p.Why)
		}
		return x
	}
	fw, fsigned, ffl, ok1 := typeWidth(from)
	tw, tsigned, tfl, ok2 := typeWidth(to)
	if !ok1 || !ok2 {
		m.unsupported("convert " + from.String() + " → " + to.String())
	}
	switch {
	case ffl && tfl:
		return c.FpToFp(t, tw)
	case ffl && !tfl:
		return m.fpToInt(t, tsigned, tw)
	case !ffl && tfl:
		return c.IntToFp(t, fsigned, tw)
	}
	if tw == fw {
		return t
	}
	if tw < fw {
		return c.Extract(t, tw-1, 0)
	}
	if fsigned {
		return c.Sext(t, tw)
	}
	return c.Zext(t, tw)
}

// fpToInt models Go on amd64: truncation toward zero; NaN and out-of-range give the
// "integer indefinite" value 0x8000… for signed 64/32-bit targets. Narrower or unsigned
// targets with out-of-range inputs are implementation-specific: the path is abandoned as
// unsupported if such an input is feasible.
func (m *Machine) fpToInt(t *smt.Term, signed bool, w int) *smt.Term {
	c := m.ctx
	if t.IsConst() {
		return c.FpToInt(t, signed, w)
	}
	if signed && (w == 64 || w == 32) && t.W == 64 {
		lim := math.Ldexp(1, w-1)
		inRange := c.And(c.FpCmp("fp.geq", t, m.floatConst(-lim, 64)), c.FpCmp("fp.lt", t, m.floatConst(lim, 64)))
		return c.Ite(inRange, c.FpToInt(t, true, w), c.BV(uint64(1)<<uint(w-1), w))
	}
	// unsigned / narrow: require in-range
	var lo, hi float64
	if signed {
		lo, hi = -math.Ldexp(1, w-1), math.Ldexp(1, w-1)
	} else {
		lo, hi = 0, math.Ldexp(1, w)
	}
	var inRange *smt.Term
	if t.W == 64 {
		inRange = c.And(c.FpCmp("fp.gt", t, m.floatConst(lo-1, 64)), c.FpCmp("fp.lt", t, m.floatConst(hi, 64)))
	} else {
		inRange = c.And(c.FpCmp("fp.gt", t, m.floatConst(lo-1, 32)), c.FpCmp("fp.lt", t, m.floatConst(hi, 32)))
	}
	if !m.branch(inRange) {
		m.unsupported("float→int conversion with out-of-range input (implementation-specific result)")
	}
	return c.FpToInt(t, signed, w)
}

// ---- maps ----

func (m *Machine) mapFind(mp *MapV, k Value) int {
	if mp == nil {
		return -1
	}
	if ks, ok := keyString(k); ok {
		if i, ok := mp.idx[ks]; ok {
			return i
		}
		// concrete key may still equal a symbolic stored key
		for i, sk := range mp.Keys {
			if _, isC := keyString(sk); isC {
				continue
			}
			if m.branch(m.equal(sk, k)) {
				return i
			}
		}
		return -1
	}
	for i, sk := range mp.Keys {
		if m.branch(m.equal(sk, k)) {
			return i
		}
	}
	return -1
}

func (m *Machine) mapSet(mp *MapV, k, v Value) {
	i := m.mapFind(mp, k)
	if i >= 0 {
		mp.Vals[i] = v
		return
	}
	mp.Keys = append(mp.Keys, k)
	mp.Vals = append(mp.Vals, v)
	if ks, ok := keyString(k); ok {
		mp.idx[ks] = len(mp.Keys) - 1
	}
}

func (m *Machine) mapDelete(mp *MapV, k Value) {
	i := m.mapFind(mp, k)
	if i < 0 {
		return
	}
	mp.Keys = append(mp.Keys[:i:i], mp.Keys[i+1:]...)
	mp.Vals = append(mp.Vals[:i:i], mp.Vals[i+1:]...)
	mp.idx = map[string]int{}
	for j, sk := range mp.Keys {
		if ks, ok := keyString(sk); ok {
			mp.idx[ks] = j
		}
	}
}

func (m *Machine) lookup(fr *frame, in *ssa.Lookup) Value {
	x := fr.get(in.X)
	switch s := x.(type) {
	case string, SymStr:
		return m.index(s, fr.get(in.Index), in.Index.Type())
	case *MapV:
		mt := in.X.Type().Underlying().(*types.Map)
		i := m.mapFind(s, fr.get(in.Index))
		var v Value
		if i >= 0 {
			v = copyVal(s.Vals[i])
		} else {
			v = m.zero(mt.Elem())
		}
		if in.CommaOk {
			return TupleV{v, m.ctx.Bool(i >= 0)}
		}
		return v
	}
	m.unsupported(fmt.Sprintf("lookup on %T", x))
	return nil
}

// rangeIter: maps iterate in an order chosen by the (symbolic) environment: the executor forks
// over which entry comes next, so order-dependence shows up as a violated assertion.
func (m *Machine) rangeIter(x Value) Value {
	switch s := x.(type) {
	case *MapV:
		it := &RangeIter{M: s}
		if s != nil {
			for i := range s.Keys {
				it.Order = append(it.Order, i)
				it.Keys = append(it.Keys, s.Keys[i])
			}
		}
		return it
	case string, SymStr:
		return &RangeIter{Str: s}
	}
	m.unsupported(fmt.Sprintf("range over %T", x))
	return nil
}

func (m *Machine) next(it *RangeIter, in *ssa.Next) Value {
	c := m.ctx
	tt := in.Type().(*types.Tuple)
	if in.IsString {
		s, ok := concStr(it.Str)
		if !ok {
			// byte-wise iteration is only valid for ASCII: require it
			b := m.strBytes(it.Str)
			if it.Pos >= len(b) {
				return TupleV{c.False, c.BV(0, 64), c.BV(0, 32)}
			}
			if m.branch(c.Ule(c.BV(0x80, 8), b[it.Pos])) {
				m.unsupported("range over symbolic non-ASCII string")
			}
			r := TupleV{c.True, c.BV(uint64(it.Pos), 64), c.Zext(b[it.Pos], 32)}
			it.Pos++
			return r
		}
		if it.Pos >= len(s) {
			return TupleV{c.False, c.BV(0, 64), c.BV(0, 32)}
		}
		for i, r := range s[it.Pos:] {
			_ = i
			res := TupleV{c.True, c.BV(uint64(it.Pos), 64), c.BV(uint64(r), 32)}
			it.Pos += len(string(r))
			if r == 0xFFFD {
				it.Pos = it.Pos - len(string(r)) + 1
			}
			return res
		}
	}
	if it.M == nil || len(it.Order) == 0 {
		return TupleV{c.False, m.zero(tt.At(1).Type()), m.zero(tt.At(2).Type())}
	}
	// choose the next entry among the remaining ones
	k := 0
	if len(it.Order) > 1 && m.sol != nil && m.mapOrderSymbolic() {
		ch := m.nondet("maporder", 8)
		var conds []*smt.Term
		for i := range it.Order {
			conds = append(conds, c.Eq(ch, c.BV(uint64(i), 8)))
		}
		k = m.chooseOpen(conds)
	} else if len(it.Order) > 1 && m.vector != nil && m.mapOrderSymbolic() {
		ch := m.nondet("maporder", 8)
		k = int(ch.C) % len(it.Order)
	}
	idx := it.Order[k]
	it.Order = append(it.Order[:k:k], it.Order[k+1:]...)
	// the entry is looked up again by key: one deleted since the iteration started is not visited,
	// one overwritten is visited with its current value
	cur := -1
	if idx < len(it.M.Keys) && identicalKey(it.M.Keys[idx], it.Keys[idx]) {
		cur = idx // nothing moved
	} else {
		cur = m.mapFind(it.M, it.Keys[idx])
	}
	if cur < 0 {
		return m.next(it, in)
	}
	return TupleV{c.True, copyVal(it.M.Keys[cur]), copyVal(it.M.Vals[cur])}
}

func identicalKey(a, b Value) bool {
	switch x := a.(type) {
	case *smt.Term:
		y, ok := b.(*smt.Term)
		return ok && x == y
	case string:
		y, ok := b.(string)
		return ok && x == y
	}
	ka, ok1 := keyString(a)
	kb, ok2 := keyString(b)
	return ok1 && ok2 && ka == kb
}

// chooseOpen is choose() for alternatives that are exclusive but not exhaustive.
func (m *Machine) chooseOpen(conds []*smt.Term) int {
	rest := m.ctx.True
	for _, cd := range conds {
		rest = m.ctx.And(rest, m.ctx.Not(cd))
	}
	all := append(append([]*smt.Term{}, conds...), rest)
	k := m.choose(all)
	if k == len(conds) {
		m.abort("infeasible", "choice outside alternatives")
	}
	return k
}

func (m *Machine) mapOrderSymbolic() bool { return m.locals["maporder"] != nil }

// ---- builtins ----

func (m *Machine) callBuiltin(b *ssa.Builtin, args []Value, site ssa.Instruction) Value {
	c := m.ctx
	switch b.Name() {
	case "len":
		switch s := args[0].(type) {
		case SliceV:
			return c.BV(uint64(len(s.A)), 64)
		case string:
			return c.BV(uint64(len(s)), 64)
		case SymStr:
			return c.BV(uint64(len(s)), 64)
		case ArrayV:
			return c.BV(uint64(len(s)), 64)
		case Ptr:
			if s.C == nil {
				return c.BV(uint64(arrayLenOfPtrType(site)), 64)
			}
			return c.BV(uint64(len((*s.C).(ArrayV))), 64)
		case *MapV:
			if s == nil {
				return c.BV(0, 64)
			}
			return c.BV(uint64(len(s.Keys)), 64)
		case *ChanV:
			if s == nil {
				return c.BV(0, 64)
			}
			return c.BV(uint64(len(s.Buf)), 64)
		}
	case "cap":
		switch s := args[0].(type) {
		case SliceV:
			return c.BV(uint64(cap(s.A)), 64)
		case ArrayV:
			return c.BV(uint64(len(s)), 64)
		case Ptr:
			if s.C == nil {
				return c.BV(uint64(arrayLenOfPtrType(site)), 64)
			}
			return c.BV(uint64(len((*s.C).(ArrayV))), 64)
		case *ChanV:
			if s == nil {
				return c.BV(0, 64)
			}
			return c.BV(uint64(s.Cap), 64)
		}
	case "append":
		s := args[0].(SliceV)
		var add []Value
		switch t := args[1].(type) {
		case SliceV:
			add = t.A
		case string, SymStr:
			for _, bt := range m.strBytes(t) {
				add = append(add, bt)
			}
		default:
			m.unsupported(fmt.Sprintf("append of %T", args[1]))
		}
		if len(add) == 0 {
			return s
		}
		n := len(s.A)
		var res []Value
		if n+len(add) <= cap(s.A) {
			res = s.A[:n+len(add)]
		} else {
			// Go's growth policy is unspecified; use doubling (cap visible to the program only via cap())
			nc := 2 * cap(s.A)
			if nc < n+len(add) {
				nc = n + len(add)
			}
			res = make([]Value, n+len(add), nc)
			copy(res, s.A)
		}
		for i, v := range add {
			res[n+i] = copyVal(v)
		}
		if cap(res) > m.maxAlloc {
			m.maxAlloc = cap(res)
		}
		if cap(res) > m.Cfg.AllocCap*64 {
			m.abort("bound", "append beyond model allocation limit")
		}
		return SliceV{A: res}
	case "copy":
		dst := args[0].(SliceV)
		var src []Value
		switch t := args[1].(type) {
		case SliceV:
			src = t.A
		case string, SymStr:
			for _, bt := range m.strBytes(t) {
				src = append(src, bt)
			}
		}
		n := len(dst.A)
		if len(src) < n {
			n = len(src)
		}
		tmp := make([]Value, n)
		for i := 0; i < n; i++ {
			tmp[i] = copyVal(src[i])
		}
		for i := 0; i < n; i++ {
			storeInto(&dst.A[i], tmp[i])
		}
		return c.BV(uint64(n), 64)
	case "delete":
		mp, _ := args[0].(*MapV)
		if mp != nil {
			m.mapDelete(mp, args[1])
		}
		return nil
	case "clear":
		switch s := args[0].(type) {
		case *MapV:
			if s != nil {
				s.Keys, s.Vals, s.idx = nil, nil, map[string]int{}
			}
		case SliceV:
			et := site.(*ssa.Call).Call.Args[0].Type().Underlying().(*types.Slice).Elem()
			for i := range s.A {
				storeInto(&s.A[i], m.zero(et))
			}
		}
		return nil
	case "min", "max":
		call := site.(*ssa.Call)
		t := call.Type()
		res := args[0]
		for _, a := range args[1:] {
			var lt *smt.Term
			if b.Name() == "min" {
				lt = m.binop(token.LSS, t, a, res, t).(*smt.Term)
			} else {
				lt = m.binop(token.GTR, t, a, res, t).(*smt.Term)
			}
			ra, ok1 := res.(*smt.Term)
			aa, ok2 := a.(*smt.Term)
			if ok1 && ok2 {
				if _, _, fl, _ := typeWidth(t); fl {
					// NaN propagates
					nan := c.Or(c.FpIsNaN(ra), c.FpIsNaN(aa))
					res = c.Ite(nan, c.Ite(c.FpIsNaN(ra), ra, aa), c.Ite(lt, aa, ra))
				} else {
					res = c.Ite(lt, aa, ra)
				}
			} else if m.branch(lt) {
				res = a
			}
		}
		return res
	case "recover":
		// the frame that deferred the current function
		if len(m.stack) >= 2 {
			callee := m.stack[len(m.stack)-1]
			fr := callee.caller
			if fr != nil && fr.panicking {
				fr.panicking = false
				if gp, ok := fr.panicVal.(goPanic); ok {
					switch v := gp.V.(type) {
					case IfaceV:
						return v
					case string:
						return IfaceV{T: types.Typ[types.String], V: v}
					}
					return IfaceV{T: types.Typ[types.String], V: gp.Desc}
				}
			}
		}
		return IfaceV{}
	case "print", "println":
		return nil
	case "close":
		ch, _ := args[0].(*ChanV)
		if ch == nil {
			m.goPanic("close of nil channel")
		}
		if ch.Closed {
			m.goPanic("close of closed channel")
		}
		ch.Closed = true
		return nil
	case "ssa:wrapnilchk":
		if isNilPtr(args[0]) {
			m.goPanic("value method called using nil pointer")
		}
		return args[0]
	}
	m.unsupported("builtin " + b.Name() + fmt.Sprintf(" on %T", args[0]))
	return nil
}

func arrayLenOfPtrType(site ssa.Instruction) int {
	if call, ok := site.(*ssa.Call); ok && len(call.Call.Args) > 0 {
		if pt, ok := call.Call.Args[0].Type().Underlying().(*types.Pointer); ok {
			if at, ok := pt.Elem().Underlying().(*types.Array); ok {
				return int(at.Len())
			}
		}
	}
	return 0
}
