module verif/engine

go 1.26.8

require golang.org/x/tools v0.50.0
