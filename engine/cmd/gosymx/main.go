// gosymx: symbolic execution of harnesses over the real /repo code (go/ssa → SMT-LIB2).
//
//	gosymx -prop C11 -tier quick            run every harness of a property, write evidence
//	gosymx -prop C11 -harness VerifH_x      run one harness
//	gosymx -replay evidence/replays/x.json  re-run a stored counterexample natively
package main

import (
	"crypto/sha256"
	"encoding/json"
	"flag"
	"fmt"
	"go/ast"
	"go/parser"
	"go/token"
	"go/types"
	"math/rand"
	"os"
	"os/exec"
	"path/filepath"
	"sort"
	"strconv"
	"strings"
	"time"

	"golang.org/x/tools/go/packages"
	"golang.org/x/tools/go/ssa"
	"golang.org/x/tools/go/ssa/ssautil"

	"verif/engine/smt"
	"verif/engine/sx"
)

const module = "github.com/apache/skywalking-banyandb"

type harnessDecl struct {
	Name    string
	File    string // source file under /verif/harness
	Dir     string // package dir relative to repo
	Prop    string
	Tiers   map[string]bool
	Opts    map[string]string
	Doc     string
	Bounds  []string
	Assumes []string
	Outside []string
	Patches [][3]string // source patches: repo file, text to replace (must occur exactly once), replacement
}

var (
	repoDir  = flag.String("repo", "/repo", "repository")
	verifDir = flag.String("verif", "/verif", "verification dir")
	prop     = flag.String("prop", "", "property id")
	tier     = flag.String("tier", "quick", "quick|thorough")
	only     = flag.String("harness", "", "run only this harness")
	replay   = flag.String("replay", "", "replay file")
	workers  = flag.Int("workers", 16, "parallel path workers")
	verbose  = flag.Bool("v", false, "verbose")
	noNative = flag.Bool("no-native", false, "skip native replays (debugging)")
)

func main() {
	flag.Parse()
	if *replay != "" {
		os.Exit(doReplay(*replay))
	}
	if *prop == "" {
		fmt.Fprintln(os.Stderr, "need -prop")
		os.Exit(2)
	}
	os.Exit(runProperty())
}

// ---------- harness discovery ----------

func discover() []harnessDecl {
	var out []harnessDecl
	root := filepath.Join(*verifDir, "harness")
	filepath.Walk(root, func(p string, info os.FileInfo, err error) error {
		if err != nil || info.IsDir() || !strings.HasSuffix(p, ".go") || strings.Contains(p, "/zzverif/") {
			return nil
		}
		fset := token.NewFileSet()
		f, err := parser.ParseFile(fset, p, nil, parser.ParseComments)
		if err != nil {
			fmt.Fprintf(os.Stderr, "ENGINE-ERROR parse %s: %v\n", p, err)
			os.Exit(2)
		}
		dir := ""
		for _, cg := range f.Comments {
			for _, c := range cg.List {
				if s := strings.TrimPrefix(c.Text, "// verif:dir "); s != c.Text {
					dir = strings.TrimSpace(s)
				}
			}
		}
		for _, d := range f.Decls {
			fd, ok := d.(*ast.FuncDecl)
			if !ok || fd.Doc == nil || fd.Recv != nil {
				continue
			}
			for _, c := range fd.Doc.List {
				s := strings.TrimPrefix(c.Text, "//verif:harness ")
				if s == c.Text {
					continue
				}
				h := harnessDecl{Name: fd.Name.Name, File: p, Dir: dir, Tiers: map[string]bool{}, Opts: map[string]string{}}
				for _, kv := range strings.Fields(s) {
					i := strings.Index(kv, "=")
					if i < 0 {
						continue
					}
					k, v := kv[:i], kv[i+1:]
					switch k {
					case "prop":
						h.Prop = v
					case "tier":
						for _, t := range strings.Split(v, ",") {
							h.Tiers[t] = true
						}
					default:
						h.Opts[k] = v
					}
				}
				for _, c2 := range fd.Doc.List {
					t := strings.TrimSpace(strings.TrimPrefix(c2.Text, "//"))
					switch {
					case strings.HasPrefix(t, "bound:"):
						h.Bounds = append(h.Bounds, strings.TrimSpace(t[6:]))
					case strings.HasPrefix(t, "assume:"):
						h.Assumes = append(h.Assumes, strings.TrimSpace(t[7:]))
					case strings.HasPrefix(t, "outside:"):
						h.Outside = append(h.Outside, strings.TrimSpace(t[8:]))
					case strings.HasPrefix(t, "patch:"):
						// patch: <repo file> | <text> | <replacement> : shrinks a size constant of the real
						// source for this run (overlay regenerated from the current file; the text must
						// occur exactly once) - a stated bound reduction, reported in the evidence
						f := strings.Split(t[6:], "|")
						if len(f) != 3 {
							fmt.Fprintf(os.Stderr, "ENGINE-ERROR bad patch line in %s: %s\n", p, t)
							os.Exit(2)
						}
						h.Patches = append(h.Patches, [3]string{strings.TrimSpace(f[0]), strings.TrimSpace(f[1]), strings.TrimSpace(f[2])})
						h.Bounds = append(h.Bounds, fmt.Sprintf("source constant reduced for this run: %s: %q -> %q", strings.TrimSpace(f[0]), strings.TrimSpace(f[1]), strings.TrimSpace(f[2])))
					case strings.HasPrefix(t, "verif:harness"):
					default:
						h.Doc += t + " "
					}
				}
				out = append(out, h)
			}
		}
		return nil
	})
	sort.Slice(out, func(i, j int) bool { return out[i].Name < out[j].Name })
	return out
}

func optInt(h harnessDecl, tier, key string, def int) int {
	if v, ok := h.Opts[key+"."+tier]; ok {
		n, _ := strconv.Atoi(v)
		return n
	}
	if v, ok := h.Opts[key]; ok {
		n, _ := strconv.Atoi(v)
		return n
	}
	return def
}

// ---------- overlay ----------

type overlaySet struct {
	files map[string]string // virtual path → real path
}

func buildOverlay(hs []harnessDecl, selected []harnessDecl) (*overlaySet, error) {
	ov := &overlaySet{files: map[string]string{}}
	ov.files[filepath.Join(*repoDir, "pkg/zzverif/zzverif.go")] = filepath.Join(*verifDir, "harness/zzverif/zzverif.go")
	seen := map[string]bool{}
	for _, h := range hs {
		if seen[h.File] {
			continue
		}
		seen[h.File] = true
		ov.files[filepath.Join(*repoDir, h.Dir, "zz_verif_"+filepath.Base(h.File))] = h.File
	}
	// source patches (size constants), regenerated from the current file
	patched := map[string]string{}
	for _, h := range selected { // only the harnesses that actually run: a patch never leaks into another property's run
		for _, pt := range h.Patches {
			target := filepath.Join(*repoDir, pt[0])
			key := pt[0] + "|" + pt[1] + "|" + pt[2]
			if seen[key] {
				continue
			}
			seen[key] = true
			src, ok := patched[target]
			if !ok {
				b, err := os.ReadFile(target)
				if err != nil {
					return nil, fmt.Errorf("patch of %s: %v", pt[0], err)
				}
				src = string(b)
			}
			if strings.Count(src, pt[1]) != 1 {
				return nil, fmt.Errorf("patch of %s: %q occurs %d times (must be exactly once)", pt[0], pt[1], strings.Count(src, pt[1]))
			}
			patched[target] = strings.Replace(src, pt[1], pt[2], 1)
		}
	}
	for target, src := range patched {
		sum := sha256.Sum256([]byte(target + src))
		dir := filepath.Join(*verifDir, ".cache/patch")
		os.MkdirAll(dir, 0o755)
		f := filepath.Join(dir, fmt.Sprintf("%x.go", sum[:8]))
		if err := os.WriteFile(f, []byte(src), 0o644); err != nil {
			return nil, err
		}
		ov.files[target] = f
	}
	// regenerated protobuf layer, if the tree lacks generated code
	if _, err := os.Stat(filepath.Join(*repoDir, "api/proto/banyandb/common/v1/common.pb.go")); err != nil {
		pb, err := ensurePB()
		if err != nil {
			return nil, err
		}
		for k, v := range pb {
			ov.files[k] = v
		}
	}
	return ov, nil
}

// ensurePB regenerates the protobuf Go code from /repo/api/proto/**.proto (cache keyed by content hash).
func ensurePB() (map[string]string, error) {
	bin := filepath.Join(*verifDir, "bin/pbgen")
	if _, err := os.Stat(bin); err != nil {
		return nil, nil // pbgen not built: harnesses in pb-free packages still work
	}
	h := sha256.New()
	var protos []string
	filepath.Walk(filepath.Join(*repoDir, "api/proto"), func(p string, info os.FileInfo, err error) error {
		if err == nil && !info.IsDir() && strings.HasSuffix(p, ".proto") {
			protos = append(protos, p)
		}
		return nil
	})
	sort.Strings(protos)
	for _, p := range protos {
		b, _ := os.ReadFile(p)
		h.Write([]byte(p))
		h.Write(b)
	}
	if b, err := os.ReadFile(bin); err == nil {
		h.Write(b)
	}
	h.Write([]byte(*repoDir))
	key := fmt.Sprintf("%x", h.Sum(nil))[:16]
	out := filepath.Join(*verifDir, ".cache/pb", key)
	ovf := filepath.Join(out, "overlay.json")
	if _, err := os.Stat(ovf); err != nil {
		os.MkdirAll(out, 0o755)
		cmd := exec.Command(bin, "-repo", *repoDir, "-out", out)
		if b, err := cmd.CombinedOutput(); err != nil {
			os.RemoveAll(out)
			return nil, fmt.Errorf("pbgen failed: %v\n%s", err, b)
		}
	}
	b, err := os.ReadFile(ovf)
	if err != nil {
		return nil, err
	}
	var o struct{ Replace map[string]string }
	if err := json.Unmarshal(b, &o); err != nil {
		return nil, err
	}
	return o.Replace, nil
}

func (ov *overlaySet) forPackages() map[string][]byte {
	m := map[string][]byte{}
	for k, v := range ov.files {
		b, err := os.ReadFile(v)
		if err == nil {
			m[k] = b
		}
	}
	return m
}

func (ov *overlaySet) writeJSON(path string, extra map[string]string) error {
	rep := map[string]string{}
	for k, v := range ov.files {
		rep[k] = v
	}
	for k, v := range extra {
		rep[k] = v
	}
	b, _ := json.MarshalIndent(map[string]interface{}{"Replace": rep}, "", " ")
	return os.WriteFile(path, b, 0o644)
}

// ---------- loading ----------

func goEnv() []string {
	env := os.Environ()
	env = append(env, "GOFLAGS=-mod=mod", "GOPROXY=off", "GOTOOLCHAIN=auto")
	return env
}

func load(ov *overlaySet, dirs []string) (*ssa.Program, map[string]*ssa.Package, error) {
	cfg := &packages.Config{
		Mode:       packages.LoadAllSyntax,
		Dir:        *repoDir,
		Overlay:    ov.forPackages(),
		BuildFlags: []string{"-tags=verif"},
		Env:        goEnv(),
	}
	var pats []string
	for _, d := range dirs {
		pats = append(pats, "./"+d)
	}
	pkgs, err := packages.Load(cfg, pats...)
	if err != nil {
		return nil, nil, err
	}
	var errs []string
	packages.Visit(pkgs, nil, func(p *packages.Package) {
		for _, e := range p.Errors {
			if len(errs) < 20 {
				errs = append(errs, e.Error())
			}
		}
	})
	if len(errs) > 0 {
		return nil, nil, fmt.Errorf("type errors:\n%s", strings.Join(errs, "\n"))
	}
	prog, spkgs := ssautil.AllPackages(pkgs, ssa.InstantiateGenerics)
	prog.Build()
	byDir := map[string]*ssa.Package{}
	for i, p := range pkgs {
		rel := strings.TrimPrefix(p.PkgPath, module+"/")
		byDir[rel] = spkgs[i]
	}
	return prog, byDir, nil
}

// ---------- native replay ----------

type job struct {
	Harness string   `json:"harness"`
	Vector  []uint64 `json:"vector"`
}
type nativeResult struct {
	Harness  string            `json:"harness"`
	Outcome  string            `json:"outcome"`
	Msg      string            `json:"msg"`
	Reached  []string          `json:"reached"`
	Observed map[string]uint64 `json:"observed"`
	Consumed int               `json:"consumed"`
}

type nativeRunner struct {
	ov      *overlaySet
	scratch string
	bins    map[string]string // dir → test binary
	hs      []harnessDecl
}

func (n *nativeRunner) binFor(dir string) (string, error) {
	if b, ok := n.bins[dir]; ok {
		return b, nil
	}
	// generated test file listing the package's harnesses
	var names []string
	pkgName := ""
	for _, h := range n.hs {
		if h.Dir == dir {
			names = append(names, h.Name)
			if pkgName == "" {
				fset := token.NewFileSet()
				f, err := parser.ParseFile(fset, h.File, nil, parser.PackageClauseOnly)
				if err != nil {
					return "", err
				}
				pkgName = f.Name.Name
			}
		}
	}
	var sb strings.Builder
	sb.WriteString("//go:build verif\n\npackage " + pkgName + "\n\nimport (\n\t\"testing\"\n\t\"" + module + "/pkg/zzverif\"\n)\n\n")
	sb.WriteString("func TestZZVerifReplay(t *testing.T) {\n\tzzverif.ReplayMain(t, map[string]func(){\n")
	for _, nm := range names {
		fmt.Fprintf(&sb, "\t\t%q: %s,\n", nm, nm)
	}
	sb.WriteString("\t})\n}\n")
	key := strings.ReplaceAll(dir, "/", "_")
	tf := filepath.Join(n.scratch, key+"_replay_test.go")
	if err := os.WriteFile(tf, []byte(sb.String()), 0o644); err != nil {
		return "", err
	}
	ovf := filepath.Join(n.scratch, key+"_overlay.json")
	extra := map[string]string{filepath.Join(*repoDir, dir, "zz_verif_replay_test.go"): tf}
	// the package's own test files are not needed for the replay binary (and some need generated
	// mocks that are absent from the tree): an empty replacement path deletes them from the build
	if ents, err := os.ReadDir(filepath.Join(*repoDir, dir)); err == nil {
		for _, e := range ents {
			if strings.HasSuffix(e.Name(), "_test.go") {
				extra[filepath.Join(*repoDir, dir, e.Name())] = ""
			}
		}
	}
	if err := n.ov.writeJSON(ovf, extra); err != nil {
		return "", err
	}
	bin := filepath.Join(n.scratch, key+".test")
	cmd := exec.Command("go", "test", "-c", "-vet=off", "-tags", "verif", "-overlay", ovf, "-o", bin, "./"+dir)
	cmd.Dir = *repoDir
	cmd.Env = goEnv()
	if b, err := cmd.CombinedOutput(); err != nil {
		return "", fmt.Errorf("native build of %s failed: %v\n%s", dir, err, b)
	}
	n.bins[dir] = bin
	return bin, nil
}

func (n *nativeRunner) run(dir string, jobs []job) ([]nativeResult, error) {
	if len(jobs) == 0 {
		return nil, nil
	}
	bin, err := n.binFor(dir)
	if err != nil {
		return nil, err
	}
	var all []nativeResult
	// one process per job so that a crash (or an os.Exit) in one does not hide the others
	for i, j := range jobs {
		in := filepath.Join(n.scratch, fmt.Sprintf("in_%d.json", i))
		out := filepath.Join(n.scratch, fmt.Sprintf("out_%d.json", i))
		os.Remove(out)
		b, _ := json.Marshal([]job{j})
		os.WriteFile(in, b, 0o644)
		cmd := exec.Command(bin, "-test.run", "^TestZZVerifReplay$", "-test.count=1", "-test.timeout=120s")
		cmd.Dir = filepath.Join(*repoDir, dir)
		cmd.Env = append(os.Environ(), "VERIF_REPLAY_IN="+in, "VERIF_REPLAY_OUT="+out, "VERIF_TIER="+*tier, "TZ=UTC")
		// cap memory so that "allocates without bound" findings end in an allocation failure, not an OOM kill
		sh := exec.Command("sh", "-c", "ulimit -v 4194304; exec \"$0\" \"$@\"", bin, "-test.run", "^TestZZVerifReplay$", "-test.count=1", "-test.timeout=120s")
		sh.Dir, sh.Env = cmd.Dir, cmd.Env
		outb, _ := sh.CombinedOutput()
		rb, err := os.ReadFile(out)
		if err != nil {
			all = append(all, nativeResult{Harness: j.Harness, Outcome: "crash", Msg: clip(string(outb), 2000)})
			continue
		}
		var rs []nativeResult
		if err := json.Unmarshal(rb, &rs); err != nil || len(rs) != 1 {
			all = append(all, nativeResult{Harness: j.Harness, Outcome: "crash", Msg: "bad result file"})
			continue
		}
		all = append(all, rs[0])
	}
	return all, nil
}

func clip(s string, n int) string {
	if len(s) > n {
		return s[:n] + "…"
	}
	return s
}

// ---------- known findings ----------

type knownFinding struct {
	Property string `json:"property"`
	Tag      string `json:"tag"`
	Harness  string `json:"harness"`
	Match    string `json:"match"` // substring of the violation message/site
	What     string `json:"what"`
}

func loadKnown() []knownFinding {
	var out []knownFinding
	b, err := os.ReadFile(filepath.Join(*verifDir, "known_findings.jsonl"))
	if err != nil {
		return nil
	}
	for _, l := range strings.Split(string(b), "\n") {
		l = strings.TrimSpace(l)
		if !strings.HasPrefix(l, "{") {
			continue // "fixed: ..." lines and comments suppress nothing
		}
		var k knownFinding
		if json.Unmarshal([]byte(l), &k) == nil {
			out = append(out, k)
		}
	}
	return out
}

func matchKnown(ks []knownFinding, prop, harness string, v sx.Violation) *knownFinding {
	for i, k := range ks {
		if k.Property != prop {
			continue
		}
		if k.Tag != "" && v.Known == k.Tag {
			return &ks[i]
		}
		if k.Tag == "" && k.Harness == harness && k.Match != "" && (strings.Contains(v.Msg, k.Match) || strings.Contains(v.Site, k.Match)) {
			return &ks[i]
		}
	}
	return nil
}

// ---------- main run ----------

type replayFile struct {
	Property string   `json:"property"`
	Harness  string   `json:"harness"`
	Dir      string   `json:"dir"`
	Kind     string   `json:"kind"`
	Msg      string   `json:"msg"`
	Site     string   `json:"site"`
	Names    []string `json:"names"`
	Vector   []uint64 `json:"vector"`
	Sched    []uint64 `json:"schedule,omitempty"`
	Native   string   `json:"native_outcome"`
}

func runProperty() int {
	t0 := time.Now()
	seed := int64(1)
	if s := os.Getenv("VERIF_SEED"); s != "" {
		if v, err := strconv.ParseInt(s, 10, 64); err == nil {
			seed = v
		}
	}
	all := discover()
	var hs []harnessDecl
	for _, h := range all {
		if strings.Contains(","+h.Prop+",", ","+*prop+",") && h.Tiers[*tier] && (*only == "" || *only == h.Name) {
			hs = append(hs, h)
		}
	}
	if len(hs) == 0 {
		fmt.Printf("ENGINE-ERROR no harness for %s tier %s\n", *prop, *tier)
		return 2
	}
	// every harness file of the involved packages must be in the overlay (they share helper code)
	var ovHs []harnessDecl
	dirSet := map[string]bool{}
	for _, h := range hs {
		dirSet[h.Dir] = true
	}
	for _, h := range all {
		if dirSet[h.Dir] {
			ovHs = append(ovHs, h)
		}
	}
	// helper files without harness functions in the same harness dir
	ov, err := buildOverlay(ovHs, hs)
	if err != nil {
		fmt.Printf("ENGINE-ERROR overlay: %v\n", err)
		return 2
	}
	addHelperFiles(ov, ovHs)
	var dirs []string
	for d := range dirSet {
		dirs = append(dirs, d)
	}
	sort.Strings(dirs)
	tl := time.Now()
	prog, byDir, err := load(ov, dirs)
	if err != nil {
		fmt.Printf("ENGINE-ERROR load: %v\n", err)
		return 2
	}
	loadS := time.Since(tl).Seconds()
	eng := sx.NewEngine(prog, module)
	scratch, _ := os.MkdirTemp(filepath.Join(*verifDir, ".cache"), "run-")
	if scratch == "" {
		os.MkdirAll(filepath.Join(*verifDir, ".cache"), 0o755)
		scratch, _ = os.MkdirTemp(filepath.Join(*verifDir, ".cache"), "run-")
	}
	defer os.RemoveAll(scratch)
	native := &nativeRunner{ov: ov, scratch: scratch, bins: map[string]string{}, hs: ovHs}
	known := loadKnown()
	rng := rand.New(rand.NewSource(seed))

	type hres struct {
		decl harnessDecl
		res  *sx.HarnessResult
		cfg  sx.Config
	}
	var results []hres
	exit := 0
	inconclusive := []string{}
	var violLines, knownLines, partialLines []string
	totalValidated := 0
	totalDisagree := 0
	crossChecked, crossDisagree := 0, 0
	replayDir := filepath.Join(evidenceDir(), "replays")
	os.MkdirAll(replayDir, 0o755)

	for _, h := range hs {
		pkg := byDir[h.Dir]
		if pkg == nil {
			fmt.Printf("ENGINE-ERROR package %s not loaded\n", h.Dir)
			return 2
		}
		fn := pkg.Func(h.Name)
		if fn == nil {
			fmt.Printf("ENGINE-ERROR harness %s not found in %s\n", h.Name, h.Dir)
			return 2
		}
		// redirects declared by the harness file: functions named Redirect_<sanitised target>
		solverBin := envOr("VERIF_SOLVER", "z3")
		if s, ok := h.Opts["solver"]; ok {
			solverBin = s
		}
		cfg := sx.Config{
			SolverBin: solverBin,
			TimeoutMs: optInt(h, *tier, "timeout", 60000),
			Unwind:    optInt(h, *tier, "unwind", 64),
			MaxSteps:  optInt(h, *tier, "steps", 2000000),
			MaxPaths:  optInt(h, *tier, "paths", 20000),
			MaxDepth:  optInt(h, *tier, "depth", 400),
			AllocCap:  optInt(h, *tier, "alloc", 4096),
			Preempt:   optInt(h, *tier, "preempt", -1),
			TimeBoxS:  optInt(h, *tier, "timebox", map[string]int{"quick": 0, "thorough": 240}[*tier]),
			Workers:   *workers,
			Thorough:  *tier == "thorough",
			KeepLog:   true,
		}
		// redirect=<callee>:<harness func>[,…]: symbolic-only replacement of a callee of the package under
		// test by a contract stub written in the harness file (natively the real callee runs; the witness
		// replays compare observables, which validates the contract on every run).
		eng.Redirects = map[string]*ssa.Function{}
		var redirNotes []string
		if r, ok := h.Opts["redirect"]; ok {
			for _, pair := range strings.Split(r, ",") {
				ft := strings.SplitN(pair, ":", 2)
				if len(ft) != 2 {
					fmt.Printf("ENGINE-ERROR bad redirect %q in %s\n", pair, h.Name)
					return 2
				}
				to := pkg.Func(ft[1])
				var froms []*ssa.Function
				if f := pkg.Func(ft[0]); f != nil {
					froms = append(froms, f)
				} else {
					// method or function of any package, named as "Type.method" or "pkgname.Func";
					// every instantiation of a generic matches
					if allFns == nil {
						allFns = ssautil.AllFunctions(prog)
					}
					for f := range allFns {
						if redirectMatches(f, ft[0]) {
							froms = append(froms, f)
						}
					}
				}
				if to == nil || len(froms) == 0 {
					fmt.Printf("ENGINE-ERROR redirect %q in %s: target or stub not found\n", pair, h.Name)
					return 2
				}
				for _, from := range froms {
					eng.Redirects[from.String()] = to
				}
				redirNotes = append(redirNotes, ft[0]+" -> "+to.String())
			}
		}
		res := eng.Explore(fn, cfg)
		for _, n := range redirNotes {
			eng.StubsSeen["redirect "+n] = true
		}
		results = append(results, hres{h, res, cfg})
		if *verbose {
			fmt.Printf("  %s: paths=%d completed=%d infeasible=%d obligations=%d discharged=%d unknown=%d viol=%d aborts=%d wall=%.1fs\n",
				h.Name, res.Paths, res.Completed, res.Infeasible, res.Obligations, res.Discharged, res.Unknown, len(res.Violations), len(res.Aborts), res.WallS)
		}
		partial := res.TimeBoxHit && len(res.Aborts) == 0 && res.Unknown == 0 && res.UnknownFeas == 0 && len(res.SolverErrs) == 0
		if partial {
			// thorough tier only: the larger bound was explored for the time box and not exhausted. Everything
			// explored held (violations are reported as usual); the evidence says the coverage is partial.
			partialLines = append(partialLines, fmt.Sprintf("PARTIAL %s: time box of %d s reached after %d paths (%d decision prefixes pending): the %s bound was explored partially; what is exhaustive is the quick tier's bound", h.Name, cfg.TimeBoxS, res.Paths, res.Pending, *tier))
		}
		if !res.Conclusive() && !partial {
			var why []string
			for k, c := range res.Aborts {
				why = append(why, fmt.Sprintf("%s ×%d", clip(k, 400), c))
			}
			if !res.Exhausted {
				why = append(why, fmt.Sprintf("path budget %d exhausted", cfg.MaxPaths))
			}
			if res.Unknown+res.UnknownFeas > 0 {
				why = append(why, fmt.Sprintf("%d solver unknown", res.Unknown+res.UnknownFeas))
			}
			why = append(why, res.SolverErrs...)
			sort.Strings(why)
			inconclusive = append(inconclusive, h.Name+": "+strings.Join(why, "; "))
		}
		// vacuity: every harness must reach at least one marker
		if len(res.Reached) == 0 && len(res.Violations) == 0 {
			inconclusive = append(inconclusive, h.Name+": vacuous (no Reach marker reached)")
		}
		if want, ok := h.Opts["reach"]; ok {
			for _, id := range strings.Split(want, ",") {
				if res.Reached[id] == 0 {
					inconclusive = append(inconclusive, h.Name+": required marker "+id+" not reached (vacuity guard)")
				}
			}
		}

		// ---- cross-solver diff on sampled obligation scripts ----
		if os.Getenv("VERIF_NO_CROSS") == "" {
			for i, sc := range res.Scripts {
				if i >= 3 {
					break
				}
				if strings.Contains(sc, "fp.") {
					continue // cvc5 1.0 lacks fp.to_ieee_bv; FP obligations are diffed on z3-new only
				}
				a := smt.RunScript("z3", sc, 30000)
				b := smt.RunScript("cvc5", sc, 30000)
				if (a == "sat" || a == "unsat") && (b == "sat" || b == "unsat") {
					crossChecked++
					if a != b {
						crossDisagree++
						inconclusive = append(inconclusive, fmt.Sprintf("%s: z3 says %s, cvc5 says %s on the same obligation", h.Name, a, b))
					}
				}
			}
		}

		if *noNative {
			continue
		}
		if h.Opts["native"] == "off" {
			// The harness environment is entirely a symbolic-only model (e.g. the crash model of the
			// file system): there is nothing to run natively. Witnesses and counterexamples are
			// re-executed concretely by the engine over the same real SSA code plus the model.
			eng.AuxZero = true
			for _, w := range res.Witnesses {
				oc, _, reached, _ := eng.RunConcrete(fn, cfg, w.Vector, w.Sched...)
				totalValidated++
				if oc != "ok" || strings.Join(reached, ",") != strings.Join(w.Reached, ",") {
					totalDisagree++
					inconclusive = append(inconclusive, fmt.Sprintf("%s: concrete re-execution of a witness disagrees (outcome %s, reached %v, expected %v)", h.Name, oc, reached, w.Reached))
				}
			}
			for vi, v := range res.Violations {
				oc, msg, _, _ := eng.RunConcrete(fn, cfg, v.Vector, v.Sched...)
				confirmed := (v.Kind == "assert" && oc == "assert" && strings.HasPrefix(msg, v.Msg)) || (v.Kind == "panic" && oc == "panic")
				rf := replayFile{Property: *prop, Harness: h.Name, Dir: h.Dir, Kind: v.Kind, Msg: v.Msg, Site: v.Site, Names: v.Names, Vector: v.Vector, Sched: v.Sched, Native: "model-replay " + oc + ": " + clip(msg, 300)}
				rp := filepath.Join(replayDir, fmt.Sprintf("%s_%s_%d.json", *prop, h.Name, vi))
				b, _ := json.MarshalIndent(rf, "", " ")
				os.WriteFile(rp, b, 0o644)
				if !confirmed {
					inconclusive = append(inconclusive, fmt.Sprintf("%s: counterexample for %q did not reproduce under concrete re-execution (%s)", h.Name, v.Msg, oc))
					continue
				}
				if k := matchKnown(known, *prop, h.Name, v); k != nil {
					knownLines = append(knownLines, fmt.Sprintf("KNOWN-FINDING: property=%s %s (harness %s: %s; replay=%s)", *prop, k.What, h.Name, v.Msg, rp))
					continue
				}
				violLines = append(violLines, fmt.Sprintf("VIOLATION property=%s replay=%s", *prop, rp))
				fmt.Printf("  violation detail: harness=%s kind=%s msg=%q site=%s inputs=%s (replayed by concrete re-execution over the environment model)\n", h.Name, v.Kind, v.Msg, v.Site, fmtInputs(v))
			}
			eng.AuxZero = false
			continue
		}
		// ---- translator validation: witnesses and random concrete vectors, natively vs engine ----
		var jobs []job
		type expect struct {
			outcome string
			reached []string
			obs     map[string]uint64
			what    string
		}
		var exps []expect
		for _, w := range res.Witnesses {
			jobs = append(jobs, job{h.Name, w.Vector})
			exps = append(exps, expect{"ok", w.Reached, w.Observe, "witness"})
		}
		nWitness := len(jobs)
		nRandom := optInt(h, *tier, "random", 8)
		width := 0
		if len(res.Witnesses) > 0 {
			width = len(res.Witnesses[0].Vector)
		}
		for _, v := range res.Violations {
			if len(v.Vector) > width {
				width = len(v.Vector)
			}
		}
		for i := 0; i < nRandom && width > 0; i++ {
			vec := make([]uint64, width+4)
			for k := range vec {
				switch rng.Intn(4) {
				case 0:
					vec[k] = uint64(rng.Intn(4))
				case 1:
					vec[k] = uint64(rng.Intn(256))
				default:
					vec[k] = rng.Uint64()
				}
			}
			// perturb a witness instead of a fully random vector half of the time (stays inside assumptions more often)
			if len(res.Witnesses) > 0 && i%2 == 0 {
				copy(vec, res.Witnesses[rng.Intn(len(res.Witnesses))].Vector)
				vec[rng.Intn(width)] ^= uint64(1) << uint(rng.Intn(8))
			}
			oc, msg, reached, obs := eng.RunConcrete(fn, cfg, vec)
			jobs = append(jobs, job{h.Name, vec})
			exps = append(exps, expect{oc, reached, obs, "random:" + msg})
		}
		nres, err := native.run(h.Dir, jobs)
		if err != nil {
			fmt.Printf("ENGINE-ERROR %v\n", err)
			return 2
		}
		for i, nr := range nres {
			e := exps[i]
			if strings.HasPrefix(e.outcome, "abort:") {
				continue // engine could not execute this concrete vector (bound/unsupported): no comparison
			}
			ok := nr.Outcome == e.outcome
			if ok && (e.outcome == "ok") {
				if strings.Join(nr.Reached, ",") != strings.Join(e.reached, ",") {
					ok = false
				}
				for k, v := range e.obs {
					if nv, has := nr.Observed[k]; !has || nv != v {
						ok = false
					}
				}
			}
			totalValidated++
			if !ok {
				totalDisagree++
				kind := "witness"
				if i >= nWitness {
					kind = "random vector"
				}
				inconclusive = append(inconclusive, fmt.Sprintf("%s: translator validation mismatch on %s: engine=%s reached=%v obs=%v; native=%s reached=%v obs=%v msg=%s vector=%v",
					h.Name, kind, e.outcome, e.reached, e.obs, nr.Outcome, nr.Reached, nr.Observed, clip(nr.Msg, 300), jobs[i].Vector))
			}
		}
		// ---- violations: replay natively before reporting ----
		for vi, v := range res.Violations {
			nr, err := native.run(h.Dir, []job{{h.Name, v.Vector}})
			if err != nil {
				fmt.Printf("ENGINE-ERROR %v\n", err)
				return 2
			}
			confirmed := false
			nat := nr[0]
			switch v.Kind {
			case "assert":
				confirmed = nat.Outcome == "assert" && strings.HasPrefix(nat.Msg, v.Msg)
			case "panic":
				confirmed = nat.Outcome == "panic" || nat.Outcome == "crash"
			}
			rf := replayFile{Property: *prop, Harness: h.Name, Dir: h.Dir, Kind: v.Kind, Msg: v.Msg, Site: v.Site, Names: v.Names, Vector: v.Vector, Native: nat.Outcome + ": " + clip(nat.Msg, 600)}
			rp := filepath.Join(replayDir, fmt.Sprintf("%s_%s_%d.json", *prop, h.Name, vi))
			b, _ := json.MarshalIndent(rf, "", " ")
			os.WriteFile(rp, b, 0o644)
			if !confirmed {
				inconclusive = append(inconclusive, fmt.Sprintf("%s: solver counterexample for %q (%s at %s) did NOT reproduce natively (native outcome %s: %s) — encoding or stub defect, replay=%s",
					h.Name, v.Msg, v.Kind, v.Site, nat.Outcome, clip(nat.Msg, 200), rp))
				continue
			}
			if k := matchKnown(known, *prop, h.Name, v); k != nil {
				knownLines = append(knownLines, fmt.Sprintf("KNOWN-FINDING: property=%s %s (harness %s: %s; replay=%s)", *prop, k.What, h.Name, v.Msg, rp))
				continue
			}
			violLines = append(violLines, fmt.Sprintf("VIOLATION property=%s replay=%s", *prop, rp))
			fmt.Printf("  violation detail: harness=%s kind=%s msg=%q site=%s inputs=%s\n", h.Name, v.Kind, v.Msg, v.Site, fmtInputs(v))
		}
	}

	// ---- evidence ----
	states, transitions, obligations, discharged, unknown := 0, int64(0), 0, 0, 0
	queries := 0
	var solverT, maxQ time.Duration
	var samples []interface{}
	bounds, assumes, outside := []string{}, []string{"z3 decides every obligation (4.8.12 incremental; undecided queries re-run standalone on 5.1.0 and 4.8.12)", "go/ssa (x/tools v0.50.0) lowering of the Go source is faithful", "executor instruction semantics (re-validated on every run by native replay of solver models and random vectors)"}, []string{}
	perHarness := []map[string]interface{}{}
	for _, r := range results {
		states += r.res.Completed + r.res.Infeasible
		transitions += r.res.Steps
		obligations += r.res.Obligations
		discharged += r.res.Discharged
		unknown += r.res.Unknown + r.res.UnknownFeas
		queries += r.res.Queries
		solverT += r.res.SolverTime
		if r.res.MaxQuery > maxQ {
			maxQ = r.res.MaxQuery
		}
		for _, s := range r.res.Samples {
			if len(samples) < 12 {
				samples = append(samples, s)
			}
		}
		for _, b := range r.decl.Bounds {
			bounds = append(bounds, r.decl.Name+": "+b)
		}
		bounds = append(bounds, fmt.Sprintf("%s: unwind<=%d steps<=%d paths<=%d depth<=%d alloc<=%d query-timeout=%dms", r.decl.Name, r.cfg.Unwind, r.cfg.MaxSteps, r.cfg.MaxPaths, r.cfg.MaxDepth, r.cfg.AllocCap, r.cfg.TimeoutMs))
		if r.res.TimeBoxHit {
			bounds = append(bounds, fmt.Sprintf("%s: PARTIAL - exploration stopped by the %d s time box after %d paths with %d decision prefixes pending; the stated bound was NOT exhausted in this run (the quick tier exhausts its smaller bound)", r.decl.Name, r.cfg.TimeBoxS, r.res.Paths, r.res.Pending))
		}
		if r.cfg.Preempt >= 0 {
			bounds = append(bounds, fmt.Sprintf("%s: schedules with at most %d preemptions (switches away from a thread that could continue); switches at blocking points are unlimited", r.decl.Name, r.cfg.Preempt))
		}
		for _, a := range r.decl.Assumes {
			assumes = append(assumes, r.decl.Name+": "+a)
		}
		for _, o := range r.decl.Outside {
			outside = append(outside, r.decl.Name+": "+o)
		}
		reached := []string{}
		for k := range r.res.Reached {
			reached = append(reached, k)
		}
		sort.Strings(reached)
		perHarness = append(perHarness, map[string]interface{}{
			"harness": r.decl.Name, "package": r.decl.Dir, "what": strings.TrimSpace(r.decl.Doc),
			"paths": r.res.Paths, "completed": r.res.Completed, "infeasible": r.res.Infeasible,
			"ssa_instructions": r.res.Steps, "obligations": r.res.Obligations, "discharged": r.res.Discharged,
			"trivially_true": r.res.Trivial, "unknown": r.res.Unknown + r.res.UnknownFeas,
			"violations": len(r.res.Violations), "reached_markers": reached, "exhaustive_within_bounds": r.res.Conclusive(),
			"solver_queries": r.res.Queries, "solver_s": r.res.SolverTime.Seconds(), "max_query_s": r.res.MaxQuery.Seconds(), "wall_s": r.res.WallS,
			"max_decision_depth": r.res.MaxDepthHit,
		})
	}
	if len(samples) == 0 {
		samples = append(samples, fmt.Sprintf("%d paths explored, no non-trivial obligation rendered", states))
	}
	funcs := []string{}
	for f := range eng.FuncsSeen {
		if strings.Contains(f, module) && !strings.Contains(f, "zzverif") {
			funcs = append(funcs, f)
		}
	}
	sort.Strings(funcs)
	stubs := []string{}
	for f := range eng.StubsSeen {
		if !strings.Contains(f, "zzverif") {
			stubs = append(stubs, f)
		}
	}
	sort.Strings(stubs)
	otherFuncs := len(eng.FuncsSeen) - len(funcs)
	ev := map[string]interface{}{
		"property_id": *prop, "tier": *tier, "seed": seed, "level": "model_checking",
		"coverage": map[string]interface{}{
			"states": states, "transitions": transitions, "traces_validated_against_impl": totalValidated,
			"samples": samples, "obligations": obligations, "discharged": discharged, "unknown": unknown,
			"exhaustive": len(inconclusive) == 0 && len(partialLines) == 0,
			"partial_explorations": partialLines,
			"explanation": "states = feasible symbolic paths explored to completion or pruned by an assumption; transitions = SSA instructions executed symbolically; every obligation is one solver query pc ∧ ¬assertion (or a feasible uncaught panic)",
			"functions_encoded": funcs, "stdlib_functions_executed": otherFuncs, "stubs_and_intrinsics": stubs,
			"bounds": bounds, "outside_bounds": outside, "harnesses": perHarness,
			"solver": map[string]interface{}{"binary": envOr("VERIF_SOLVER", "z3"), "queries": queries, "total_s": solverT.Seconds(), "max_query_s": maxQ.Seconds(),
				"cross_checked_with_cvc5": crossChecked, "cross_disagreements": crossDisagree},
			"translator_validation_mismatches": totalDisagree,
			"known_findings_matched":           knownLines, "inconclusive": inconclusive,
			"package_load_s": loadS,
		},
		"assumptions": assumes,
		"wall_s":      time.Since(t0).Seconds(),
		"violations":  len(violLines),
	}
	os.MkdirAll(evidenceDir(), 0o755)
	b, _ := json.MarshalIndent(ev, "", " ")
	os.WriteFile(filepath.Join(evidenceDir(), *prop+".json"), b, 0o644)

	for _, l := range partialLines {
		fmt.Println(l)
	}
	for _, l := range knownLines {
		fmt.Println(l)
	}
	for _, l := range violLines {
		fmt.Println(l)
		exit = 1
	}
	if exit == 0 && len(inconclusive) > 0 {
		for _, l := range inconclusive {
			fmt.Println("INCONCLUSIVE " + l)
		}
		exit = 2
	}
	fmt.Printf("%s %s: harnesses=%d paths=%d obligations=%d discharged=%d unknown=%d violations=%d known=%d validated=%d wall=%.1fs exit=%d\n",
		*prop, *tier, len(results), states, obligations, discharged, unknown, len(violLines), len(knownLines), totalValidated, time.Since(t0).Seconds(), exit)
	return exit
}

func fmtInputs(v sx.Violation) string {
	var sb strings.Builder
	for i, n := range v.Names {
		if i > 40 {
			sb.WriteString(" …")
			break
		}
		fmt.Fprintf(&sb, " %s=%#x", n, v.Vector[i])
	}
	return sb.String()
}

func envOr(k, d string) string {
	if v := os.Getenv(k); v != "" {
		return v
	}
	return d
}

// addHelperFiles adds non-harness .go files that sit next to harness files (shared models).
func addHelperFiles(ov *overlaySet, hs []harnessDecl) {
	for _, h := range hs {
		d := filepath.Dir(h.File)
		ents, _ := os.ReadDir(d)
		for _, e := range ents {
			if e.IsDir() || !strings.HasSuffix(e.Name(), ".go") {
				continue
			}
			p := filepath.Join(d, e.Name())
			b, err := os.ReadFile(p)
			if err != nil {
				continue
			}
			if strings.HasPrefix(e.Name(), "export_") {
				// an export shim for ANOTHER package (gives the harness access to an unexported
				// function of a dependency): overlaid into the directory it names
				if i := strings.Index(string(b), "// verif:dir "); i >= 0 {
					rest := string(b)[i+len("// verif:dir "):]
					if j := strings.IndexByte(rest, '\n'); j > 0 {
						ov.files[filepath.Join(*repoDir, strings.TrimSpace(rest[:j]), "zz_verif_"+e.Name())] = p
					}
				}
				continue
			}
			if !strings.Contains(string(b), "// verif:dir "+h.Dir+"\n") {
				continue
			}
			ov.files[filepath.Join(*repoDir, h.Dir, "zz_verif_"+e.Name())] = p
		}
	}
}

// ---------- replay of a stored counterexample ----------

func doReplay(path string) int {
	b, err := os.ReadFile(path)
	if err != nil {
		fmt.Println("ENGINE-ERROR", err)
		return 2
	}
	var rf replayFile
	if err := json.Unmarshal(b, &rf); err != nil {
		fmt.Println("ENGINE-ERROR", err)
		return 2
	}
	all := discover()
	var ovHs, hs []harnessDecl
	for _, h := range all {
		if h.Dir == rf.Dir {
			ovHs = append(ovHs, h)
		}
		if strings.Contains(","+h.Prop+",", ","+rf.Property+",") { // the run's source patches
			hs = append(hs, h)
		}
	}
	ov, err := buildOverlay(ovHs, hs)
	if err != nil {
		fmt.Println("ENGINE-ERROR", err)
		return 2
	}
	addHelperFiles(ov, ovHs)
	os.MkdirAll(filepath.Join(*verifDir, ".cache"), 0o755)
	scratch, _ := os.MkdirTemp(filepath.Join(*verifDir, ".cache"), "replay-")
	defer os.RemoveAll(scratch)
	n := &nativeRunner{ov: ov, scratch: scratch, bins: map[string]string{}, hs: ovHs}
	res, err := n.run(rf.Dir, []job{{rf.Harness, rf.Vector}})
	if err != nil {
		fmt.Println("ENGINE-ERROR", err)
		return 2
	}
	fmt.Printf("replay %s harness=%s expected=%s(%s)\nnative outcome=%s\n%s\n", path, rf.Harness, rf.Kind, rf.Msg, res[0].Outcome, res[0].Msg)
	for i, nm := range rf.Names {
		fmt.Printf("  %s = %#x\n", nm, rf.Vector[i])
	}
	if res[0].Outcome == "assert" || res[0].Outcome == "panic" || res[0].Outcome == "crash" {
		fmt.Printf("VIOLATION property=%s replay=%s\n", rf.Property, path)
		return 1
	}
	return 0
}

var evDir = flag.String("out", "", "evidence directory (default <verif>/evidence)")

func evidenceDir() string {
	if *evDir != "" {
		return *evDir
	}
	return filepath.Join(*verifDir, "evidence")
}

var allFns map[*ssa.Function]bool

// redirectMatches: "Type.method" matches methods whose receiver's named type is Type (any
// package of the module, any instantiation); "pkg.Func" matches a package-level function.
func redirectMatches(f *ssa.Function, name string) bool {
	i := strings.LastIndex(name, ".")
	if i < 0 {
		return false
	}
	left, right := name[:i], name[i+1:]
	if f.Name() != right {
		return false
	}
	// "pkgname.Type.method" (any package, e.g. os.File.Write)
	if j := strings.Index(left, "."); j >= 0 {
		pkgName, typeName := left[:j], left[j+1:]
		if recv := f.Signature.Recv(); recv != nil {
			t := recv.Type()
			if p, ok := t.(*types.Pointer); ok {
				t = p.Elem()
			}
			if n, ok := t.(*types.Named); ok {
				return n.Obj().Name() == typeName && n.Obj().Pkg() != nil && n.Obj().Pkg().Name() == pkgName
			}
		}
		return false
	}
	if f.Signature.Recv() == nil && f.Pkg != nil && f.Pkg.Pkg.Name() == left && (left == "os" || left == "syscall" || left == "filepath") {
		return true // os.OpenFile, os.Rename, os.Remove, filepath.Walk …
	}
	if recv := f.Signature.Recv(); recv != nil {
		t := recv.Type()
		if p, ok := t.(*types.Pointer); ok {
			t = p.Elem()
		}
		if n, ok := t.(*types.Named); ok {
			return n.Obj().Name() == left && n.Obj().Pkg() != nil && strings.HasPrefix(n.Obj().Pkg().Path(), module)
		}
		return false
	}
	return f.Pkg != nil && f.Pkg.Pkg.Name() == left && strings.HasPrefix(f.Pkg.Pkg.Path(), module)
}
