//go:build verif

// verif:dir banyand/measure
package measure

import (
	stdbytes "bytes"

	"github.com/apache/skywalking-banyandb/pkg/bytes"
	"github.com/apache/skywalking-banyandb/pkg/encoding"
	pbv1 "github.com/apache/skywalking-banyandb/pkg/pb/v1"
	"github.com/apache/skywalking-banyandb/pkg/zzverif"
)

func c01Same(a, b []byte) bool {
	if a == nil || b == nil {
		return a == nil && b == nil
	}
	return stdbytes.Equal(a, b)
}

//verif:harness prop=C01 tier=quick,thorough reach=decoded paths=400000
// The measure column store/load mechanism is lossless for int64 columns: whatever mix of values
// and explicit nulls a column holds, decodeInt64Column(encodeInt64Column(values)) returns the
// same rows - nulls stay nulls, every integer keeps all 64 bits - through every integer list
// mode and the plain fallback taken when a null is present.
// bound: 1..2 rows (thorough 3 with 16-bit values), each null or an arbitrary 8-byte order-preserving int64
func VerifH_C01_Int64ColumnRoundTrip() {
	maxRows := 2
	if zzverif.Thorough() {
		maxRows = 3
	}
	n := 1 + zzverif.Choice("rows", maxRows)
	c := &column{name: "v", valueType: pbv1.ValueTypeInt64}
	for i := 0; i < n; i++ {
		if zzverif.Bool("null") {
			c.values = append(c.values, nil)
		} else if n == 3 {
			c.values = append(c.values, []byte{0x80, 0, 0, 0, 0, 0, zzverif.Byte("hi"), zzverif.Byte("lo")})
		} else {
			c.values = append(c.values, zzverif.Bytes("value", 8))
		}
	}
	// the literal 4-byte string "null" is the codec's own null marker: only 8-byte values reach it
	bb := &bytes.Buffer{}
	c.encodeInt64Column(bb)
	zzverif.Reach("encoded")
	out := &column{name: "v", valueType: pbv1.ValueTypeInt64}
	out.decodeInt64Column(&encoding.BytesBlockDecoder{}, "p", uint64(n), &bytes.Buffer{Buf: bb.Buf})
	zzverif.Reach("decoded")
	zzverif.Assert(len(out.values) == n, "row count survives")
	for i := 0; i < n && i < len(out.values); i++ {
		zzverif.Assert(c01Same(out.values[i], c.values[i]), "every int64 cell (or null) is returned exactly as written")
	}
}

//verif:harness prop=C01 tier=quick,thorough reach=decoded paths=400000
// String/binary columns: null, empty and non-empty values are all distinguished and returned
// byte for byte through the dictionary encoding.
// bound: 1..3 rows, each null | empty | 1..2 arbitrary bytes
func VerifH_C01_DefaultColumnRoundTrip() {
	n := 1 + zzverif.Choice("rows", 3)
	c := &column{name: "v", valueType: pbv1.ValueTypeStr}
	for i := 0; i < n; i++ {
		switch k := zzverif.Choice("kind", 4); k {
		case 0:
			c.values = append(c.values, nil)
		case 1:
			c.values = append(c.values, []byte{})
		default:
			c.values = append(c.values, zzverif.Bytes("value", k-1))
		}
	}
	bb := &bytes.Buffer{}
	c.encodeDefault(bb)
	out := &column{name: "v", valueType: pbv1.ValueTypeStr}
	out.decodeDefault(&encoding.BytesBlockDecoder{}, &bytes.Buffer{Buf: bb.Buf}, uint64(n), "p")
	zzverif.Reach("decoded")
	zzverif.Assert(len(out.values) == n, "row count survives")
	for i := 0; i < n && i < len(out.values); i++ {
		zzverif.Assert(c01Same(out.values[i], c.values[i]), "every string/binary cell (null, empty or data) is returned exactly as written")
	}
}
