//go:build verif

// verif:dir banyand/measure
package measure

import (
	"github.com/apache/skywalking-banyandb/api/common"
	"github.com/apache/skywalking-banyandb/pkg/encoding"
	pbv1 "github.com/apache/skywalking-banyandb/pkg/pb/v1"
	"github.com/apache/skywalking-banyandb/pkg/zzverif"
)

// ---- the merge loop's environment: a block source and a block sink ----

type c03Src struct {
	sid        common.SeriesID
	timestamps []int64
	versions   []int64
	values     []string
	encoded    []byte
}

type c03Row struct {
	sid   common.SeriesID
	ts    int64
	value string
}

var (
	c03Sources []c03Src
	c03Next    int
	c03Written []c03Row
)

func c03StubNextBlockMetadata(br *blockReader) bool {
	if c03Next >= len(c03Sources) {
		return false
	}
	s := &c03Sources[c03Next]
	c03Next++
	br.block = &blockPointer{}
	br.block.bm.seriesID = s.sid
	br.block.bm.count = uint64(len(s.timestamps))
	br.block.bm.timestamps.min = s.timestamps[0]
	br.block.bm.timestamps.max = s.timestamps[len(s.timestamps)-1]
	return true
}

// c03StubLoadBlockData stands for reading the block's columns from the part files: the values
// of the (plain-encoded) string column are decoded by the REAL bytes-block decoder handed in by
// the merge loop, exactly as column.mustReadValues does, so they alias that decoder's buffer.
func c03StubLoadBlockData(br *blockReader, decoder *encoding.BytesBlockDecoder) {
	s := &c03Sources[c03Next-1]
	b := &br.block.block
	b.timestamps = append(b.timestamps[:0], s.timestamps...)
	b.versions = append(b.versions[:0], s.versions...)
	vals, err := decoder.Decode(nil, s.encoded, uint64(len(s.values)))
	if err != nil {
		panic(err)
	}
	b.tagFamilies = []columnFamily{{name: "tf", columns: []column{{name: "s", valueType: pbv1.ValueTypeStr, values: vals}}}}
}

func c03StubReaderError(_ *blockReader) error { return nil }

func c03StubWriteBlock(_ *blockWriter, sid common.SeriesID, b *block) {
	for i, ts := range b.timestamps {
		c03Written = append(c03Written, c03Row{sid: sid, ts: ts, value: string(b.tagFamilies[0].columns[0].values[i])})
	}
}

func c03StubWriterFlush(_ *blockWriter, _ *partMetadata, _ *tagType) {}

//verif:harness prop=C03 tier=quick,thorough reach=merged native=off paths=400000 redirect=blockReader.nextBlockMetadata:c03StubNextBlockMetadata,blockReader.loadBlockData:c03StubLoadBlockData,blockReader.error:c03StubReaderError,blockWriter.mustWriteBlock:c03StubWriteBlock,blockWriter.Flush:c03StubWriterFlush
// The merge loop over the blocks of several parts (mergeBlocks) writes every input row exactly
// once with the tag value it was stored with - in particular when a merged block outgrows the
// block-length limit and is split: the rows kept for the next round must still hold their own
// bytes after the loop has gone on to decode the following block (column values are slices into
// the value decoder's buffer, and the decoder is handed back to its pool between rounds).
// patch: banyand/measure/measure.go | maxBlockLength = 8 * 1024 | maxBlockLength = 4
// bound: 3..4 source blocks of one or more series with 2..3 rows each (thorough 1..4) (timestamps distinct, blocks ordered as the block reader orders them), one string column with values of 2 or 24 bytes (all short | all long | short then long), block-length limit reduced from 8192 to 4 rows by the source patch above; block source/sink are stubs, the value decoder, its pool, copyFrom/append/mergeTwoBlocks and the loop are the real code
func VerifH_C03_MergeLoopKeepsRowValuesAcrossSplits() {
	for i := 0; i < 8; i++ { // start from an empty decoder pool
		_ = generateColumnValuesDecoder()
	}
	n := 3 + zzverif.Choice("blocks", 2)
	// value sizes: all short | all long | short blocks followed by long ones
	sizes := zzverif.Choice("value sizes", 3)
	c03Sources, c03Next, c03Written = nil, 0, nil
	want := map[int64]string{}
	ts := int64(0)
	sid := common.SeriesID(1)
	for b := 0; b < n; b++ {
		if b > 0 && zzverif.Bool("next series") {
			sid++
			ts = 0
		}
		rows := 2 + zzverif.Choice("rows", 2)
		if zzverif.Thorough() {
			rows = 1 + zzverif.Choice("rows", 4)
		}
		long := sizes == 1 || (sizes == 2 && b >= 2)
		src := c03Src{sid: sid}
		var raw [][]byte
		// blocks of one series arrive ordered by first timestamp; every second block interleaves
		// with its predecessor so that the loop takes the row-by-row merge path
		start := ts + 1
		if b > 0 && src.sid == c03Sources[b-1].sid && zzverif.Bool("overlaps the previous block") {
			start = c03Sources[b-1].timestamps[0] + 1
		}
		for r := 0; r < rows; r++ {
			t := start + int64(2*r)
			for want[int64(src.sid)<<32|t] != "" {
				t++
			}
			v := string(rune('a'+b)) + string(rune('0'+r))
			if long {
				v += "xxxxxxxxxxxxxxxxxxxxxx"
			}
			src.timestamps = append(src.timestamps, t)
			src.versions = append(src.versions, 1)
			src.values = append(src.values, v)
			raw = append(raw, []byte(v))
			want[int64(src.sid)<<32|t] = v
			if t > ts {
				ts = t
			}
		}
		src.encoded = encoding.EncodeBytesBlock(nil, raw)
		c03Sources = append(c03Sources, src)
	}
	_, _, err := mergeBlocks(make(chan struct{}), &blockWriter{}, &blockReader{}, nil)
	zzverif.Reach("merged")
	zzverif.Assert(err == nil, "the merge loop succeeds")
	zzverif.Assert(len(c03Written) == len(want), "every input row is written exactly once")
	seen := map[int64]bool{}
	for _, w := range c03Written {
		k := int64(w.sid)<<32 | w.ts
		zzverif.Assert(!seen[k], "no row is written twice")
		seen[k] = true
		zzverif.Assert(w.value == want[k], "a merged row carries the tag value it was stored with")
	}
}
