//go:build verif

// verif:dir banyand/measure
package measure

import (
	"github.com/apache/skywalking-banyandb/api/common"
	pbv1 "github.com/apache/skywalking-banyandb/pkg/pb/v1"
	"github.com/apache/skywalking-banyandb/pkg/zzverif"
)

// c02Block builds a block of n rows with strictly increasing arbitrary timestamps, arbitrary
// versions and one field column whose value identifies the row (side<<4 | index).
func c02Block(side byte, n int) *blockPointer {
	bp := &blockPointer{}
	col := column{name: "f", valueType: pbv1.ValueTypeInt64}
	for i := 0; i < n; i++ {
		ts := zzverif.Int64("ts")
		zzverif.Assume(ts > 0)
		if i > 0 {
			zzverif.Assume(bp.timestamps[i-1] < ts)
		}
		bp.timestamps = append(bp.timestamps, ts)
		bp.versions = append(bp.versions, zzverif.Int64("version"))
		col.values = append(col.values, []byte{side<<4 | byte(i)})
	}
	bp.field.columns = []column{col}
	if n > 0 {
		bp.bm.timestamps.min = bp.timestamps[0]
		bp.bm.timestamps.max = bp.timestamps[n-1]
	}
	return bp
}

//verif:harness prop=C02,C03 tier=quick,thorough reach=merged paths=400000
// Merging two blocks of one series: the result has strictly increasing timestamps, contains
// exactly the timestamps of either input, and for a timestamp present in both keeps the row
// with the greater version (either when tied) together with ITS field value; rows present in
// one input only are kept unchanged. (Also the version-resolved-union half of C03.)
// bound: 1..3 rows per block (thorough 1..4), arbitrary positive timestamps and arbitrary versions; one field column; no tag families (TopN merge excluded)
// assume: each input block has strictly increasing timestamps (blocks are written de-duplicated; see VerifH_C02_MemPartDedup)
func VerifH_C02_MergeTwoBlocks() {
	maxN := 3
	if zzverif.Thorough() {
		maxN = 4
	}
	nl, nr := 1+zzverif.Choice("nl", maxN), 1+zzverif.Choice("nr", maxN)
	left, right := c02Block(1, nl), c02Block(2, nr)
	// keep copies: mergeTwoBlocks advances idx and may swap the pointers
	lts, lvs := append([]int64{}, left.timestamps...), append([]int64{}, left.versions...)
	rts, rvs := append([]int64{}, right.timestamps...), append([]int64{}, right.versions...)
	target := &blockPointer{}
	mergeTwoBlocks(target, left, right)
	zzverif.Reach("merged")
	n := len(target.timestamps)
	zzverif.Assert(len(target.versions) == n, "versions column has one entry per row")
	zzverif.Assert(len(target.field.columns) == 1 && len(target.field.columns[0].values) == n, "field column has one entry per row")
	if len(target.field.columns) != 1 || len(target.field.columns[0].values) != n || len(target.versions) != n {
		return
	}
	for i := 1; i < n; i++ {
		zzverif.Assert(target.timestamps[i-1] < target.timestamps[i], "merged timestamps are strictly increasing (one row per timestamp)")
	}
	find := func(ts []int64, t int64) int {
		for i, x := range ts {
			if x == t {
				return i
			}
		}
		return -1
	}
	for i := 0; i < n; i++ {
		t, v := target.timestamps[i], target.versions[i]
		val := target.field.columns[0].values[i]
		zzverif.Assert(len(val) == 1, "row keeps a field value")
		if len(val) != 1 {
			return
		}
		li, ri := find(lts, t), find(rts, t)
		zzverif.Assert(li >= 0 || ri >= 0, "every merged row comes from an input")
		switch {
		case li >= 0 && ri >= 0:
			lwin := zzverif.And(v == lvs[li], val[0] == 1<<4|byte(li))
			rwin := zzverif.And(v == rvs[ri], val[0] == 2<<4|byte(ri))
			zzverif.Assert(zzverif.Or(zzverif.And(lvs[li] >= rvs[ri], lwin), zzverif.And(rvs[ri] >= lvs[li], rwin)),
				"for a timestamp in both blocks the row with the greatest version wins, with its own field value")
		case li >= 0:
			zzverif.Assert(v == lvs[li] && val[0] == 1<<4|byte(li), "a left-only row is kept unchanged")
		case ri >= 0:
			zzverif.Assert(v == rvs[ri] && val[0] == 2<<4|byte(ri), "a right-only row is kept unchanged")
		}
	}
	for _, t := range lts {
		zzverif.Assert(find(target.timestamps, t) >= 0, "no left timestamp is lost")
	}
	for _, t := range rts {
		zzverif.Assert(find(target.timestamps, t) >= 0, "no right timestamp is lost")
	}
}

func c02StubInit(_ *blockWriter, _ *memPart) {}
func c02StubWrite(_ *blockWriter, _ common.SeriesID, _, _ []int64, _ [][]nameValues, _ []nameValues) {
}
func c02StubFlush(_ *blockWriter, _ *partMetadata, _ *tagType) {}

//verif:harness prop=C02,C01 tier=quick,thorough reach=deduped paths=400000 redirect=blockWriter.MustInitForMemPart:c02StubInit,blockWriter.MustWriteDataPoints:c02StubWrite,blockWriter.Flush:c02StubFlush random=0
// Building a memory part from one write batch: after the real sort and de-duplication loop the
// batch holds one row per (series, timestamp), in (series, timestamp) order, and that row is one
// with the greatest version among the written duplicates, with its own field value; no
// (series, timestamp) is lost.
// bound: 1..4 data points (thorough 5) over series {1,2}, arbitrary positive timestamps and arbitrary versions
// assume: timestamps > 0 (segments reject UnixNano() <= 0; the loop uses 0 as "no previous timestamp")
// outside: block splitting at 8192 rows / 8 MiB (symbolic executor stubs the block writer; the native replay runs the real one)
func VerifH_C02_MemPartDedup() {
	maxN := 4
	if zzverif.Thorough() {
		maxN = 5
	}
	n := 1 + zzverif.Choice("n", maxN)
	dps := &dataPoints{}
	type in struct {
		sid     common.SeriesID
		ts, ver int64
	}
	var ins []in
	for i := 0; i < n; i++ {
		sid := common.SeriesID(1 + zzverif.Choice("sid", 2))
		ts, ver := zzverif.Int64("ts"), zzverif.Int64("version")
		zzverif.Assume(ts > 0)
		ins = append(ins, in{sid, ts, ver})
		dps.seriesIDs = append(dps.seriesIDs, sid)
		dps.timestamps = append(dps.timestamps, ts)
		dps.versions = append(dps.versions, ver)
		dps.tagFamilies = append(dps.tagFamilies, nil)
		dps.fields = append(dps.fields, nameValues{name: "f", values: []*nameValue{{name: "v", value: []byte{byte(i)}, valueType: pbv1.ValueTypeBinaryData}}})
	}
	mp := generateMemPart()
	mp.mustInitFromDataPoints(dps)
	zzverif.Reach("deduped")
	m := len(dps.timestamps)
	zzverif.Assert(len(dps.seriesIDs) == m && len(dps.versions) == m && len(dps.fields) == m, "columns of the batch stay aligned")
	if len(dps.seriesIDs) != m || len(dps.versions) != m || len(dps.fields) != m {
		return
	}
	for k := 0; k < m; k++ {
		if k > 0 {
			zzverif.Assert(zzverif.Or(dps.seriesIDs[k-1] < dps.seriesIDs[k],
				zzverif.And(dps.seriesIDs[k-1] == dps.seriesIDs[k], dps.timestamps[k-1] < dps.timestamps[k])),
				"rows are in strictly increasing (series, timestamp) order: one row per series and timestamp")
		}
		src := int(dps.fields[k].values[0].value[0])
		zzverif.Assert(src < n, "every kept row is a written row")
		if src >= n {
			return
		}
		zzverif.Assert(ins[src].sid == dps.seriesIDs[k] && ins[src].ts == dps.timestamps[k] && ins[src].ver == dps.versions[k], "a kept row carries its own series, timestamp, version and field")
		for _, o := range ins {
			if o.sid == dps.seriesIDs[k] {
				zzverif.Assert(zzverif.Implies(o.ts == dps.timestamps[k], o.ver <= dps.versions[k]), "the kept row has the greatest version written for its series and timestamp")
			}
		}
	}
	for _, o := range ins {
		found := false
		for k := 0; k < m; k++ {
			if dps.seriesIDs[k] == o.sid {
				found = zzverif.Or(found, dps.timestamps[k] == o.ts)
			}
		}
		zzverif.Assert(found, "no written (series, timestamp) disappears")
	}
}
