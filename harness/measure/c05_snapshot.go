//go:build verif

// verif:dir banyand/measure
package measure

import (
	"runtime"
	"time"

	"github.com/apache/skywalking-banyandb/pkg/fs"
	"github.com/apache/skywalking-banyandb/pkg/zzverif"
)

type c05Reader struct {
	fs.Reader
	closes *int
}

func (r c05Reader) Close() error { *r.closes++; return nil }
func (r c05Reader) Path() string { return "reader" }

type c05FS struct {
	fs.FileSystem
	removed map[string]int
}

func (f *c05FS) MustRMAll(p string) { f.removed[p]++ }

var c05Paths = []string{"p1", "p2", "p3", "p4"}

type c05Part struct {
	pw     *partWrapper
	closes *int
}

func c05NewPart(id uint64, rec *c05FS) c05Part {
	n := new(int)
	rd := c05Reader{closes: n}
	p := &part{primary: rd, timestamps: rd, fieldValues: rd, fileSystem: rec, path: c05Paths[id-1]}
	p.partMetadata.ID = id
	return c05Part{pw: newPartWrapper(nil, p), closes: n}
}

// c05Settle lets the detached directory-removal goroutines finish (native runs only; the
// symbolic executor runs them inline).
func c05Settle() {
	for i := 0; i < 50; i++ {
		runtime.Gosched()
	}
	time.Sleep(300 * time.Millisecond) // native only: lets the real deletion goroutines finish also on a loaded machine
}

//verif:harness prop=C03,C05 tier=quick,thorough reach=checked paths=200000
// Snapshot replacement algebra with a concurrent reader's pin: starting from a snapshot of K parts,
// a maintenance step builds the next snapshot (copy-all + new part | replace a subset by flushed
// parts with the same ids | drop a merged subset and add the merge result) and releases the old
// one, while a reader that pinned the old snapshot keeps using it. Until the reader releases its
// pin none of the parts it sees is closed or deleted; afterwards every replaced/removed part is
// closed exactly once (removed ones deleted exactly once) and every surviving part is still open
// with exactly one reference (the new snapshot's); the new snapshot holds exactly the specified parts.
// bound: K = 1..3 parts, any subset affected, reader pin present or absent, reader release before or after the old snapshot's release
func VerifH_C05_SnapshotAlgebra() {
	rec := &c05FS{removed: map[string]int{}}
	k := 1 + zzverif.Choice("k", 3)
	var parts []c05Part
	s0 := &snapshot{epoch: 1, ref: 1}
	for i := 0; i < k; i++ {
		p := c05NewPart(uint64(i+1), rec)
		parts = append(parts, p)
		s0.parts = append(s0.parts, p.pw)
	}
	affected := make([]bool, k)
	for i := range affected {
		affected[i] = zzverif.Bool("affected")
	}
	reader := zzverif.Bool("reader")
	if reader {
		s0.incRef()
	}
	op := zzverif.Choice("op", 3)
	var s1 snapshot
	var fresh []c05Part
	switch op {
	case 0: // new mem/flushed part introduced
		s1 = s0.copyAllTo(2)
		np := c05NewPart(4, rec)
		fresh = append(fresh, np)
		s1.parts = append(s1.parts, np.pw)
	case 1: // flush: affected parts are replaced by new wrappers with the same id
		next := map[uint64]*partWrapper{}
		for i := range parts {
			if affected[i] {
				np := c05NewPart(uint64(i+1), rec)
				fresh = append(fresh, np)
				next[uint64(i+1)] = np.pw
			}
		}
		s1 = s0.merge(2, next)
	case 2: // merge: affected parts are removed, one merged part is added
		merged := map[uint64]struct{}{}
		for i := range parts {
			if affected[i] {
				merged[uint64(i+1)] = struct{}{}
			}
		}
		s1 = s0.remove(2, merged)
		np := c05NewPart(4, rec)
		fresh = append(fresh, np)
		s1.parts = append(s1.parts, np.pw)
	}
	readerFirst := zzverif.Bool("readerReleasesFirst")
	check := func() {
		for i := range parts {
			zzverif.Assert(*parts[i].closes == 0 && rec.removed[c05Paths[i]] == 0, "a part of a pinned snapshot is neither closed nor deleted before the pin is released")
		}
	}
	if reader && readerFirst {
		check()
		s0.decRef()
	}
	s0.decRef() // the introducer releases the replaced snapshot
	if reader && !readerFirst {
		check()
		s0.decRef()
	}
	c05Settle()
	zzverif.Reach("checked")
	// the new snapshot's content
	wantLen := 0
	for i := range parts {
		gone := op == 2 && affected[i]
		replaced := op == 1 && affected[i]
		inNew := 0
		for _, pw := range s1.parts {
			if pw == parts[i].pw {
				inNew++
			}
		}
		switch {
		case gone:
			zzverif.Assert(inNew == 0, "a merged-away part is not in the next snapshot")
			zzverif.Assert(*parts[i].closes == 3 && rec.removed[c05Paths[i]] == 1, "a merged-away part is closed once and its directory removed once after its last holder released it")
		case replaced:
			wantLen++
			zzverif.Assert(inNew == 0, "a flushed part's old wrapper is not in the next snapshot")
			zzverif.Assert(*parts[i].closes == 3 && rec.removed[c05Paths[i]] == 0, "a replaced wrapper is closed once and not deleted")
		default:
			wantLen++
			zzverif.Assert(inNew == 1, "an unaffected part is carried over exactly once")
			zzverif.Assert(*parts[i].closes == 0 && rec.removed[c05Paths[i]] == 0 && parts[i].pw.ref == 1, "a surviving part stays open with exactly the new snapshot's reference")
		}
	}
	for _, f := range fresh {
		n := 0
		for _, pw := range s1.parts {
			if pw == f.pw {
				n++
			}
		}
		zzverif.Assert(n == 1 && f.pw.ref == 1 && *f.closes == 0, "a newly introduced part is in the next snapshot once, open, with one reference")
	}
	if op != 1 {
		wantLen++
	}
	zzverif.Assert(len(s1.parts) == wantLen && s1.ref == 1 && s1.epoch == 2, "the next snapshot holds exactly the specified parts")
}

func c05StubPersist(_ *tsTable, _ *snapshot) {}

//verif:harness prop=C05 tier=quick,thorough reach=finished native=off paths=2000000 depth=400 redirect=tsTable.persistSnapshot:c05StubPersist
// Queries versus maintenance under EVERY interleaving: one or two readers pin the current
// snapshot (currentSnapshot), look at its parts and release it, while the introducer replaces
// the snapshot with the result of a merge (one part merged away, one new part). A reader always
// gets a snapshot whose parts are all still open and on disk for as long as it holds the pin -
// either the old or the new snapshot, never a mixture; the merged-away part is closed and deleted
// exactly once, after its last reader; the survivors end with exactly the new snapshot's reference.
// bound: 2 parts, 1 merge introduction, 1 reader (thorough 2 readers); all interleavings of the atomic and lock operations
// assume: sequential consistency of sync/atomic and mutex operations
func VerifH_C05_ReadersVsIntroducer() {
	rec := &c05FS{removed: map[string]int{}}
	p1, p2, p3 := c05NewPart(1, rec), c05NewPart(2, rec), c05NewPart(3, rec)
	tst := &tsTable{snapshot: &snapshot{epoch: 1, ref: 1, parts: []*partWrapper{p1.pw, p2.pw}}}
	old := tst.snapshot
	reader := func() {
		s := tst.currentSnapshot()
		zzverif.Assert(s != nil, "a reader always finds a current snapshot")
		if s == nil {
			return
		}
		zzverif.Yield()
		isOld := s == old
		if isOld {
			zzverif.Assert(len(s.parts) == 2 && s.parts[0] == p1.pw && s.parts[1] == p2.pw, "the old snapshot still lists exactly its parts while pinned")
			zzverif.Assert(*p1.closes == 0 && *p2.closes == 0 && rec.removed["p1"] == 0 && rec.removed["p2"] == 0, "parts of a pinned snapshot are open and on disk")
		} else {
			zzverif.Assert(len(s.parts) == 2 && s.parts[0] == p2.pw && s.parts[1] == p3.pw, "the new snapshot lists the survivor and the merge result, never the merged-away part")
			zzverif.Assert(*p2.closes == 0 && *p3.closes == 0 && rec.removed["p2"] == 0 && rec.removed["p3"] == 0, "parts of a pinned snapshot are open and on disk")
		}
		s.decRef()
	}
	introducer := func() {
		tst.introduceMerged(&mergerIntroduction{merged: map[uint64]struct{}{1: {}}, newPart: p3.pw, creator: snapshotCreatorMerger}, 2)
	}
	if zzverif.Thorough() {
		zzverif.Par(reader, reader, introducer)
	} else {
		zzverif.Par(reader, introducer)
	}
	zzverif.Reach("finished")
	zzverif.Assert(tst.snapshot != old && tst.snapshot.epoch == 2 && tst.snapshot.ref == 1, "the merge result is published with one reference")
	zzverif.Assert(old.ref == 0, "the replaced snapshot is fully released")
	zzverif.Assert(*p1.closes == 3 && rec.removed["p1"] == 1, "the merged-away part is closed and deleted exactly once")
	zzverif.Assert(*p2.closes == 0 && *p3.closes == 0 && p2.pw.ref == 1 && p3.pw.ref == 1 && rec.removed["p2"] == 0 && rec.removed["p3"] == 0, "surviving parts stay open with exactly the new snapshot's reference")
}
