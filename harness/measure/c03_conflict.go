//go:build verif

// verif:dir banyand/measure
package measure

import (
	pbv1 "github.com/apache/skywalking-banyandb/pkg/pb/v1"
	"github.com/apache/skywalking-banyandb/pkg/zzverif"
)

//verif:harness prop=C03,C01 tier=quick,thorough reach=renamed paths=400000
// Merging parts whose schemas disagree on a tag's type keeps both values: a tag is in conflict
// exactly when two of the merged parts store it (under its plain or its already type-suffixed
// name) with different types; in every block fed to the merge each conflicting tag - in
// whichever tag family of the block it sits - is renamed to its typed name, and no other column
// is touched, so values of different types never fold into one column.
// bound: 2 parts (thorough 2..3), 2 tag families with one varying tag each (and one tag that never conflicts), per part and varying tag: absent | string | int | already type-suffixed string | already type-suffixed int; blocks with both families in either order
func VerifH_C03_ConflictingTagTypesAreKeptApart() {
	fams := []string{"fa", "fb"}
	tags := []string{"x", "y"}
	types := []pbv1.ValueType{pbv1.ValueTypeStr, pbv1.ValueTypeInt64}
	n := 2
	if zzverif.Thorough() {
		n = 2 + zzverif.Choice("parts", 2)
	}
	var parts []*partWrapper
	seen := map[string]map[pbv1.ValueType]bool{} // family/tag -> types
	for p := 0; p < n; p++ {
		tt := tagType{}
		for _, f := range fams {
			for _, t := range tags[:1] { // the second tag of each family is never stored with two types
				k := 0
				for sym := zzverif.Choice("kind", 5); k < 4 && sym != k; {
					k++
				}
				if k == 0 {
					continue
				}
				vt := types[(k-1)%2]
				name := t
				if k >= 3 {
					name = encodeTypedColumn(t, vt)
				}
				if tt[f] == nil {
					tt[f] = map[string]pbv1.ValueType{}
				}
				tt[f][name] = vt
				if seen[f+"/"+t] == nil {
					seen[f+"/"+t] = map[pbv1.ValueType]bool{}
				}
				seen[f+"/"+t][vt] = true
			}
		}
		pw := newPartWrapper(nil, &part{tagType: tt})
		parts = append(parts, pw)
	}
	conflicts := collectConflictColumns(parts)
	for _, f := range fams {
		for _, t := range tags {
			_, got := conflicts[f][t]
			zzverif.Assert(got == (len(seen[f+"/"+t]) > 1), "a tag is in conflict exactly when two merged parts store it with different types")
		}
	}
	// a block of one of the parts: both families (either order), both tags as strings
	order := []int{0, 1}
	if zzverif.Bool("families swapped") {
		order = []int{1, 0}
	}
	b := &block{}
	for _, fi := range order {
		cf := columnFamily{name: fams[fi]}
		for _, t := range tags {
			cf.columns = append(cf.columns, column{name: t, valueType: pbv1.ValueTypeStr, values: [][]byte{[]byte("v")}})
		}
		b.tagFamilies = append(b.tagFamilies, cf)
	}
	renameConflictColumns(b, conflicts)
	zzverif.Reach("renamed")
	for _, cf := range b.tagFamilies {
		for j, t := range tags {
			want := t
			if len(seen[cf.name+"/"+t]) > 1 {
				want = encodeTypedColumn(t, pbv1.ValueTypeStr)
			}
			zzverif.Assert(cf.columns[j].name == want, "every conflicting tag of the block is renamed to its typed name, nothing else is")
		}
	}
}
