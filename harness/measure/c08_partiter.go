//go:build verif

// verif:dir banyand/measure
package measure

import (
	"github.com/apache/skywalking-banyandb/api/common"
	"github.com/apache/skywalking-banyandb/pkg/zzverif"
)

var c08PrimaryContent [][]blockMetadata

// c08StubReadPrimary stands for reading and decoding one primary index block from the part file.
func c08StubReadPrimary(pi *partIter, mr *primaryBlockMetadata) error {
	pi.bms = c08PrimaryContent[mr.offset]
	return nil
}

//verif:harness prop=C08,C09 tier=quick,thorough reach=iterated native=off paths=2000000 redirect=partIter.readPrimaryBlock:c08StubReadPrimary
// Scanning one part for a query: for ANY layout of the part's blocks into primary index blocks,
// any sorted list of wanted series and any time window, the part iterator yields exactly the
// blocks whose series is wanted and whose time range intersects the window - each once, in
// (series, time) order - i.e. the series/primary-block binary searches and the time pruning
// never skip a matching block and never yield another.
// bound: 1..3 blocks (thorough 1..4) over series {1,2,3} in writing order (series non-decreasing, per series disjoint increasing time ranges), primary index blocks cut after any block with the range metadata the writer records, wanted series = any subset of {1,2,3} (thorough {1,2,3,4}), arbitrary window
func VerifH_C08_PartIteratorYieldsExactlyTheMatchingBlocks() {
	maxN := 3
	if zzverif.Thorough() {
		maxN = 4
	}
	n := 1 + zzverif.Choice("blocks", maxN)
	var blocks []blockMetadata
	sid := common.SeriesID(1)
	for i := 0; i < n; i++ {
		if i > 0 && sid < 3 && zzverif.Bool("next series") {
			sid++
			if sid < 3 && zzverif.Bool("skip a series") {
				sid++
			}
		}
		var bm blockMetadata
		bm.seriesID = sid
		bm.timestamps.min, bm.timestamps.max = zzverif.Int64("min"), zzverif.Int64("max")
		zzverif.Assume(bm.timestamps.min <= bm.timestamps.max)
		if i > 0 && blocks[i-1].seriesID == sid {
			zzverif.Assume(blocks[i-1].timestamps.max < bm.timestamps.min)
		}
		bm.count = uint64(i + 1) // identifies the block
		blocks = append(blocks, bm)
	}
	// primary index blocks: cut after any block; metadata as blockWriter records it
	c08PrimaryContent = nil
	var pbms []primaryBlockMetadata
	start := 0
	for i := 0; i < n; i++ {
		if i == n-1 || zzverif.Bool("primary block cut") {
			var pbm primaryBlockMetadata
			pbm.seriesID = blocks[start].seriesID
			pbm.minTimestamp, pbm.maxTimestamp = blocks[start].timestamps.min, blocks[start].timestamps.max
			for _, b := range blocks[start+1 : i+1] {
				pbm.minTimestamp = zzverif.IteI(b.timestamps.min < pbm.minTimestamp, b.timestamps.min, pbm.minTimestamp)
				pbm.maxTimestamp = zzverif.IteI(b.timestamps.max > pbm.maxTimestamp, b.timestamps.max, pbm.maxTimestamp)
			}
			pbm.offset = uint64(len(pbms))
			pbms = append(pbms, pbm)
			c08PrimaryContent = append(c08PrimaryContent, append([]blockMetadata(nil), blocks[start:i+1]...))
			start = i + 1
		}
	}
	var sids []common.SeriesID
	wanted := map[common.SeriesID]bool{}
	maxWanted := common.SeriesID(3)
	if zzverif.Thorough() {
		maxWanted = 4
	}
	for s := common.SeriesID(1); s <= maxWanted; s++ {
		if zzverif.Bool("series wanted") {
			sids = append(sids, s)
			wanted[s] = true
		}
	}
	zzverif.Assume(len(sids) > 0)
	begin, end := zzverif.Int64("begin"), zzverif.Int64("end")
	p := &part{primaryBlockMetadata: pbms}
	pi := &partIter{}
	pi.init(p, sids, begin, end)
	var got []uint64
	for steps := 0; steps < 12 && pi.nextBlock(); steps++ {
		got = append(got, pi.curBlock.count)
	}
	zzverif.Reach("iterated")
	zzverif.Assert(pi.error() == nil, "the scan ends without error")
	k := 0
	for _, b := range blocks {
		match := false
		if wanted[b.seriesID] {
			match = zzverif.And(b.timestamps.min <= end, b.timestamps.max >= begin)
		}
		yielded := k < len(got) && got[k] == b.count
		zzverif.Assert(yielded == match, "a block is yielded exactly when its series is wanted and its time range intersects the window")
		if yielded {
			k++
		}
	}
	zzverif.Assert(k == len(got), "nothing else is yielded")
}
