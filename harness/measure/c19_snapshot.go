//go:build verif

// verif:dir banyand/measure
package measure

import (
	"bytes"
	"encoding/json"
	"errors"

	"github.com/apache/skywalking-banyandb/pkg/fs"
	"github.com/apache/skywalking-banyandb/pkg/logger"
	"github.com/apache/skywalking-banyandb/pkg/zzverif"
)

type c19File struct {
	fs.File
	data *[]byte
}

func (f c19File) Write(b []byte) (int, error) { *f.data = append(*f.data, b...); return len(b), nil }
func (f c19File) Close() error                { return nil }

type c19FS struct {
	fs.FileSystem
	linked    []string
	failAt    int // index of the link call that fails (-1: none)
	created   []string
	manifest  []byte
	removed   []string
	synced    int
	refAtLink []int32
	snap      *snapshot
	introAt   int    // the link call during which a concurrent introduction lands (-1: none)
	intro     func() // publishes a newer snapshot, as the introducer would
	links     int
}

func (f *c19FS) CreateHardLink(src, dst string, _ func(string) bool) error {
	f.refAtLink = append(f.refAtLink, f.snap.ref)
	if f.links == f.introAt && f.intro != nil {
		f.intro()
	}
	f.links++
	if len(f.linked) == f.failAt {
		return errors.New("link failed")
	}
	f.linked = append(f.linked, src+"->"+dst)
	return nil
}
func (f *c19FS) CreateFile(name string, _ fs.Mode) (fs.File, error) {
	f.created = append(f.created, name)
	return c19File{data: &f.manifest}, nil
}
func (f *c19FS) MustRMAll(p string) { f.removed = append(f.removed, p) }
func (f *c19FS) SyncPath(string)    { f.synced++ }

//verif:harness prop=C19 tier=quick,thorough reach=taken paths=200000
// Taking a file snapshot of a shard: the current snapshot stays pinned for the whole call and
// is released afterwards; every on-disk part of it is hard-linked into the destination; on
// success exactly one manifest is written, named after the pinned epoch, listing exactly the
// pinned snapshot's parts, and the parent directory is synced; if any link fails the call
// reports the error and removes the whole destination; a snapshot with only in-memory parts
// writes nothing.
// bound: 1..3 parts, each on disk or in memory, the k-th hard link may fail; a newer snapshot (one more part, next epoch) may be introduced during the k-th link: manifest and links must still describe the snapshot pinned at the start
// outside: the manifest also names in-memory parts of the pinned snapshot, which are not copied (the loader only opens part directories that exist); segment- and database-level snapshot orchestration, restoring and querying the copy
func VerifH_C19_TakeFileSnapshot() {
	rec := &c19FS{failAt: -1, introAt: -1}
	if zzverif.Bool("introduction during the copy") {
		rec.introAt = zzverif.Choice("during link", 3)
	}
	if zzverif.Bool("linkFails") {
		rec.failAt = zzverif.Choice("failAt", 3)
	}
	n := 1 + zzverif.Choice("parts", 3)
	snap := &snapshot{epoch: 9, ref: 1}
	rec.snap = snap
	var names []string
	disk := 0
	for i := 0; i < n; i++ {
		p := &part{path: "/root/" + partName(uint64(i+1))}
		p.partMetadata.ID = uint64(i + 1)
		pw := newPartWrapper(nil, p)
		if zzverif.Bool("inMemory") {
			pw.mp = &memPart{}
		} else {
			disk++
		}
		snap.parts = append(snap.parts, pw)
		names = append(names, partName(uint64(i+1)))
	}
	tst := &tsTable{fileSystem: rec, snapshot: snap, l: logger.GetLogger("c19")}
	introduced := false
	rec.intro = func() {
		// a flush/merge result is introduced while the copy is in progress: the table moves on to
		// a newer snapshot (epoch 10, one more part) and drops its reference to the old one
		p := &part{path: "/root/" + partName(9)}
		p.partMetadata.ID = 9
		next := snap.copyAllTo(10)
		next.parts = append(next.parts, newPartWrapper(nil, p))
		tst.replaceSnapshot(&next, false)
		introduced = true
	}
	ok, err := tst.TakeFileSnapshot("/dst")
	zzverif.Reach("taken")
	if introduced {
		zzverif.Assert(snap.ref == 0, "the pin taken for the snapshot is released afterwards")
	} else {
		zzverif.Assert(snap.ref == 1, "the pin taken for the snapshot is released afterwards")
	}
	for i, r := range rec.refAtLink {
		if rec.introAt >= 0 && i > rec.introAt {
			zzverif.Assert(r >= 1, "the source snapshot stays pinned after the table moved on")
		} else {
			zzverif.Assert(r >= 2, "the source snapshot is pinned while its parts are being linked")
		}
	}
	failed := rec.failAt >= 0 && rec.failAt < disk
	if failed {
		zzverif.Assert(err != nil && !ok, "a failed hard link fails the snapshot")
		zzverif.Assert(len(rec.removed) == 1 && rec.removed[0] == "/dst", "a failed snapshot removes the whole destination")
		zzverif.Assert(len(rec.created) == 0, "a failed snapshot writes no manifest")
		return
	}
	zzverif.Assert(err == nil, "the snapshot succeeds when every link succeeds")
	zzverif.Assert(len(rec.removed) == 0, "a successful snapshot removes nothing")
	if disk == 0 {
		zzverif.Assert(!ok && len(rec.created) == 0 && len(rec.linked) == 0, "a shard with only in-memory parts produces no snapshot files")
		return
	}
	zzverif.Assert(ok, "a shard with on-disk parts reports a snapshot")
	zzverif.Assert(len(rec.linked) == disk, "every on-disk part of the pinned snapshot is linked exactly once")
	k := 0
	for i, pw := range snap.parts {
		if pw.mp != nil {
			continue
		}
		zzverif.Assert(rec.linked[k] == "/root/"+names[i]+"->/dst/"+names[i], "a part is linked under its own name in the destination")
		k++
	}
	zzverif.Assert(len(rec.created) == 1 && rec.created[0] == "/dst/"+snapshotName(9), "exactly one manifest is written, named after the pinned epoch")
	want, _ := json.Marshal(names)
	zzverif.Assert(bytes.Equal(rec.manifest, want), "the manifest lists exactly the pinned snapshot's parts")
	zzverif.Assert(rec.synced == 1, "the destination's parent directory is synced")
}
