//go:build verif

// verif:dir banyand/measure
package measure

import (
	"container/heap"
	"context"

	"github.com/apache/skywalking-banyandb/api/common"
	"github.com/apache/skywalking-banyandb/pkg/convert"
	pbv1 "github.com/apache/skywalking-banyandb/pkg/pb/v1"
	"github.com/apache/skywalking-banyandb/pkg/zzverif"
)

//verif:harness prop=C02,C05 tier=quick,thorough reach=pulled paths=600000 timeout=60000
// Query-time merge of the blocks of one series coming from several not yet merged parts (the
// heap of block cursors): the rows returned are the distinct timestamps of all cursors in the
// requested order (time ascending, time descending, or by series), and for a timestamp held by
// several cursors the row carries the greatest version among the copies together with the field
// value of a copy with that version - however many copies there are and in whatever order the
// parts were written.
// bound: 2..3 cursors (parts) of one series with 1..2 rows each, arbitrary positive strictly increasing timestamps per cursor, arbitrary versions; one int64 field; no tag projection; TopN merge excluded
func VerifH_C02_QueryMergeHighestVersionWins() {
	k := 2 + zzverif.Choice("cursors", 2)
	type row struct{ ts, ver, val int64 }
	var all []row
	qr := &queryResult{ctx: context.Background(), sidToIndex: map[common.SeriesID]int{1: 0}, loaded: true}
	switch zzverif.Choice("order", 3) {
	case 0:
		qr.orderByTS, qr.ascTS = true, true
	case 1:
		qr.orderByTS, qr.ascTS = true, false
	}
	for c := 0; c < k; c++ {
		bc := &blockCursor{fieldProjection: []string{"f"}}
		bc.bm.seriesID = 1
		col := column{name: "f", valueType: pbv1.ValueTypeInt64}
		n := 1 + zzverif.Choice("rows", 2)
		for i := 0; i < n; i++ {
			r := row{zzverif.Int64("ts"), zzverif.Int64("version"), int64(c*10 + i)}
			zzverif.Assume(r.ts > 0)
			if i > 0 {
				zzverif.Assume(bc.timestamps[i-1] < r.ts)
			}
			bc.timestamps = append(bc.timestamps, r.ts)
			bc.versions = append(bc.versions, r.ver)
			col.values = append(col.values, convert.Int64ToBytes(r.val))
			all = append(all, r)
		}
		bc.fields.columns = []column{col}
		if qr.orderByTimestampDesc() {
			bc.idx = n - 1
		}
		qr.data = append(qr.data, bc)
	}
	heap.Init(qr)
	res := qr.Pull()
	zzverif.Reach("pulled")
	zzverif.Assert(res != nil && res.Error == nil, "the merge yields a result")
	if res == nil {
		return
	}
	zzverif.Assert(len(res.Timestamps) == len(res.Versions) && len(res.Fields) == 1 && len(res.Fields[0].Values) == len(res.Timestamps), "columns have one entry per row")
	if len(res.Fields) != 1 || len(res.Fields[0].Values) != len(res.Timestamps) || len(res.Versions) != len(res.Timestamps) {
		return
	}
	for i := range res.Timestamps {
		if i > 0 {
			if qr.orderByTimestampDesc() {
				zzverif.Assert(res.Timestamps[i-1] > res.Timestamps[i], "rows come in strictly descending time order, one per timestamp")
			} else {
				zzverif.Assert(res.Timestamps[i-1] < res.Timestamps[i], "rows come in strictly ascending time order, one per timestamp")
			}
		}
		got := res.Fields[0].Values[i].GetInt().GetValue()
		fromCopy := false
		for _, r := range all {
			if r.ts == res.Timestamps[i] {
				zzverif.Assert(res.Versions[i] >= r.ver, "the row carries the greatest version written for its timestamp")
				if zzverif.And(r.ver == res.Versions[i], r.val == got) {
					fromCopy = true
				}
			}
		}
		zzverif.Assert(fromCopy, "version and field value come from one written copy of that timestamp")
	}
	for _, r := range all {
		found := false
		for i := range res.Timestamps {
			if res.Timestamps[i] == r.ts {
				found = true
			}
		}
		zzverif.Assert(found, "every written timestamp of the series is returned")
	}
}
