//go:build verif

// verif:dir pkg/node
package node

import (
	"context"

	commonv1 "github.com/apache/skywalking-banyandb/api/proto/banyandb/common/v1"
	"github.com/apache/skywalking-banyandb/banyand/metadata"
	"github.com/apache/skywalking-banyandb/banyand/metadata/schema"
	"github.com/apache/skywalking-banyandb/pkg/zzverif"
)

type c16Repo struct {
	metadata.Repo
	groups []*commonv1.Group
}
type c16GroupReg struct {
	schema.Group
	groups []*commonv1.Group
}

func (r c16Repo) GroupRegistry() schema.Group { return c16GroupReg{groups: r.groups} }
func (g c16GroupReg) ListGroup(context.Context) ([]*commonv1.Group, error) {
	return g.groups, nil
}

//verif:harness prop=C16 tier=quick,thorough reach=initialised paths=400000
// (Re-)initialising the node selector from the group registry leaves it with exactly the shards
// of the groups the registry lists - whatever the table held before (groups that no longer
// exist disappear) - in lookup order, so that every listed shard resolves to a node, each of its
// replicas to a different node when there are enough nodes, and shards of vanished groups are
// unknown.
// bound: table pre-filled with 0..2 shards of a vanished group; registry lists 1..2 groups ("a","b", in either order) with 1..3 shards and 0..1 extra replicas each (one may be invalid: no catalog); 2 nodes
func VerifH_C16_InitRebuildsTheShardTableFromTheRegistry() {
	repo := c16Repo{}
	r := &roundRobinSelector{schemaRegistry: &repo}
	r.nodes = []string{"n1", "n2"}
	stale := zzverif.Choice("stale shards", 3)
	for i := 0; i < stale; i++ {
		r.lookupTable = append(r.lookupTable, newKey("old", uint32(i), 0))
	}
	names := []string{"a", "b"}
	if zzverif.Bool("listed in reverse order") {
		names = []string{"b", "a"}
	}
	ng := 1 + zzverif.Choice("groups", 2)
	type want struct {
		name           string
		shards, copies uint32
	}
	var wants []want
	for i := 0; i < ng; i++ {
		shards := uint32(1 + zzverif.Choice("shards", 3))
		repl := uint32(zzverif.Choice("replicas", 2))
		g := &commonv1.Group{Metadata: &commonv1.Metadata{Name: names[i], ModRevision: int64(i + 1)}, Catalog: commonv1.Catalog_CATALOG_MEASURE,
			ResourceOpts: &commonv1.ResourceOpts{ShardNum: shards, Replicas: repl}}
		if zzverif.Bool("invalid group") {
			g.Catalog = commonv1.Catalog_CATALOG_UNSPECIFIED
		} else {
			wants = append(wants, want{names[i], shards, repl + 1})
		}
		repo.groups = append(repo.groups, g)
	}
	ok, _ := r.OnInit([]schema.Kind{schema.KindGroup})
	zzverif.Reach("initialised")
	zzverif.Assert(ok, "the selector initialises from the group registry")
	total := 0
	for _, w := range wants {
		total += int(w.shards)
		for s := uint32(0); s < w.shards; s++ {
			n0, err := r.Pick(w.name, "", s, 0)
			zzverif.Assert(err == nil && (n0 == "n1" || n0 == "n2"), "every shard of a listed group resolves to a registered node")
			if w.copies > 1 {
				n1, err1 := r.Pick(w.name, "", s, 1)
				zzverif.Assert(err1 == nil && n1 != n0, "two replicas of a shard sit on different nodes")
			}
		}
		_, err := r.Pick(w.name, "", w.shards, 0)
		zzverif.Assert(err != nil, "a shard beyond the group's shard number is unknown")
	}
	zzverif.Assert(len(r.lookupTable) == total, "the table holds exactly the shards of the listed valid groups")
	for i := 0; i < stale; i++ {
		_, err := r.Pick("old", "", uint32(i), 0)
		zzverif.Assert(err != nil, "shards of a group the registry no longer lists are unknown")
	}
	for i := 1; i < len(r.lookupTable); i++ {
		a, b := r.lookupTable[i-1], r.lookupTable[i]
		zzverif.Assert(a.group < b.group || (a.group == b.group && a.shardID < b.shardID), "the table is in (group, shard) order")
	}
}
