//go:build verif

// verif:dir pkg/node
package node

import (
	commonv1 "github.com/apache/skywalking-banyandb/api/proto/banyandb/common/v1"
	databasev1 "github.com/apache/skywalking-banyandb/api/proto/banyandb/database/v1"
	"github.com/apache/skywalking-banyandb/banyand/metadata/schema"
	"github.com/apache/skywalking-banyandb/pkg/zzverif"
)

func c16Node(name string) *databasev1.Node {
	return &databasev1.Node{Metadata: &commonv1.Metadata{Name: name}}
}

func c16Group(name string, shards, replicas uint32) schema.Metadata {
	return schema.Metadata{
		TypeMeta: schema.TypeMeta{Kind: schema.KindGroup, Name: name},
		Spec: &commonv1.Group{
			Metadata:     &commonv1.Metadata{Name: name},
			Catalog:      commonv1.Catalog_CATALOG_MEASURE,
			ResourceOpts: &commonv1.ResourceOpts{ShardNum: shards, Replicas: replicas},
		},
	}
}

// c16Event applies one arbitrary membership/group event.
func c16Event(r *roundRobinSelector, kind int, name string, shards, replicas uint32) {
	switch kind {
	case 0:
		r.AddNode(c16Node(name))
	case 1:
		r.RemoveNode(c16Node(name))
	case 2:
		r.OnAddOrUpdate(c16Group(name, shards, replicas))
	case 3:
		r.OnDelete(c16Group(name, shards, replicas))
	}
}

func c16NodesValid(r *roundRobinSelector) bool {
	ok := true
	for i := 1; i < len(r.nodes); i++ {
		ok = zzverif.And(ok, r.nodes[i-1] < r.nodes[i])
	}
	return ok
}

func c16SameState(a, b *roundRobinSelector) bool {
	if len(a.nodes) != len(b.nodes) || len(a.lookupTable) != len(b.lookupTable) {
		return false
	}
	ok := true
	for i := range a.nodes {
		ok = zzverif.And(ok, a.nodes[i] == b.nodes[i])
	}
	for i := range a.lookupTable {
		x, y := a.lookupTable[i], b.lookupTable[i]
		ok = zzverif.And(ok, zzverif.And(x.group == y.group, zzverif.And(x.shardID == y.shardID, x.replicas == y.replicas)))
	}
	return ok
}

//verif:harness prop=C16 tier=quick,thorough reach=checked paths=200000
// Node membership: after any sequence of node add/update and delete events the node list is
// sorted and duplicate-free (the representation invariant that replica-disjointness and
// coordinator agreement rest on). An "update" event for a known node arrives as another AddNode.
// bound: up to 3 events (thorough 4), node names of one arbitrary byte
func VerifH_C16_NodesInvariant() {
	r := NewRoundRobinSelector("t", nil).(*roundRobinSelector)
	steps := 3
	if zzverif.Thorough() {
		steps = 4
	}
	for s := 0; s < steps; s++ {
		name := zzverif.String("node", 1)
		if zzverif.Bool("add") {
			r.AddNode(c16Node(name))
		} else {
			r.RemoveNode(c16Node(name))
		}
		zzverif.Assert(c16NodesValid(r), "node list stays sorted and duplicate-free after every membership event")
	}
	zzverif.Reach("checked")
}

//verif:harness prop=C16 tier=quick,thorough reach=checked paths=400000
// Order independence: from any reachable state, two events (node add/remove, group
// add-or-update/delete) applied in either order yield the same shard table and node list; by
// induction every coordinator that saw the same set of events computes the same assignment.
// bound: pre-state = up to 2 nodes and 1 group (<= 2 shards); two events with one-byte names;
//        group events for different groups or of different kinds (add vs delete of one group is order dependent by nature)
func VerifH_C16_EventsCommute() {
	mk := func() *roundRobinSelector { return NewRoundRobinSelector("t", nil).(*roundRobinSelector) }
	a, b := mk(), mk()
	n0 := zzverif.Choice("prenodes", 3)
	for i := 0; i < n0; i++ {
		nm := zzverif.String("pre", 1)
		a.AddNode(c16Node(nm))
		b.AddNode(c16Node(nm))
	}
	zzverif.Assume(c16NodesValid(a))
	if zzverif.Bool("pregroup") {
		sh := uint32(1 + zzverif.Choice("preshards", 2))
		a.OnAddOrUpdate(c16Group("g", sh, 1))
		b.OnAddOrUpdate(c16Group("g", sh, 1))
	}
	k1, k2 := zzverif.Choice("k1", 4), zzverif.Choice("k2", 4)
	nm1, nm2 := zzverif.String("n1", 1), zzverif.String("n2", 1)
	s1, s2 := uint32(1+zzverif.Choice("s1", 2)), uint32(1+zzverif.Choice("s2", 2))
	// two events touching the same name with different effect do not commute in any system
	if (k1 < 2) == (k2 < 2) {
		zzverif.Assume(zzverif.Or(nm1 != nm2, k1 == k2 && s1 == s2))
	}
	c16Event(a, k1, nm1, s1, 1)
	c16Event(a, k2, nm2, s2, 1)
	c16Event(b, k2, nm2, s2, 1)
	c16Event(b, k1, nm1, s1, 1)
	zzverif.Reach("checked")
	zzverif.Assert(c16SameState(a, b), "two events applied in either order give the same table and node list")
}

//verif:harness prop=C16 tier=quick,thorough reach=picked paths=200000
// Assignment: with a sorted duplicate-free node list, every shard of every registered group
// resolves, and the replicas+1 copies of a shard land on pairwise different nodes whenever
// there are at least replicas+1 nodes; an unknown shard is an error, not a node.
// bound: 1..3 nodes with one-byte names, 1 group of 1..3 shards, replicas 0..2
func VerifH_C16_PickDisjoint() {
	r := NewRoundRobinSelector("t", nil).(*roundRobinSelector)
	nn := 1 + zzverif.Choice("nodes", 3)
	for i := 0; i < nn; i++ {
		r.AddNode(c16Node(zzverif.String("node", 1)))
	}
	zzverif.Assume(c16NodesValid(r))
	shards := uint32(1 + zzverif.Choice("shards", 3))
	replicas := uint32(zzverif.Choice("replicas", 3))
	r.OnAddOrUpdate(c16Group("g", shards, replicas))
	shard := uint32(zzverif.Choice("shard", 4))
	picked := make([]string, 0, 3)
	for c := uint32(0); c <= replicas; c++ {
		n, err := r.Pick("g", "", shard, c)
		if shard >= shards {
			zzverif.Assert(err != nil, "an unknown shard is rejected")
			return
		}
		zzverif.Assert(err == nil, "every registered shard resolves to a node")
		picked = append(picked, n)
	}
	zzverif.Reach("picked")
	if int(replicas)+1 <= len(r.nodes) {
		for i := range picked {
			for j := 0; j < i; j++ {
				zzverif.Assert(picked[i] != picked[j], "copies of one shard are on pairwise different nodes")
			}
		}
	}
}
