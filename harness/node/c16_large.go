//go:build verif

// verif:dir pkg/node
package node

import (
	"github.com/apache/skywalking-banyandb/pkg/zzverif"
)

//verif:harness prop=C16 tier=quick,thorough reach=checked paths=20000
// A shard table larger than the library sort's insertion-sort cut-off (12 entries) is still a
// sorted table: whatever order the groups were learned in - and with one group re-announced with
// more shards later - every shard of every known group resolves to a node, and the table is the
// same as on a coordinator that learned the groups in alphabetical order. (Go's slices.SortFunc
// switches to pattern-defeating quicksort above 12 elements, which relies on the comparator
// being a consistent ordering; the executor runs the library's real code.)
// bound: 3 groups of 4..6 shards each (13..18 table entries), learned in any of the 6 orders; optionally one group first announced with 2 shards and re-announced in full at the end; 2 nodes
func VerifH_C16_LargeTableStaysSorted() {
	names := []string{"ga", "gb", "gc"}
	var shards [3]uint32
	for i := range shards {
		k := 0
		for sym := zzverif.Choice("shards", 3); k < 2 && sym != k; {
			k++
		}
		shards[i] = uint32(4 + k)
	}
	perm := 0
	for sym := zzverif.Choice("order", 6); perm < 5 && sym != perm; {
		perm++
	}
	orders := [6][3]int{{0, 1, 2}, {0, 2, 1}, {1, 0, 2}, {1, 2, 0}, {2, 0, 1}, {2, 1, 0}}
	grow := -1
	if zzverif.Bool("one group grows later") {
		grow = 0
		for sym := zzverif.Choice("growing group", 3); grow < 2 && sym != grow; {
			grow++
		}
	}
	mk := func() *roundRobinSelector {
		r := NewRoundRobinSelector("t", nil).(*roundRobinSelector)
		r.AddNode(c16Node("n1"))
		r.AddNode(c16Node("n2"))
		return r
	}
	a, ref := mk(), mk()
	for _, g := range orders[perm] {
		n := shards[g]
		if g == grow {
			n = 2
		}
		a.OnAddOrUpdate(c16Group(names[g], n, 0))
	}
	if grow >= 0 {
		a.OnAddOrUpdate(c16Group(names[grow], shards[grow], 0))
	}
	for g := range names {
		ref.OnAddOrUpdate(c16Group(names[g], shards[g], 0))
	}
	zzverif.Reach("checked")
	zzverif.Assert(c16SameState(a, ref), "the shard table does not depend on the order in which the groups were learned")
	for g := range names {
		for s := uint32(0); s < shards[g]; s++ {
			n, err := a.Pick(names[g], "", s, 0)
			zzverif.Assert(err == nil && n != "", "every shard of every known group resolves to a node")
		}
	}
}
