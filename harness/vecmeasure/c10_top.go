//go:build verif

// verif:dir pkg/query/vectorized/measure
package measure

import (
	"github.com/apache/skywalking-banyandb/pkg/zzverif"
)

//verif:harness prop=C10,C15 tier=quick,thorough reach=compared
// The vectorized TOP/BOTTOM-N comparator is the value order: for every pair of int64 keys
// (and of non-NaN float keys) it returns -1/0/+1 exactly as the values compare, nulls lowest -
// the same order the row-at-a-time TopQueue uses, so both paths rank alike.
// bound: one pair of rows, arbitrary int64 / non-NaN float64 keys, arbitrary null flags
func VerifH_C10_VectorizedTopCompare() {
	isFloat := zzverif.Bool("float")
	a := &topRow{isNull: zzverif.Bool("a.null"), isFloat: isFloat, intVal: zzverif.Int64("a.int"), floatVal: zzverif.Float64("a.float")}
	b := &topRow{isNull: zzverif.Bool("b.null"), isFloat: isFloat, intVal: zzverif.Int64("b.int"), floatVal: zzverif.Float64("b.float")}
	zzverif.Assume(a.floatVal == a.floatVal && b.floatVal == b.floatVal)
	c := cmpTopVal(a, b)
	zzverif.Reach("compared")
	zzverif.Assert(c == -1 || c == 0 || c == 1, "the comparator returns -1, 0 or +1")
	zzverif.Assert(cmpTopVal(b, a) == -c, "the comparator is antisymmetric")
	switch {
	case a.isNull || b.isNull:
		zzverif.Assert(zzverif.Iff(c < 0, a.isNull && !b.isNull) && zzverif.Iff(c == 0, a.isNull && b.isNull), "nulls sort lowest")
	case isFloat:
		zzverif.Assert(zzverif.Iff(c < 0, a.floatVal < b.floatVal) && zzverif.Iff(c > 0, a.floatVal > b.floatVal), "float keys compare by value")
	default:
		zzverif.Assert(zzverif.Iff(c < 0, a.intVal < b.intVal) && zzverif.Iff(c > 0, a.intVal > b.intVal), "int64 keys compare by value (no wrap-around)")
	}
}
