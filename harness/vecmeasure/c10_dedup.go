//go:build verif

// verif:dir pkg/query/vectorized/measure
package measure

import (
	"github.com/apache/skywalking-banyandb/pkg/query/vectorized"
	"github.com/apache/skywalking-banyandb/pkg/zzverif"
)

func c10MakeMap[K comparable, V any](m *map[K]V) { *m = make(map[K]V) }

//verif:harness prop=C10,C15,C17 tier=quick,thorough reach=folded paths=200000
// Coordinator-side reduction of the nodes' partial aggregates counts every (shard, group) once:
// a partial is recognised as a replica's duplicate exactly when a partial of the same shard for
// the same group was folded before - however many partials of other shards or groups arrived in
// between - so no replica is double counted and no shard's contribution is dropped.
// bound: 2..4 partials in arbitrary arrival order over shards {1,2} (arbitrary int64 ids in thorough) and groups {g,h}
func VerifH_C10_ReplicaPartialsAreFoldedOncePerShardAndGroup() {
	n := 2 + zzverif.Choice("partials", 3)
	schema := vectorized.NewBatchSchema([]vectorized.ColumnDef{{Name: "shard", Role: vectorized.RoleShardID, Type: vectorized.ColumnTypeInt64}})
	b := vectorized.NewRecordBatch(schema, n)
	a := &BatchAggregation{shardIDIdx: 0}
	c10MakeMap(&a.dedupSeen) // as Init does for the reduce mode, whatever the map's value type
	type pr struct {
		shard int64
		group string
	}
	var seen []pr
	for i := 0; i < n; i++ {
		p := pr{shard: int64(1 + zzverif.Choice("shard", 2)), group: "g"}
		if zzverif.Thorough() {
			p.shard = zzverif.Int64("shard id")
		}
		if zzverif.Bool("second group") {
			p.group = "h"
		}
		b.Columns[0].(*vectorized.TypedColumn[int64]).Append(p.shard)
		b.Len++
		dup := a.markDedupSeen(b, i, p.group)
		before := false
		for _, o := range seen {
			if o.group == p.group {
				before = zzverif.Or(before, o.shard == p.shard)
			}
		}
		zzverif.Assert(dup == before, "a partial is a duplicate exactly when the same shard already contributed to the same group")
		seen = append(seen, p)
	}
	zzverif.Reach("folded")
}
