//go:build verif

// verif:dir pkg/query/vectorized/measure/plan
package plan

import (
	"context"

	databasev1 "github.com/apache/skywalking-banyandb/api/proto/banyandb/database/v1"
	measurev1 "github.com/apache/skywalking-banyandb/api/proto/banyandb/measure/v1"
	modelv1 "github.com/apache/skywalking-banyandb/api/proto/banyandb/model/v1"
	"github.com/apache/skywalking-banyandb/pkg/query/executor"
	"github.com/apache/skywalking-banyandb/pkg/query/vectorized"
	"github.com/apache/skywalking-banyandb/pkg/zzverif"
)

var c15Spec *distributedRowsSpec

func c15StubSchema(_ []*databasev1.Measure, _ *measurev1.QueryRequest) (*vectorized.BatchSchema, error) {
	return vectorized.NewBatchSchema(nil), nil
}
func c15StubMergeMulti(_ []groupFrame, _ *vectorized.BatchSchema, spec distributedRowsSpec) ([]*vectorized.RecordBatch, error) {
	c15Spec = &spec
	return nil, nil
}
func c15StubIterator(_ *DistributedPlan, _ context.Context, _ []*vectorized.RecordBatch, _ *measurev1.QueryRequest, _ *vectorized.BatchSchema) (executor.MIterator, error) {
	return nil, nil
}

//verif:harness prop=C15,C17 tier=quick,thorough reach=planned native=off paths=10000 redirect=BuildMultiGroupBatchSchema:c15StubSchema,mergeDistributedRowsMulti:c15StubMergeMulti,DistributedPlan.iteratorFromBatchesWithSchema:c15StubIterator
// A multi-group, non-aggregated distributed measure query merges its groups' rows with the
// per-series suppression of index-mode measures switched on only when EVERY group is
// index-mode - a mixed query must keep all data points of the ordinary groups' series, as the
// row path does - and in the direction the query asks for.
// bound: 1..3 groups, each index-mode or not; ascending | descending | unspecified order
func VerifH_C15_MultiGroupMergeSuppressesOnlyWhenAllGroupsAreIndexMode() {
	n := 1 + zzverif.Choice("groups", 3)
	p := &DistributedPlan{}
	all := true
	for i := 0; i < n; i++ {
		im := zzverif.Bool("index mode")
		all = all && im
		p.measureSchemas = append(p.measureSchemas, &databasev1.Measure{IndexMode: im})
	}
	req := &measurev1.QueryRequest{}
	desc := false
	switch zzverif.Choice("order", 3) {
	case 1:
		req.OrderBy = &modelv1.QueryOrder{Sort: modelv1.Sort_SORT_ASC}
	case 2:
		req.OrderBy = &modelv1.QueryOrder{Sort: modelv1.Sort_SORT_DESC}
		desc = true
	}
	c15Spec = nil
	_, err := p.executeRowsMultiGroup(context.Background(), nil, req)
	zzverif.Reach("planned")
	zzverif.Assert(err == nil && c15Spec != nil, "the rows of the groups are merged")
	if c15Spec == nil {
		return
	}
	zzverif.Assert(c15Spec.IndexMode == all, "per-series suppression is on exactly when every group is index-mode")
	zzverif.Assert(c15Spec.Desc == desc, "the merge direction follows the query")
	zzverif.Assert(c15Spec.OrderByColIdx == -1, "the sort column is resolved from the schema")
}
