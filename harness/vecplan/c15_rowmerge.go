//go:build verif

// verif:dir pkg/query/vectorized/measure/plan
package plan

import (
	"encoding/binary"

	itersort "github.com/apache/skywalking-banyandb/pkg/iter/sort"
	"github.com/apache/skywalking-banyandb/pkg/query/vectorized"
	"github.com/apache/skywalking-banyandb/pkg/zzverif"
)

type c15SrcIter struct {
	items []*distributedRowItem
	pos   int
}

func (s *c15SrcIter) Next() bool               { s.pos++; return s.pos <= len(s.items) }
func (s *c15SrcIter) Val() *distributedRowItem { return s.items[s.pos-1] }
func (s *c15SrcIter) Close() error             { return nil }

//verif:harness prop=C15,C17,C02 tier=quick,thorough reach=merged paths=400000 timeout=60000
// The liaison's vectorized row merge of the data nodes' answers returns what the row path
// returns: every (series, timestamp) that some node answered appears exactly once, with the
// greatest version among the replicas' copies, in timestamp order - in the first sort window
// and in every later one (replicas of a point always share a timestamp, hence a window).
// bound: 2 sources (nodes) with 1..2 rows each, time-sorted, timestamps from a window of 3 instants, 2 series, arbitrary versions; ascending order; no index mode
func VerifH_C15_DistributedRowMergeKeepsOneRowPerPoint() {
	schema := vectorized.NewBatchSchema([]vectorized.ColumnDef{
		{Name: "sid", Role: vectorized.RoleSeriesID, Type: vectorized.ColumnTypeInt64},
		{Name: "ts", Role: vectorized.RoleTimestamp, Type: vectorized.ColumnTypeInt64},
		{Name: "ver", Role: vectorized.RoleVersion, Type: vectorized.ColumnTypeInt64},
	})
	type pt struct{ sid, ts, ver int64 }
	var all []pt
	var iters []itersort.Iterator[*distributedRowItem]
	for src := 0; src < 2; src++ {
		n := 1 + zzverif.Choice("rows", 2)
		batch := vectorized.NewRecordBatch(schema, n)
		it := &c15SrcIter{}
		prev := int64(0)
		for r := 0; r < n; r++ {
			p := pt{sid: int64(1 + zzverif.Choice("sid", 2)), ts: int64(1 + zzverif.Choice("ts", 3)), ver: zzverif.Int64("version")}
			zzverif.Assume(p.ts >= prev) // a node answers in time order
			if p.ts == prev && r > 0 {
				zzverif.Assume(p.sid != all[len(all)-1].sid) // a node holds one copy of a point
			}
			prev = p.ts
			batch.Columns[0].(*vectorized.TypedColumn[int64]).Append(p.sid)
			batch.Columns[1].(*vectorized.TypedColumn[int64]).Append(p.ts)
			batch.Columns[2].(*vectorized.TypedColumn[int64]).Append(p.ver)
			batch.Len++
			key := make([]byte, 8)
			binary.BigEndian.PutUint64(key, uint64(p.ts))
			it.items = append(it.items, &distributedRowItem{batch: batch, rowIdx: r, source: src, seq: r, sid: p.sid, ts: p.ts, ver: p.ver, sortField: key})
			all = append(all, p)
		}
		iters = append(iters, it)
	}
	out, err := runDistributedRowMerge(iters, schema, distributedRowsSpec{OrderByColIdx: -1}, 16)
	zzverif.Reach("merged")
	zzverif.Assert(err == nil, "the merge succeeds")
	var got []pt
	for _, b := range out {
		sid := b.Columns[0].(*vectorized.TypedColumn[int64]).Data()
		ts := b.Columns[1].(*vectorized.TypedColumn[int64]).Data()
		ver := b.Columns[2].(*vectorized.TypedColumn[int64]).Data()
		for i := 0; i < b.Len; i++ {
			got = append(got, pt{sid[i], ts[i], ver[i]})
		}
	}
	for i, g := range got {
		if i > 0 {
			zzverif.Assert(got[i-1].ts <= g.ts, "rows come out in timestamp order")
		}
		for j := 0; j < i; j++ {
			zzverif.Assert(!(got[j].sid == g.sid && got[j].ts == g.ts), "a (series, timestamp) appears once, however many replicas answered it")
		}
		for _, p := range all {
			if p.sid == g.sid && p.ts == g.ts {
				zzverif.Assert(p.ver <= g.ver, "the surviving copy has the greatest version")
			}
		}
	}
	for _, p := range all {
		found := false
		for _, g := range got {
			if g.sid == p.sid && g.ts == p.ts {
				found = true
			}
		}
		zzverif.Assert(found, "every answered point is returned")
	}
}
