//go:build verif

// verif:dir pkg/filter
package filter

import (
	"github.com/apache/skywalking-banyandb/pkg/encoding"
	pbv1 "github.com/apache/skywalking-banyandb/pkg/pb/v1"
	"github.com/apache/skywalking-banyandb/pkg/zzverif"
)

//verif:harness prop=C08 tier=quick,thorough reach=checked paths=400000 depth=600
// Bloom filter never produces a false negative - one inductive step: from ANY filter state
// (arbitrary bit words, i.e. after any history of additions), adding an item and then setting
// arbitrary further bits (any later additions) leaves MightContain(item) and ContainsAll true,
// for every hash function (xxhash is an uninterpreted function).
// bound: filter of 1 word (64 bits; thorough also 2 words), item of 1..2 arbitrary bytes, k = 10 probes as in production
func VerifH_C08_BloomNoFalseNegative() {
	words := 1
	if zzverif.Thorough() {
		words = 1 + zzverif.Choice("words", 2)
	}
	bf := NewBloomFilter(4 * words)
	state := make([]uint64, words)
	for i := range state {
		state[i] = zzverif.Uint64("bits")
	}
	bf.SetBits(state)
	item := zzverif.Bytes("item", 1+zzverif.Choice("len", 2))
	bf.Add(item)
	for i := range state {
		state[i] |= zzverif.Uint64("later")
	}
	zzverif.Reach("checked")
	zzverif.Assert(bf.MightContain(item), "an added item is reported as possibly present, whatever else is or gets added")
	zzverif.Assert(bf.ContainsAll([][]byte{item}), "ContainsAll holds for an added item")
}

//verif:harness prop=C08 tier=quick,thorough reach=checked paths=200000
// Dictionary filter for scalar tags is exact on membership (hence never a false negative):
// MightContain(v) iff v is one of the stored values; ContainsAll(vs) iff every v is stored.
// bound: 1..3 stored values and probe of 0..2 arbitrary bytes
func VerifH_C08_DictionaryScalar() {
	n := 1 + zzverif.Choice("n", 3)
	vals := make([][]byte, n)
	for i := range vals {
		vals[i] = zzverif.Bytes("v", zzverif.Choice("len", 3))
	}
	df := &DictionaryFilter{}
	df.Set(vals, pbv1.ValueTypeStr)
	probe := zzverif.Bytes("probe", zzverif.Choice("plen", 3))
	in := false
	for _, v := range vals {
		if len(v) == len(probe) {
			eq := true
			for k := range v {
				eq = zzverif.And(eq, v[k] == probe[k])
			}
			in = zzverif.Or(in, eq)
		}
	}
	zzverif.Reach("checked")
	zzverif.Assert(df.MightContain(probe) == in, "MightContain is exact for scalar dictionaries")
	zzverif.Assert(zzverif.Implies(in, df.ContainsAll([][]byte{probe})), "ContainsAll accepts a stored value")
}

//verif:harness prop=C08 tier=quick,thorough reach=checked paths=400000
// Dictionary filter for string-array tags (HAVING): if a stored array contains every queried
// element, the block is not excluded - including elements that contain the delimiter '|' or the
// escape '\' (arrays are stored in their escaped, delimiter-terminated form).
// bound: 1 stored array of 1..2 elements of 1..2 arbitrary bytes; the query asks for one of its elements
func VerifH_C08_DictionaryStrArrayHaving() {
	n := 1 + zzverif.Choice("n", 2)
	elems := make([][]byte, n)
	var stored []byte
	for i := range elems {
		elems[i] = zzverif.Bytes("e", 1+zzverif.Choice("len", 2))
		stored = encoding.MarshalVarArray(stored, elems[i])
	}
	df := &DictionaryFilter{}
	df.Set([][]byte{stored}, pbv1.ValueTypeStrArr)
	q := elems[zzverif.Choice("q", n)]
	zzverif.Reach("checked")
	zzverif.Assert(df.ContainsAll([][]byte{append([]byte{}, q...)}), "a block whose array holds the queried element is not skipped")
}
