//go:build verif

// verif:dir pkg/convert
package convert

import (
	"errors"
	"sort"
	"strings"

	"github.com/apache/skywalking-banyandb/pkg/zzverif"
)

// A self-check of the executor: Go constructs the model-environment harnesses (native=off) lean
// on are run here on symbolic inputs AND natively, and every observed value must agree
// (translator validation on witnesses and random vectors). It guards the checks whose
// counterexamples are replayed over the model only.

type selfShape interface{ area() int64 }
type selfRect struct{ w, h int64 }
type selfSq struct{ selfRect }

func (r selfRect) area() int64 { return r.w * r.h }

type selfErr struct{ code int }

func (e *selfErr) Error() string        { return "self" }
func (e *selfErr) Is(target error) bool { return target == errSelfSentinel }

var errSelfSentinel = errors.New("sentinel")

//verif:harness prop=C03,C04,C05,C13,C14,C18,C19 tier=quick,thorough reach=ran paths=20000 random=16
// Executor self-check (not a property of the code base): maps mutated while ranged over,
// closures over loop variables, defer/recover order, slice aliasing and growth, array and struct
// copies, channels (buffered, closed, ranged), method values and embedded interfaces, sort with
// closures, string building, labelled loops and switch fallthrough, errors.Is with Is methods -
// the executor and the native build must observe the same values for every input.
// bound: three symbolic int64 inputs and two symbolic choices
func VerifH_SELF_GoSemantics() {
	a, b, c := zzverif.Int64("a"), zzverif.Int64("b"), zzverif.Int64("c")
	k := 0
	for sym := zzverif.Choice("k", 4); k < 3 && sym != k; {
		k++ // one path per value: k is a constant on each
	}
	flag := zzverif.Bool("flag")

	// maps: delete while ranging, insert, overwrite
	m := map[int]int64{1: a, 2: b, 3: c, 4: a + b}
	for key := range m {
		if key%2 == 0 || (flag && key == 3) {
			delete(m, key)
		}
	}
	m[7] = c
	m[1] = m[1] + 1
	sum := int64(0)
	for key, v := range m {
		sum += int64(key)*1000 + v
	}
	zzverif.ObserveI("map.sum", sum)
	zzverif.Observe("map.len", uint64(len(m)))

	// closures over per-iteration loop variables (Go 1.22 semantics) and defer order
	var fns []func() int64
	for i := int64(0); i < 3; i++ {
		fns = append(fns, func() int64 { return i*10 + a })
	}
	order := int64(0)
	func() {
		defer func() { order = order*10 + 1 }()
		defer func() {
			if r := recover(); r != nil {
				order = order*10 + 2
			}
		}()
		for _, f := range fns {
			order += f()
		}
		if k == 2 {
			var arr []int
			_ = arr[k] // index out of range: recovered above
		}
		order = order*10 + 3
	}()
	zzverif.ObserveI("defer.order", order)

	// slices: aliasing, append within and beyond capacity, three-index slices, copy
	s := make([]int64, 2, 4)
	s[0], s[1] = a, b
	t := append(s, c) // shares the array
	u := append(s[:1:1], 99)
	t[0] = 5
	v := append(t, 1, 2) // beyond capacity: new array
	v[1] = 6
	dst := make([]int64, 2)
	n := copy(dst, v[1:])
	zzverif.ObserveI("slice.s0", s[0])
	zzverif.ObserveI("slice.s1", s[1])
	zzverif.ObserveI("slice.u0", u[0])
	zzverif.ObserveI("slice.t2", t[2])
	zzverif.ObserveI("slice.dst", dst[0]*3+dst[1]+int64(n))

	// arrays and structs are values; pointers alias
	arr := [3]int64{a, b, c}
	arr2 := arr
	arr2[k%3] = 42
	p := &arr
	p[0]++
	r1 := selfRect{a, 2}
	r2 := r1
	r2.w = b
	zzverif.ObserveI("copy.arr", arr[0]+arr[1]+arr[2])
	zzverif.ObserveI("copy.arr2", arr2[0]+arr2[1]+arr2[2])
	zzverif.ObserveI("copy.struct", r1.area()-r2.area())

	// interfaces, embedding, method values, type switches
	var sh selfShape = selfSq{selfRect{c, c}}
	f := sh.area
	kind := 0
	switch x := sh.(type) {
	case selfRect:
		kind = 1
	case selfSq:
		kind = 2 + int(x.w&1)
	}
	zzverif.ObserveI("iface.area", f())
	zzverif.Observe("iface.kind", uint64(kind))

	// channels: buffered, closed, ranged, select with default
	ch := make(chan int64, 3)
	ch <- a
	ch <- b
	if flag {
		ch <- c
	}
	close(ch)
	cs := int64(0)
	for x := range ch {
		cs = cs*3 + x
	}
	x, ok := <-ch
	sel := 0
	select {
	case y, ok2 := <-ch:
		if !ok2 && y == 0 {
			sel = 1
		}
	default:
		sel = 2
	}
	zzverif.ObserveI("chan.sum", cs)
	zzverif.ObserveB("chan.closed", !ok && x == 0)
	zzverif.Observe("chan.select", uint64(sel))

	// sort with closures, labelled loops, switch fallthrough
	xs := []int64{c, a, b, a}
	sort.Slice(xs, func(i, j int) bool { return xs[i] < xs[j] })
	zzverif.ObserveB("sort.sorted", xs[0] <= xs[1] && xs[1] <= xs[2] && xs[2] <= xs[3])
	cnt := 0
outer:
	for i := 0; i < 4; i++ {
		for j := 0; j < 4; j++ {
			if j == k {
				continue outer
			}
			if i == 3 {
				break outer
			}
			cnt++
		}
	}
	switch k {
	case 0:
		cnt += 100
		fallthrough
	case 1:
		cnt += 10
	default:
		cnt++
	}
	zzverif.Observe("loops.cnt", uint64(cnt))

	// strings and errors
	parts := strings.Split("x/y/z", "/")
	str := strings.Join(parts[:1+k%3], "-") + string(rune('a'+k))
	var err error = &selfErr{code: k}
	zzverif.Observe("string.len", uint64(len(str)))
	zzverif.ObserveB("string.prefix", strings.HasPrefix(str, "x"))
	zzverif.ObserveB("errors.is", errors.Is(err, errSelfSentinel))

	// integer conversions and shifts
	u8 := uint8(a)
	i16 := int16(b)
	zzverif.Observe("conv.u8", uint64(u8)+uint64(uint32(int32(i16))))
	zzverif.ObserveI("conv.shift", (c>>3)+int64(uint64(c)>>60)+(a<<(uint(k)&3)))
	zzverif.Reach("ran")
}
