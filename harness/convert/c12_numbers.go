//go:build verif

// verif:dir pkg/convert
package convert

import (
	"bytes"
	"math"

	"github.com/apache/skywalking-banyandb/pkg/zzverif"
)

//verif:harness prop=C12 tier=quick,thorough
// Int64ToBytes is strictly order preserving and BytesToInt64 inverts it, for every pair of int64.
// bound: none (all 2^128 pairs of int64 are covered by one query per path)
func VerifH_C12_Int64Order() {
	a, b := zzverif.Int64("a"), zzverif.Int64("b")
	ea, eb := Int64ToBytes(a), Int64ToBytes(b)
	zzverif.Reach("encoded")
	zzverif.ObserveBytes("ea", ea)
	zzverif.Assert(len(ea) == 8, "int64 key is 8 bytes")
	zzverif.Assert(zzverif.Iff(a < b, bytes.Compare(ea, eb) < 0), "a<b iff key(a)<key(b) (int64)")
	zzverif.Assert(zzverif.Iff(a == b, bytes.Equal(ea, eb)), "a==b iff key(a)==key(b) (int64)")
	zzverif.Assert(BytesToInt64(ea) == a, "BytesToInt64(Int64ToBytes(a)) == a")
}

//verif:harness prop=C12 tier=quick,thorough
// Int32ToBytes is strictly order preserving and BytesToInt32 inverts it.
func VerifH_C12_Int32Order() {
	a, b := zzverif.Int32("a"), zzverif.Int32("b")
	ea, eb := Int32ToBytes(a), Int32ToBytes(b)
	zzverif.Reach("encoded")
	zzverif.ObserveBytes("ea", ea)
	zzverif.Assert(zzverif.Iff(a < b, bytes.Compare(ea, eb) < 0), "a<b iff key(a)<key(b) (int32)")
	zzverif.Assert(BytesToInt32(ea) == a, "BytesToInt32(Int32ToBytes(a)) == a")
}

//verif:harness prop=C12 tier=quick,thorough
// Uint64ToBytes / Uint32ToBytes / Int16ToBytes round trip; unsigned order preserved.
func VerifH_C12_UnsignedOrder() {
	a, b := zzverif.Uint64("a"), zzverif.Uint64("b")
	ea, eb := Uint64ToBytes(a), Uint64ToBytes(b)
	zzverif.Reach("encoded")
	zzverif.Assert(zzverif.Iff(a < b, bytes.Compare(ea, eb) < 0), "a<b iff key(a)<key(b) (uint64)")
	zzverif.Assert(BytesToUint64(ea) == a, "BytesToUint64 round trip")
	c := zzverif.Uint32("c")
	zzverif.Assert(BytesToUint32(Uint32ToBytes(c)) == c, "BytesToUint32 round trip")
	d := zzverif.Int16("d")
	zzverif.Assert(BytesToInt16(Int16ToBytes(d)) == d, "BytesToInt16 round trip")
}

//verif:harness prop=C12 tier=quick,thorough
// Float64ToOrderedBytes orders like the floats it encodes and OrderedBytesToFloat64 inverts it
// bit-exactly, for every pair of non-NaN float64 (including ±0, subnormals, ±Inf).
// assume: NaN excluded (NaN has no order)
func VerifH_C12_Float64Order() {
	a, b := zzverif.Float64("a"), zzverif.Float64("b")
	zzverif.Assume(!math.IsNaN(a))
	zzverif.Assume(!math.IsNaN(b))
	ea, eb := Float64ToOrderedBytes(a), Float64ToOrderedBytes(b)
	zzverif.Reach("encoded")
	zzverif.ObserveBytes("ea", ea)
	zzverif.Assert(zzverif.Implies(a < b, bytes.Compare(ea, eb) < 0), "a<b implies key(a)<key(b) (float64)")
	zzverif.Assert(zzverif.Implies(bytes.Compare(ea, eb) < 0, a <= b), "key(a)<key(b) implies a<=b (float64)")
	back := OrderedBytesToFloat64(ea)
	zzverif.Assert(math.Float64bits(back) == math.Float64bits(a), "OrderedBytesToFloat64(Float64ToOrderedBytes(a)) is bit-identical to a")
}

//verif:harness prop=C12 tier=quick,thorough
// Float64ToBytes / BytesToFloat64 / AppendFloat64Bytes are bit-exact inverses.
func VerifH_C12_Float64Raw() {
	a := zzverif.Float64("a")
	e := Float64ToBytes(a)
	zzverif.Reach("encoded")
	zzverif.Assert(math.Float64bits(BytesToFloat64(e)) == math.Float64bits(a), "BytesToFloat64 round trip is bit exact")
	e2 := AppendFloat64Bytes([]byte{7}, a)
	zzverif.Assert(len(e2) == 9 && e2[0] == 7, "AppendFloat64Bytes keeps prefix")
	zzverif.Assert(bytes.Equal(e2[1:], e), "AppendFloat64Bytes equals Float64ToBytes")
}
