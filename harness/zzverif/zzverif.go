// Package zzverif is the harness API. Under the symbolic executor every function here is
// intercepted (inputs become solver variables, Assert becomes an obligation). Compiled natively
// (go test -overlay) the same functions read a replay vector, so that a solver model can be
// re-run against the real build.
package zzverif

import (
	"encoding/json"
	"fmt"
	"math"
	"os"
	"runtime"
	"runtime/debug"
	"strconv"
	"testing"
)

type sentinel struct{ kind, msg string }

type job struct {
	Harness string   `json:"harness"`
	Vector  []uint64 `json:"vector"`
}

type result struct {
	Harness  string            `json:"harness"`
	Outcome  string            `json:"outcome"` // ok | assert | panic | assume | missing
	Msg      string            `json:"msg"`
	Reached  []string          `json:"reached"`
	Observed map[string]uint64 `json:"observed"`
	Consumed int               `json:"consumed"`
}

var (
	vec []uint64
	pos int
	cur *result
)

func next() uint64 {
	var v uint64
	if pos < len(vec) {
		v = vec[pos]
	}
	pos++
	return v
}

func Int64(name string) int64     { return int64(next()) }
func Uint64(name string) uint64   { return next() }
func Int32(name string) int32     { return int32(next()) }
func Uint32(name string) uint32   { return uint32(next()) }
func Int16(name string) int16     { return int16(next()) }
func Uint16(name string) uint16   { return uint16(next()) }
func Int8(name string) int8       { return int8(next()) }
func Uint8(name string) uint8     { return uint8(next()) }
func Byte(name string) byte       { return byte(next()) }
func Int(name string) int         { return int(next()) }
func Bool(name string) bool       { return next()&1 == 1 }
func Float64(name string) float64 { return math.Float64frombits(next()) }

// Bytes returns n arbitrary bytes (n is concrete).
func Bytes(name string, n int) []byte {
	b := make([]byte, n)
	for i := range b {
		b[i] = byte(next())
	}
	return b
}

// String returns a string of n arbitrary bytes.
func String(name string, n int) string { return string(Bytes(name, n)) }

// Choice returns an arbitrary value in [0,n).
func Choice(name string, n int) int {
	v := int(next())
	if v < 0 || v >= n {
		panic(sentinel{"assume", "choice out of range"})
	}
	return v
}

func Assume(c bool) {
	if !c {
		panic(sentinel{"assume", ""})
	}
}

func Assert(c bool, msg string) {
	if !c {
		panic(sentinel{"assert", msg})
	}
}

// AssertExcept is Assert, with a declared known-finding signature: a failure where sig holds is
// attributed to the known finding `tag`; a failure where sig does not hold is a new violation.
func AssertExcept(c bool, msg string, tag string, sig bool) {
	if !c {
		if sig {
			panic(sentinel{"assert", msg + " [" + tag + "]"})
		}
		panic(sentinel{"assert", msg})
	}
}

func Reach(id string) {
	if cur != nil {
		cur.Reached = append(cur.Reached, id)
	}
}

func Observe(name string, v uint64) {
	if cur != nil {
		cur.Observed[name] = v
	}
}
func ObserveI(name string, v int64) { Observe(name, uint64(v)) }
func ObserveB(name string, v bool) {
	if v {
		Observe(name, 1)
	} else {
		Observe(name, 0)
	}
}
func ObserveBytes(name string, b []byte) {
	Observe(name+".len", uint64(len(b)))
	for i, x := range b {
		Observe(fmt.Sprintf("%s[%d]", name, i), uint64(x))
	}
}

// Try runs f and reports whether it panicked (the panic is absorbed).
func Try(f func()) (panicked bool) {
	defer func() {
		if r := recover(); r != nil {
			if s, ok := r.(sentinel); ok {
				panic(s)
			}
			panicked = true
		}
	}()
	f()
	return false
}

// Eager boolean connectives (no branching under the symbolic executor).
func And(a, b bool) bool     { return a && b }
func Or(a, b bool) bool      { return a || b }
func Implies(a, b bool) bool { return !a || b }
func Iff(a, b bool) bool     { return a == b }
func IteI(c bool, a, b int64) int64 {
	if c {
		return a
	}
	return b
}
func IteU(c bool, a, b uint64) uint64 {
	if c {
		return a
	}
	return b
}

// Decimal returns the correctly rounded float64 of m * 10^e (|e| <= 48).
func Decimal(m int64, e int) float64 {
	f, _ := strconv.ParseFloat(fmt.Sprintf("%de%d", m, e), 64)
	return f
}

// SymbolicMapOrder makes every later `range` over a map iterate in an arbitrary order chosen
// by the solver (natively: Go's own randomised order; the replay vector slot is consumed).
func SymbolicMapOrder() {}

// UF64 is an uninterpreted function of its arguments (natively: a fixed mixing function).
func UF64(name string, args ...uint64) uint64 {
	h := uint64(1469598103934665603)
	for _, c := range []byte(name) {
		h = (h ^ uint64(c)) * 1099511628211
	}
	for _, a := range args {
		h = (h ^ a) * 1099511628211
		h ^= h >> 29
	}
	return h
}

// ReplayMain is called from the generated test; it runs the jobs in $VERIF_REPLAY_IN and writes
// their outcomes to $VERIF_REPLAY_OUT.
func ReplayMain(t *testing.T, table map[string]func()) {
	in := os.Getenv("VERIF_REPLAY_IN")
	if in == "" {
		t.Skip("no VERIF_REPLAY_IN")
	}
	data, err := os.ReadFile(in)
	if err != nil {
		t.Fatal(err)
	}
	var jobs []job
	if err := json.Unmarshal(data, &jobs); err != nil {
		t.Fatal(err)
	}
	var results []*result
	for _, j := range jobs {
		r := &result{Harness: j.Harness, Observed: map[string]uint64{}}
		results = append(results, r)
		f, ok := table[j.Harness]
		if !ok {
			r.Outcome = "missing"
			continue
		}
		vec, pos, cur = j.Vector, 0, r
		func() {
			defer func() {
				if x := recover(); x != nil {
					if s, ok := x.(sentinel); ok {
						r.Outcome, r.Msg = s.kind, s.msg
						return
					}
					r.Outcome = "panic"
					r.Msg = fmt.Sprint(x) + "\n" + string(debug.Stack())
				}
			}()
			f()
			r.Outcome = "ok"
		}()
		r.Consumed = pos
	}
	out, _ := json.MarshalIndent(results, "", " ")
	if err := os.WriteFile(os.Getenv("VERIF_REPLAY_OUT"), out, 0o644); err != nil {
		t.Fatal(err)
	}
}

// Thorough reports whether the check runs in the thorough tier (larger bounds).
func Thorough() bool { return os.Getenv("VERIF_TIER") == "thorough" }

// TempDir returns a fresh scratch directory (natively); a fixed name under the symbolic executor,
// where every file-system call is a stub.
func TempDir() string {
	d, err := os.MkdirTemp("", "zzverif")
	if err != nil {
		panic(err)
	}
	return d
}

// Par runs the functions as concurrent threads and waits for all of them. Under the symbolic
// executor every interleaving of their visible operations (atomics, mutex operations) is explored.
func Par(fs ...func()) {
	done := make(chan interface{}, len(fs))
	for _, f := range fs {
		go func(f func()) {
			defer func() { done <- recover() }()
			f()
		}(f)
	}
	var first interface{}
	for range fs {
		if r := <-done; r != nil && first == nil {
			first = r
		}
	}
	if first != nil {
		panic(first)
	}
}

// Yield is a scheduling point without effect: under the symbolic executor any other thread of an
// enclosing Par may run here.
func Yield() { runtime.Gosched() }
