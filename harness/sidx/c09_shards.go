//go:build verif

// verif:dir banyand/internal/sidx
package sidx

import (
	"github.com/apache/skywalking-banyandb/api/common"
	"github.com/apache/skywalking-banyandb/pkg/zzverif"
)

//verif:harness prop=C09 tier=quick,thorough reach=merged paths=400000
// Ordered secondary-index merge with a limit: merging K individually sorted shard responses
// returns the first `limit` entries of the globally sorted union (all of them for limit 0), each
// (key, data, series, part) tuple intact and taken from the inputs at most once, ascending and
// descending.
// bound: K = 3 shards of 0..2 rows (thorough 0..3), arbitrary int64 keys with ties, limit 0..4
func VerifH_C09_SidxShardMerge() {
	desc := zzverif.Bool("desc")
	maxLen := 2
	if zzverif.Thorough() {
		maxLen = 3
	}
	limit := zzverif.Choice("limit", 5)
	var shards []*QueryResponse
	type row struct {
		key  int64
		tag  byte
		used bool
	}
	var rows []*row
	for k := 0; k < 3; k++ {
		n := zzverif.Choice("len", maxLen+1)
		sh := &QueryResponse{}
		for i := 0; i < n; i++ {
			key := zzverif.Int64("key")
			if i > 0 {
				zzverif.Assume(sh.Keys[i-1] <= key) // shard responses are ascending by key
			}
			tag := byte(len(rows))
			sh.Keys = append(sh.Keys, key)
			sh.Data = append(sh.Data, []byte{tag})
			sh.SIDs = append(sh.SIDs, common.SeriesID(100+uint64(tag)))
			sh.PartIDs = append(sh.PartIDs, uint64(200)+uint64(tag))
			rows = append(rows, &row{key: key, tag: tag})
		}
		shards = append(shards, sh)
	}
	var out *QueryResponse
	if desc {
		out = mergeQueryResponseShardsDesc(shards, limit)
	} else {
		out = mergeQueryResponseShards(shards, limit)
	}
	zzverif.Reach("merged")
	want := len(rows)
	if limit > 0 && limit < want {
		want = limit
	}
	zzverif.Assert(out.Len() == want, "the merge returns min(limit, total) rows (all rows when limit is 0)")
	zzverif.Assert(len(out.Data) == out.Len() && len(out.SIDs) == out.Len() && len(out.PartIDs) == out.Len(), "result columns have equal length")
	for i := 0; i < out.Len(); i++ {
		tag := int(out.Data[i][0])
		zzverif.Assert(tag < len(rows), "every output row is an input row")
		r := rows[tag]
		zzverif.Assert(!r.used, "no input row is returned twice")
		r.used = true
		zzverif.Assert(out.Keys[i] == r.key && out.SIDs[i] == common.SeriesID(100+uint64(r.tag)) && out.PartIDs[i] == uint64(200)+uint64(r.tag), "key, data, series id and part id stay together")
		if i > 0 {
			if desc {
				zzverif.Assert(out.Keys[i-1] >= out.Keys[i], "descending output is globally sorted")
			} else {
				zzverif.Assert(out.Keys[i-1] <= out.Keys[i], "ascending output is globally sorted")
			}
		}
	}
	if out.Len() > 0 {
		last := out.Keys[out.Len()-1]
		for _, r := range rows {
			if !r.used {
				if desc {
					zzverif.Assert(r.key <= last, "a row cut off by the limit does not sort before a returned row (desc)")
				} else {
					zzverif.Assert(r.key >= last, "a row cut off by the limit does not sort before a returned row (asc)")
				}
			}
		}
	}
}
