//go:build verif

// verif:dir banyand/internal/sidx
package sidx

import (
	modelv1 "github.com/apache/skywalking-banyandb/api/proto/banyandb/model/v1"
	"github.com/apache/skywalking-banyandb/pkg/convert"
	"github.com/apache/skywalking-banyandb/pkg/index"
	pbv1 "github.com/apache/skywalking-banyandb/pkg/pb/v1"
	"github.com/apache/skywalking-banyandb/pkg/query/logical"
	"github.com/apache/skywalking-banyandb/pkg/zzverif"
)

// c08RangeFor: range options of `tag op lit` as the trace query layer builds them
// (pkg/query/logical/trace index_filter: GT (false,false,false), GE (false,true,false),
// LT (true,false,false), LE (true,false,true)).
func c08RangeFor(op int, lit int64) (index.RangeOpts, bool) {
	cond := &modelv1.Condition{Name: "t", Value: &modelv1.TagValue{Value: &modelv1.TagValue_Int{Int: &modelv1.Int{Value: lit}}}}
	expr, err := logical.ParseExpr(cond)
	if err != nil {
		return index.RangeOpts{}, false
	}
	switch op {
	case 0:
		return expr.RangeOpts(false, false, false), true
	case 1:
		return expr.RangeOpts(false, true, false), true
	case 2:
		return expr.RangeOpts(true, false, false), true
	}
	return expr.RangeOpts(true, false, true), true
}

func c08Holds(op int, v, lit int64) bool {
	switch op {
	case 0:
		return v > lit
	case 1:
		return v >= lit
	case 2:
		return v < lit
	}
	return v <= lit
}

//verif:harness prop=C08 tier=quick,thorough reach=pruned,kept paths=200000
// Block pruning in the secondary-index / trace engine by the per-block min/max of an int64 tag
// never hides a matching row (same statement as the stream harness, for tagFilterOp.Range), and
// blocks without min/max, of another value type or without the tag are handled conservatively
// exactly as documented (no tag: the block cannot match, skip is not signalled through Range).
// bound: one tag; arbitrary int64 min <= v <= max and literal; the four range operators; value type int64|string, min/max present|absent
func VerifH_C08_SidxMinMaxPruningIsSound() {
	mn, v, mx, lit := zzverif.Int64("min"), zzverif.Int64("v"), zzverif.Int64("max"), zzverif.Int64("lit")
	zzverif.Assume(mn <= v && v <= mx)
	op := zzverif.Choice("op", 4)
	opts, ok := c08RangeFor(op, lit)
	zzverif.Assert(ok, "an int literal parses")
	cache := &tagFilterCache{valueType: pbv1.ValueTypeInt64, min: convert.Int64ToBytes(mn), max: convert.Int64ToBytes(mx)}
	plain := false
	switch zzverif.Choice("shape", 3) {
	case 1:
		cache.min, cache.max, plain = nil, nil, true
	case 2:
		cache.valueType, plain = pbv1.ValueTypeStr, true
	}
	tfo := &tagFilterOp{
		blockMetadata: &blockMetadata{tagsBlocks: map[string]dataBlock{"t": {offset: 0, size: 1}}},
		part:          &part{},
		tagCache:      map[string]*tagFilterCache{"t": cache},
	}
	skip, err := tfo.Range("t", opts)
	zzverif.Assert(err == nil, "range pruning accepts the query layer's range options")
	if skip {
		zzverif.Reach("pruned")
		zzverif.Assert(!plain, "a block without int64 min/max is never pruned by a range")
		zzverif.Assert(!c08Holds(op, v, lit), "a block holding a row that satisfies the range condition is not pruned")
	} else {
		zzverif.Reach("kept")
	}
}
