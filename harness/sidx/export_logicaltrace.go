//go:build verif

// verif:dir pkg/query/logical/trace
package trace

import (
	modelv1 "github.com/apache/skywalking-banyandb/api/proto/banyandb/model/v1"
	"github.com/apache/skywalking-banyandb/pkg/index"
	"github.com/apache/skywalking-banyandb/pkg/query/logical"
)

// VerifBuildFilter gives the storage-side harness (banyand/internal/sidx) the trace query
// compiler's real criteria -> block filter translation.
func VerifBuildFilter(criteria *modelv1.Criteria, schema logical.Schema, tagNames map[string]bool,
	traceIDTagName, spanIDTagName, orderByTag string,
) (index.Filter, error) {
	f, _, _, _, _, _, err := buildFilter(criteria, schema, tagNames, map[string]int{}, nil, traceIDTagName, spanIDTagName, orderByTag)
	return f, err
}
