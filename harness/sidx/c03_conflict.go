//go:build verif

// verif:dir banyand/internal/sidx
package sidx

import (
	"github.com/apache/skywalking-banyandb/pkg/fs"
	pbv1 "github.com/apache/skywalking-banyandb/pkg/pb/v1"
	"github.com/apache/skywalking-banyandb/pkg/zzverif"
)

type c03TagReader struct {
	fs.Reader
	vt pbv1.ValueType
}

func c03StubFirstType(r fs.Reader) (pbv1.ValueType, error) { return r.(c03TagReader).vt, nil }

//verif:harness prop=C03 tier=quick,thorough reach=renamed native=off paths=400000 redirect=readFirstTagValueType:c03StubFirstType
// Secondary-index merges keep tag values of different types apart through ANY number of merge
// generations: a tag is in conflict exactly when the merged parts store it - under its plain name
// or under a type-suffixed name left by an earlier merge - with two different types; a block's
// plain tag that is in conflict is renamed to its typed name, and nothing else is renamed.
// bound: 2 parts (thorough 2..3), 2 tags, per part and tag: absent | string | int | type-suffixed string | type-suffixed int (a part may hold both typed variants of a tag)
func VerifH_C03_SidxConflictingTagTypesAreKeptApart() {
	tags := []string{"x", "y"}
	types := []pbv1.ValueType{pbv1.ValueTypeStr, pbv1.ValueTypeInt64}
	n := 2
	if zzverif.Thorough() {
		n = 2 + zzverif.Choice("parts", 2)
	}
	seen := map[string]map[pbv1.ValueType]bool{}
	var parts []*partWrapper
	for p := 0; p < n; p++ {
		tm := map[string]fs.Reader{}
		for _, t := range tags {
			k := 0
			for sym := zzverif.Choice("kind", 6); k < 5 && sym != k; {
				k++
			}
			add := func(vt pbv1.ValueType, typed bool) {
				name := t
				if typed {
					name = encodeTypedTag(t, vt)
				}
				tm[name] = c03TagReader{vt: vt}
				if seen[t] == nil {
					seen[t] = map[pbv1.ValueType]bool{}
				}
				seen[t][vt] = true
			}
			switch k {
			case 1, 2:
				add(types[k-1], false)
			case 3, 4:
				add(types[k-3], true)
			case 5: // the output of an earlier conflicting merge: both typed variants
				add(types[0], true)
				add(types[1], true)
			}
		}
		parts = append(parts, &partWrapper{p: &part{tagMetadata: tm}})
	}
	conflicts := collectConflictTags(parts)
	for _, t := range tags {
		_, got := conflicts[t]
		zzverif.Assert(got == (len(seen[t]) > 1), "a tag is in conflict exactly when the merged parts store it with two different types, whatever names earlier merges gave it")
	}
	for name := range conflicts {
		zzverif.Assert(name == "x" || name == "y", "conflicts are recorded under the plain tag name")
	}
	b := &block{tags: map[string]*tagData{}}
	for _, t := range tags {
		b.tags[t] = &tagData{name: t, valueType: pbv1.ValueTypeStr}
	}
	renameConflictTags(b, conflicts)
	zzverif.Reach("renamed")
	for _, t := range tags {
		typed := encodeTypedTag(t, pbv1.ValueTypeStr)
		_, plain := b.tags[t]
		td, ren := b.tags[typed]
		if len(seen[t]) > 1 {
			zzverif.Assert(!plain && ren && td.name == typed, "a conflicting plain tag of a block is renamed to its typed name")
		} else {
			zzverif.Assert(plain && !ren, "a tag that is not in conflict keeps its name")
		}
	}
}
