//go:build verif

// verif:dir banyand/internal/sidx
package sidx

import (
	commonv1 "github.com/apache/skywalking-banyandb/api/proto/banyandb/common/v1"
	databasev1 "github.com/apache/skywalking-banyandb/api/proto/banyandb/database/v1"
	modelv1 "github.com/apache/skywalking-banyandb/api/proto/banyandb/model/v1"
	pkgbytes "github.com/apache/skywalking-banyandb/pkg/bytes"
	"github.com/apache/skywalking-banyandb/pkg/convert"
	pkgencoding "github.com/apache/skywalking-banyandb/pkg/encoding"
	"github.com/apache/skywalking-banyandb/pkg/filter"
	pbv1 "github.com/apache/skywalking-banyandb/pkg/pb/v1"
	logicaltrace "github.com/apache/skywalking-banyandb/pkg/query/logical/trace"
	"github.com/apache/skywalking-banyandb/pkg/zzverif"
)

var (
	c08IntLits = []int64{7, -1, 12345678, 0}
	c08StrLits = []string{"a", "7", "bc"}
)

// The bloom filter is replaced by its contract (established on the real code by
// VerifH_C08_BloomNoFalseNegative): "might contain" for every item that was added, arbitrary
// (false positives, chosen up front by the harness) for anything else. The real encode/decode
// of the filter block still runs.
var (
	c08BloomAdded [][]byte
	c08BloomFP    []bool
	c08BloomAsked int
)

func c08StubBloomAdd(_ *filter.BloomFilter, item []byte) bool {
	c08BloomAdded = append(c08BloomAdded, append([]byte(nil), item...))
	return true
}

func c08StubBloomMightContain(_ *filter.BloomFilter, item []byte) bool {
	r := c08BloomFP[c08BloomAsked%len(c08BloomFP)]
	c08BloomAsked++
	for _, a := range c08BloomAdded {
		if len(a) != len(item) {
			continue
		}
		same := true
		for i := range a {
			same = zzverif.And(same, a[i] == item[i])
		}
		r = zzverif.Or(r, same)
	}
	return r
}

func c08StubBloomContainsAll(bf *filter.BloomFilter, items [][]byte) bool {
	for _, it := range items {
		if !c08StubBloomMightContain(bf, it) {
			return false
		}
	}
	return true
}

// c08StubEncodeInts stands for the int column codec (covered under C01/C11): the block filter
// only learns from it that an int column is never dictionary-encoded.
func c08StubEncodeInts(bb *pkgbytes.Buffer, _ [][]byte, _ pbv1.ValueType) (pkgencoding.EncodeType, error) {
	bb.Buf = append(bb.Buf[:0], byte(pkgencoding.EncodeTypePlain))
	return pkgencoding.EncodeTypePlain, nil
}

func c08Pick(label string, n int) int {
	k := 0
	for sym := zzverif.Choice(label, n); k < n-1 && sym != k; {
		k++
	}
	return k
}

//verif:harness prop=C08 tier=quick,thorough reach=judged paths=60000 redirect=encoding.EncodeTagValues:c08StubEncodeInts,BloomFilter.Add:c08StubBloomAdd,BloomFilter.MightContain:c08StubBloomMightContain,BloomFilter.ContainsAll:c08StubBloomContainsAll
// Block pruning in the trace engine is only an optimisation: whatever elements a secondary-index
// block holds and whatever single condition the trace query puts on a tag, the block filter the
// trace query compiler builds from the condition (real buildFilter), evaluated against the
// block's own filter data as the write path stored it (real block.mustWriteTag -> bloom filter,
// dictionary or min/max -> real tagFilterOp reading it back, as partKeyIter does), never rules
// out a block that holds an element satisfying the condition, and never fails or panics.
// bound: tag of type int; block of 1..2 elements (thorough 1..3) with arbitrary int64 values; condition = | != | IN | NOT IN | > | >= | < | <= with 1..2 literals drawn from {7,-1,12345678,0}; the bloom filter is its contract (no false negatives, arbitrary false positives)
// outside: AND/OR trees of conditions, null tag values
func VerifH_C08_TraceBlockFilterNeverHidesAMatchingElement_IntTag() { c08SkippingCase(0) }

//verif:harness prop=C08 tier=quick,thorough reach=judged paths=60000 redirect=BloomFilter.Add:c08StubBloomAdd,BloomFilter.MightContain:c08StubBloomMightContain,BloomFilter.ContainsAll:c08StubBloomContainsAll
// Block pruning in the trace engine is only an optimisation (see the int harness), string tag.
// bound: tag of type string; block of 1..2 elements (thorough 1..3), values of 1..2 arbitrary bytes; condition = | != | IN | NOT IN with 1..2 literals drawn from {"a","7","bc"}; the bloom filter is its contract
// outside: AND/OR trees of conditions, null tag values
func VerifH_C08_TraceBlockFilterNeverHidesAMatchingElement_StringTag() { c08SkippingCase(1) }

//verif:harness prop=C08 tier=quick,thorough reach=judged paths=60000 redirect=BloomFilter.Add:c08StubBloomAdd,BloomFilter.MightContain:c08StubBloomMightContain,BloomFilter.ContainsAll:c08StubBloomContainsAll
// Block pruning in the trace engine is only an optimisation (see the int harness), string array tag.
// bound: tag of type string array; block of 1..2 elements, arrays of 1..2 items of 1 arbitrary byte (1..2 bytes in single-element blocks); condition HAVING | NOT HAVING with 1..2 literals drawn from {"a","7","bc"}; the bloom filter is its contract
// outside: AND/OR trees of conditions, null tag values
func VerifH_C08_TraceBlockFilterNeverHidesAMatchingElement_StringArrayTag() { c08SkippingCase(2) }

//verif:harness prop=C08 tier=quick,thorough reach=judged paths=60000 redirect=BloomFilter.Add:c08StubBloomAdd,BloomFilter.MightContain:c08StubBloomMightContain,BloomFilter.ContainsAll:c08StubBloomContainsAll
// Block pruning in the trace engine is only an optimisation (see the int harness), int array tag.
// bound: tag of type int array; block of 1..2 elements, arrays of 1..2 arbitrary int64 items; condition HAVING | NOT HAVING with 1..2 literals drawn from {7,-1,12345678,0}; the bloom filter is its contract
// outside: AND/OR trees of conditions, null tag values
func VerifH_C08_TraceBlockFilterNeverHidesAMatchingElement_IntArrayTag() { c08SkippingCase(3) }

func c08SkippingCase(kind int) { // 0 int, 1 string, 2 string array, 3 int array
	tagTypes := []databasev1.TagType{databasev1.TagType_TAG_TYPE_INT, databasev1.TagType_TAG_TYPE_STRING, databasev1.TagType_TAG_TYPE_STRING_ARRAY, databasev1.TagType_TAG_TYPE_INT_ARRAY}
	valueTypes := []pbv1.ValueType{pbv1.ValueTypeInt64, pbv1.ValueTypeStr, pbv1.ValueTypeStrArr, pbv1.ValueTypeInt64Arr}
	c08BloomAdded, c08BloomFP, c08BloomAsked = nil, nil, 0
	for i := 0; i < 4; i++ {
		c08BloomFP = append(c08BloomFP, zzverif.Bool("bloom filter false positive"))
	}
	tr := &databasev1.Trace{
		Metadata: &commonv1.Metadata{Name: "tr", Group: "g"},
		Tags: []*databasev1.TraceTagSpec{
			{Name: "trace_id", Type: databasev1.TagType_TAG_TYPE_STRING},
			{Name: "span_id", Type: databasev1.TagType_TAG_TYPE_STRING},
			{Name: "ts", Type: databasev1.TagType_TAG_TYPE_TIMESTAMP},
			{Name: "t", Type: tagTypes[kind]},
		},
		TraceIdTagName: "trace_id", SpanIdTagName: "span_id", TimestampTagName: "ts",
	}
	s, err := logicaltrace.BuildSchema(tr, nil)
	zzverif.Assert(err == nil, "the schema builds")

	// the condition
	nl := 1
	var op modelv1.Condition_BinaryOp
	if kind <= 1 {
		ops := []modelv1.Condition_BinaryOp{
			modelv1.Condition_BINARY_OP_EQ, modelv1.Condition_BINARY_OP_NE, modelv1.Condition_BINARY_OP_IN, modelv1.Condition_BINARY_OP_NOT_IN,
			modelv1.Condition_BINARY_OP_GT, modelv1.Condition_BINARY_OP_GE, modelv1.Condition_BINARY_OP_LT, modelv1.Condition_BINARY_OP_LE,
		}
		no := 4
		if kind == 0 {
			no = 8
		}
		op = ops[c08Pick("op", no)]
		if op == modelv1.Condition_BINARY_OP_IN || op == modelv1.Condition_BINARY_OP_NOT_IN {
			nl = 1 + c08Pick("literals", 2)
		}
	} else {
		op = []modelv1.Condition_BinaryOp{modelv1.Condition_BINARY_OP_HAVING, modelv1.Condition_BINARY_OP_NOT_HAVING}[c08Pick("op", 2)]
		nl = 1 + c08Pick("literals", 2)
	}
	isInt := kind == 0 || kind == 3
	var ilits []int64
	var slits []string
	for i := 0; i < nl; i++ {
		if isInt {
			ilits = append(ilits, c08IntLits[c08Pick("literal", len(c08IntLits))])
		} else {
			slits = append(slits, c08StrLits[c08Pick("literal", len(c08StrLits))])
		}
	}
	var lit *modelv1.TagValue
	multi := op == modelv1.Condition_BINARY_OP_IN || op == modelv1.Condition_BINARY_OP_NOT_IN || kind >= 2
	switch {
	case isInt && multi:
		lit = &modelv1.TagValue{Value: &modelv1.TagValue_IntArray{IntArray: &modelv1.IntArray{Value: ilits}}}
	case isInt:
		lit = &modelv1.TagValue{Value: &modelv1.TagValue_Int{Int: &modelv1.Int{Value: ilits[0]}}}
	case multi:
		lit = &modelv1.TagValue{Value: &modelv1.TagValue_StrArray{StrArray: &modelv1.StrArray{Value: slits}}}
	default:
		lit = &modelv1.TagValue{Value: &modelv1.TagValue_Str{Str: &modelv1.Str{Value: slits[0]}}}
	}
	criteria := &modelv1.Criteria{Exp: &modelv1.Criteria_Condition{Condition: &modelv1.Condition{Name: "t", Op: op, Value: lit}}}
	flt, err := logicaltrace.VerifBuildFilter(criteria, s, map[string]bool{"trace_id": true, "span_id": true, "ts": true, "t": true}, "trace_id", "span_id", "")
	zzverif.Assert(err == nil && flt != nil, "a condition on a trace tag compiles to a block filter")
	if err != nil || flt == nil {
		return
	}

	// the block: elements written through the real write path (values in the byte form
	// banyand/trace's encodeTagValue gives them: ints as 8 bytes, strings as they are)
	maxRows := 2
	if zzverif.Thorough() && kind <= 1 {
		maxRows = 3
	}
	rows := 1 + c08Pick("elements", maxRows)
	td := &tagData{name: "t", valueType: valueTypes[kind]}
	anyMatch := false
	for i := 0; i < rows; i++ {
		var ivals []int64
		var svals []string
		n := 1
		if kind >= 2 {
			n = 1 + c08Pick("items", 2)
		}
		var row tagRow
		for k := 0; k < n; k++ {
			var enc []byte
			if isInt {
				v := zzverif.Int64("value")
				ivals = append(ivals, v)
				enc = convert.Int64ToBytes(v)
			} else {
				ln := 1
				if kind == 1 || rows == 1 {
					ln = 1 + c08Pick("len", 2)
				}
				enc = zzverif.Bytes("value", ln)
				svals = append(svals, string(enc))
			}
			if kind >= 2 {
				row.valueArr = append(row.valueArr, enc)
			} else {
				row.value = enc
			}
		}
		td.values = append(td.values, row)

		has := func(k int) bool { // the element holds literal k
			r := false
			if isInt {
				for _, v := range ivals {
					r = zzverif.Or(r, v == ilits[k])
				}
			} else {
				for _, v := range svals {
					r = zzverif.Or(r, v == slits[k])
				}
			}
			return r
		}
		hasAny, hasAll := false, true
		for k := 0; k < nl; k++ {
			hasAny = zzverif.Or(hasAny, has(k))
			hasAll = zzverif.And(hasAll, has(k))
		}
		var m bool
		switch op {
		case modelv1.Condition_BINARY_OP_EQ, modelv1.Condition_BINARY_OP_IN:
			m = hasAny
		case modelv1.Condition_BINARY_OP_NE, modelv1.Condition_BINARY_OP_NOT_IN:
			m = !hasAny
		case modelv1.Condition_BINARY_OP_HAVING:
			m = hasAll
		case modelv1.Condition_BINARY_OP_NOT_HAVING:
			m = !hasAll
		case modelv1.Condition_BINARY_OP_GT:
			m = ivals[0] > ilits[0]
		case modelv1.Condition_BINARY_OP_GE:
			m = ivals[0] >= ilits[0]
		case modelv1.Condition_BINARY_OP_LT:
			m = ivals[0] < ilits[0]
		default:
			m = ivals[0] <= ilits[0]
		}
		anyMatch = zzverif.Or(anyMatch, m)
	}
	mp := &memPart{}
	ww := GenerateWriters()
	ww.MustInitForMemPart(mp)
	bm := generateBlockMetadata()
	b := &block{tags: map[string]*tagData{"t": td}}
	b.mustWriteTag("t", td, bm, ww)

	// the query side, as partKeyIter evaluates the block filter
	tfo := generateTagFilterOp(bm, openMemPart(mp))
	skip, err := flt.ShouldSkip(tfo)
	zzverif.Reach("judged")
	zzverif.Assert(err == nil, "evaluating the block filter does not fail")
	zzverif.Assert(zzverif.Implies(anyMatch, !skip), "a block holding an element that satisfies the condition is not ruled out by the block filter")
}
