//go:build verif

// verif:dir banyand/internal/sidx
package sidx

import (
	"github.com/apache/skywalking-banyandb/pkg/zzverif"
)

//verif:harness prop=C09,C13 tier=quick,thorough reach=built paths=400000
// Reading one block of the ordered secondary index under a key range: the entries handed on are
// exactly the first occurrence, in block order, of each distinct payload AMONG THE ENTRIES
// INSIDE THE RANGE - an occurrence outside the range never hides a later one inside it - with
// their own keys, in block order.
// bound: a block of 1..3 entries with arbitrary int64 keys and payloads from {p, q}, optional lower and upper key bound (arbitrary)
func VerifH_C09_BlockRangeReadKeepsFirstInRangeOccurrence() {
	n := 1 + zzverif.Choice("entries", 3)
	blk := &block{tags: map[string]*tagData{}}
	pay := []string{"p", "q"}
	for i := 0; i < n; i++ {
		blk.userKeys = append(blk.userKeys, zzverif.Int64("key"))
		d := pay[0]
		if zzverif.Bool("second payload") {
			d = pay[1]
		}
		blk.data = append(blk.data, []byte(d))
	}
	b := &blockCursorBuilder{bc: &blockCursor{tags: map[string][]Tag{}}, block: blk, seen: map[uint64][][]byte{}}
	b.hasMin, b.hasMax = zzverif.Bool("lower bound"), zzverif.Bool("upper bound")
	b.minKey, b.maxKey = zzverif.Int64("min key"), zzverif.Int64("max key")
	b.processWithoutFilter()
	zzverif.Reach("built")
	inRange := func(k int64) bool {
		return zzverif.And(zzverif.Or(!b.hasMin, k >= b.minKey), zzverif.Or(!b.hasMax, k <= b.maxKey))
	}
	// reference
	var wantKeys []int64
	var wantData []string
	seen := map[string]bool{}
	for i := 0; i < n; i++ {
		if !inRange(blk.userKeys[i]) {
			continue
		}
		d := string(blk.data[i])
		if seen[d] {
			continue
		}
		seen[d] = true
		wantKeys = append(wantKeys, blk.userKeys[i])
		wantData = append(wantData, d)
	}
	zzverif.Assert(len(b.bc.userKeys) == len(wantKeys) && len(b.bc.data) == len(wantKeys), "exactly the distinct in-range payloads are handed on")
	for i := range wantKeys {
		if i < len(b.bc.userKeys) && i < len(b.bc.data) {
			zzverif.Assert(b.bc.userKeys[i] == wantKeys[i] && string(b.bc.data[i]) == wantData[i], "each with the key of its first in-range occurrence, in block order")
		}
	}
}
