//go:build verif

// verif:dir banyand/internal/sidx
package sidx

import (
	"github.com/apache/skywalking-banyandb/api/common"
	"github.com/apache/skywalking-banyandb/pkg/zzverif"
)

var c08PrimaryContent [][]blockMetadata

// c08StubEnsurePrimary stands for reading, decompressing and decoding one primary index block.
func c08StubEnsurePrimary(pki *partKeyIter, primaryIdx int) (*blockMetadataArray, error) {
	if pki.primaryCache == nil {
		pki.primaryCache = make(map[int]*blockMetadataArray)
	}
	if bma, ok := pki.primaryCache[primaryIdx]; ok && bma != nil {
		return bma, nil
	}
	bma := &blockMetadataArray{arr: append([]blockMetadata(nil), c08PrimaryContent[primaryIdx]...)}
	pki.primaryCache[primaryIdx] = bma
	return bma, nil
}

//verif:harness prop=C08,C09 tier=quick,thorough reach=iterated native=off paths=2000000 redirect=partKeyIter.ensurePrimaryBlocks:c08StubEnsurePrimary
// Scanning one secondary-index part for a query: for ANY layout of the part's blocks into primary
// index blocks, any list of wanted series and any key range, the key iterator yields exactly the
// blocks whose series is wanted and whose key range intersects the queried range - each once -
// in ascending or descending order; in particular a block that straddles the lower or upper
// bound of the range is kept.
// bound: 1..3 blocks (thorough 1..4) over series {1,2,3} in writing order (series non-decreasing, per series key ranges non-decreasing: next.min >= prev.max), primary index blocks cut after any block with the range metadata the writer records, wanted series = any non-empty subset of {1,2,3} (thorough {1,2,3,4}), arbitrary key range, ascending | descending, no block filter
func VerifH_C08_SidxKeyIteratorYieldsExactlyTheMatchingBlocks() {
	maxN := 3
	if zzverif.Thorough() {
		maxN = 4
	}
	n := 1 + zzverif.Choice("blocks", maxN)
	var blocks []blockMetadata
	sid := common.SeriesID(1)
	for i := 0; i < n; i++ {
		if i > 0 && sid < 3 && zzverif.Bool("next series") {
			sid++
			if sid < 3 && zzverif.Bool("skip a series") {
				sid++
			}
		}
		var bm blockMetadata
		bm.seriesID = sid
		bm.minKey, bm.maxKey = zzverif.Int64("min key"), zzverif.Int64("max key")
		zzverif.Assume(bm.minKey <= bm.maxKey)
		if i > 0 && blocks[i-1].seriesID == sid {
			zzverif.Assume(blocks[i-1].maxKey <= bm.minKey)
		}
		bm.count = uint64(i + 1)             // identifies the block
		bm.dataBlock.offset = uint64(i) * 16 // distinct data offsets, as in a written part
		blocks = append(blocks, bm)
	}
	c08PrimaryContent = nil
	var pbms []primaryBlockMetadata
	start := 0
	for i := 0; i < n; i++ {
		if i == n-1 || zzverif.Bool("primary block cut") {
			var pbm primaryBlockMetadata
			pbm.seriesID = blocks[start].seriesID
			pbm.minKey, pbm.maxKey = blocks[start].minKey, blocks[start].maxKey
			for _, b := range blocks[start+1 : i+1] {
				pbm.minKey = zzverif.IteI(b.minKey < pbm.minKey, b.minKey, pbm.minKey)
				pbm.maxKey = zzverif.IteI(b.maxKey > pbm.maxKey, b.maxKey, pbm.maxKey)
			}
			pbms = append(pbms, pbm)
			c08PrimaryContent = append(c08PrimaryContent, append([]blockMetadata(nil), blocks[start:i+1]...))
			start = i + 1
		}
	}
	var sids []common.SeriesID
	wanted := map[common.SeriesID]bool{}
	maxWanted := common.SeriesID(3)
	if zzverif.Thorough() {
		maxWanted = 4
	}
	for s := common.SeriesID(1); s <= maxWanted; s++ {
		if zzverif.Bool("series wanted") {
			sids = append(sids, s)
			wanted[s] = true
		}
	}
	zzverif.Assume(len(sids) > 0)
	lo, hi := zzverif.Int64("range min"), zzverif.Int64("range max")
	zzverif.Assume(lo <= hi)
	asc := zzverif.Bool("ascending")
	p := &part{primaryBlockMetadata: pbms}
	pki := &partKeyIter{}
	pki.init(p, sids, lo, hi, nil, asc, nil)
	yielded := map[uint64]int{}
	total := 0
	for steps := 0; steps < 12 && pki.nextBlock(); steps++ {
		yielded[pki.curBlock.count]++
		total++
	}
	zzverif.Reach("iterated")
	zzverif.Assert(pki.error() == nil, "the scan ends without error")
	matches := 0
	for _, b := range blocks {
		match := false
		if wanted[b.seriesID] {
			match = zzverif.And(b.minKey <= hi, b.maxKey >= lo)
		}
		if match {
			matches++
		}
		zzverif.Assert((yielded[b.count] == 1) == match && yielded[b.count] <= 1, "a block is yielded (once) exactly when its series is wanted and its key range intersects the queried range")
	}
	zzverif.Assert(total == matches, "nothing else is yielded")
}
