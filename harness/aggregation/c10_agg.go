//go:build verif

// verif:dir pkg/query/aggregation
package aggregation

import (
	modelv1 "github.com/apache/skywalking-banyandb/api/proto/banyandb/model/v1"
	"github.com/apache/skywalking-banyandb/pkg/zzverif"
)

var c10Funcs = []modelv1.AggregationFunction{
	modelv1.AggregationFunction_AGGREGATION_FUNCTION_SUM,
	modelv1.AggregationFunction_AGGREGATION_FUNCTION_COUNT,
	modelv1.AggregationFunction_AGGREGATION_FUNCTION_MIN,
	modelv1.AggregationFunction_AGGREGATION_FUNCTION_MAX,
	modelv1.AggregationFunction_AGGREGATION_FUNCTION_MEAN,
}

// refInt64 is the documented definition over int64 (wrap-around sum; MEAN = sum/count, at least 1
// when there is any point; empty input: SUM/COUNT/MEAN 0, MIN MaxInt64, MAX MinInt64).
func refInt64(af modelv1.AggregationFunction, vs []int64) int64 {
	var sum, count int64
	mn, mx := int64(9223372036854775807), int64(-9223372036854775808)
	for _, v := range vs {
		sum += v
		count++
		mn = zzverif.IteI(v < mn, v, mn)
		mx = zzverif.IteI(v > mx, v, mx)
	}
	switch af {
	case modelv1.AggregationFunction_AGGREGATION_FUNCTION_SUM:
		return sum
	case modelv1.AggregationFunction_AGGREGATION_FUNCTION_COUNT:
		return count
	case modelv1.AggregationFunction_AGGREGATION_FUNCTION_MIN:
		return mn
	case modelv1.AggregationFunction_AGGREGATION_FUNCTION_MAX:
		return mx
	}
	if count == 0 {
		return 0
	}
	q := sum / count
	return zzverif.IteI(q < 1, 1, q)
}

//verif:harness prop=C10 tier=quick,thorough reach=composed paths=100000
// For int64 fields: Map over all points equals the documented definition, and reducing the
// partial aggregates of ANY partition of the points into K shards (shards may be empty) gives
// exactly the same answer, for SUM, COUNT, MIN, MAX and MEAN; partials survive the
// FieldValue wire form unchanged.
// bound: N <= 3 points (thorough 4), K = 3 shards, arbitrary 64-bit values
func VerifH_C10_Int64_MapReduce() {
	maxN := 3
	if zzverif.Thorough() {
		maxN = 4
	}
	n := zzverif.Choice("n", maxN+1)
	const K = 3
	vs := make([]int64, n)
	part := make([]int, n)
	for i := range vs {
		vs[i] = zzverif.Int64("v")
		part[i] = zzverif.Choice("shard", K)
	}
	af := c10Funcs[zzverif.Choice("func", len(c10Funcs))]
	all, err := NewMap[int64](af)
	zzverif.Assert(err == nil, "NewMap accepts the function")
	for _, v := range vs {
		all.In(v)
	}
	want := refInt64(af, vs)
	zzverif.Assert(all.Val() == want, "Map over all points equals the documented definition")
	red, err := NewReduce[int64](af)
	zzverif.Assert(err == nil, "NewReduce accepts the function")
	for k := 0; k < K; k++ {
		m, _ := NewMap[int64](af)
		for i, v := range vs {
			if part[i] == k {
				m.In(v)
			}
		}
		p := m.Partial()
		fvs, perr := PartialToFieldValues(af, p)
		zzverif.Assert(perr == nil, "partial converts to field values")
		back, berr := FieldValuesToPartial[int64](af, fvs)
		zzverif.Assert(berr == nil && back.Value == p.Value && back.Count == p.Count, "partial survives the wire form")
		red.Combine(back)
	}
	zzverif.Reach("composed")
	if mr, ok := red.(*meanReduceFunc[int64]); ok {
		// compare the components (two symbolic 64-bit divisions are not decided by bit-blasting in time)
		var sum, count int64
		for _, v := range vs {
			sum += v
			count++
		}
		zzverif.Assert(mr.sum == sum && mr.count == count, "reduced MEAN carries the total sum and count")
		zzverif.Assert(zzverif.Iff(mr.count == 0, red.Val() == 0), "reduced MEAN is 0 exactly for no points")
		return
	}
	zzverif.Assert(red.Val() == want, "reduce of shard partials equals aggregating everything in one place")
}

//verif:harness prop=C10 tier=quick,thorough reach=ok
// MEAN's value is a function of (sum,count) only and the same function in Map and Reduce:
// 0 for no points, otherwise max(1, sum/count).
// bound: arbitrary 64-bit sum; count in [0, 2^31)
func VerifH_C10_Int64_MeanVal() {
	sum, count := zzverif.Int64("sum"), zzverif.Int64("count")
	zzverif.Assume(count >= 0 && count < 1<<31)
	m := meanFunc[int64]{sum: sum, count: count}
	r := meanReduceFunc[int64]{sum: sum, count: count}
	zzverif.Reach("ok")
	zzverif.Assert(m.Val() == r.Val(), "Map and Reduce compute MEAN from (sum,count) identically")
	if count == 0 {
		zzverif.Assert(m.Val() == 0, "MEAN of nothing is 0")
		return
	}
	q := sum / count
	zzverif.Assert(m.Val() == zzverif.IteI(q < 1, 1, q), "MEAN = max(1, sum/count)")
}

//verif:harness prop=C10 tier=quick,thorough reach=composed paths=100000
// float64 fields: MIN, MAX and COUNT compose exactly over any partition (NaN excluded).
// bound: N <= 3 points, K = 2 shards, finite or infinite non-NaN values
// outside: float SUM/MEAN composition (float addition is not associative; the property states exactness for integers)
func VerifH_C10_Float64_MinMaxCount() {
	n := 1 + zzverif.Choice("n", 3)
	vs := make([]float64, n)
	part := make([]int, n)
	for i := range vs {
		vs[i] = zzverif.Float64("v")
		zzverif.Assume(vs[i] == vs[i])
		part[i] = zzverif.Choice("shard", 2)
	}
	fs := []modelv1.AggregationFunction{
		modelv1.AggregationFunction_AGGREGATION_FUNCTION_MIN,
		modelv1.AggregationFunction_AGGREGATION_FUNCTION_MAX,
		modelv1.AggregationFunction_AGGREGATION_FUNCTION_COUNT,
	}
	af := fs[zzverif.Choice("func", len(fs))]
	all, _ := NewMap[float64](af)
	for _, v := range vs {
		all.In(v)
	}
	red, _ := NewReduce[float64](af)
	for k := 0; k < 2; k++ {
		m, _ := NewMap[float64](af)
		for i, v := range vs {
			if part[i] == k {
				m.In(v)
			}
		}
		red.Combine(m.Partial())
	}
	zzverif.Reach("composed")
	zzverif.Assert(red.Val() == all.Val(), "float MIN/MAX/COUNT: reduce of partials equals the single-place aggregate")
}
