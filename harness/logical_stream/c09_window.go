//go:build verif

// verif:dir pkg/query/logical/stream
package stream

import (
	"context"

	modelv1 "github.com/apache/skywalking-banyandb/api/proto/banyandb/model/v1"
	streamv1 "github.com/apache/skywalking-banyandb/api/proto/banyandb/stream/v1"
	"github.com/apache/skywalking-banyandb/pkg/query/logical"
	"github.com/apache/skywalking-banyandb/pkg/zzverif"
)

// a scan that hands out ordered elements batch after batch
type c09Scan struct {
	logical.Plan
	batches [][]*streamv1.Element
	next    int
}

func (s *c09Scan) Execute(context.Context) ([]*streamv1.Element, error) {
	if s.next >= len(s.batches) {
		return nil, nil
	}
	b := s.batches[s.next]
	s.next++
	return b, nil
}
func (s *c09Scan) Close() {}

// a residual tag filter that accepts the elements marked in the harness
type c09Filter struct{ accept map[string]bool }

func (f c09Filter) String() string { return "c09" }
func (f c09Filter) Match(acc logical.TagValueIndexAccessor, _ logical.TagSpecRegistry) (bool, error) {
	tfs := acc.(logical.TagFamilies)
	return f.accept[tfs[0].Name], nil
}

//verif:harness prop=C09 tier=quick,thorough reach=windowed paths=600000
// limit(offset, limit) over a residual tag filter over an ordered scan that delivers its
// elements in several batches returns exactly rows [offset, offset+limit) of the filtered,
// ordered sequence - also when some batch in the middle of the window contains no matching
// row (the filter must go on to the next batch instead of reporting the end of the stream).
// bound: 1..3 batches of 1..2 elements (an empty batch ends the scan), each element accepted or rejected by the filter, limit 1..3, offset 0..2
func VerifH_C09_LimitOverFilteredBatchesIsTheWindowOfTheFilteredSequence() {
	nb := 1 + zzverif.Choice("batches", 3)
	scan := &c09Scan{}
	flt := c09Filter{accept: map[string]bool{}}
	var filtered []string
	id := 0
	for b := 0; b < nb; b++ {
		m := 1 + zzverif.Choice("elements", 2)
		var batch []*streamv1.Element
		for i := 0; i < m; i++ {
			id++
			name := "e" + string(rune('0'+id))
			e := &streamv1.Element{ElementId: name, TagFamilies: nil}
			// the element's identity travels in its first tag family's name
			e.TagFamilies = append(e.TagFamilies, newC09Family(name))
			if zzverif.Bool("matches the filter") {
				flt.accept[name] = true
				filtered = append(filtered, name)
			}
			batch = append(batch, e)
		}
		scan.batches = append(scan.batches, batch)
	}
	lim := uint32(1 + zzverif.Choice("limit", 3))
	off := uint32(zzverif.Choice("offset", 3))
	plan := &limit{Parent: &Parent{Input: &tagFilterPlan{parent: scan, tagFilter: flt}}, limitNum: lim, offsetNum: off}
	got, err := plan.Execute(context.Background())
	zzverif.Reach("windowed")
	zzverif.Assert(err == nil, "the query runs")
	var want []string
	for i, name := range filtered {
		if uint32(i) >= off && uint32(i) < off+lim {
			want = append(want, name)
		}
	}
	zzverif.Assert(len(got) == len(want), "the window has as many rows as the filtered sequence provides between offset and offset+limit")
	for i := range want {
		if i < len(got) {
			zzverif.Assert(got[i].ElementId == want[i], "the window holds the filtered rows in scan order")
		}
	}
}

func newC09Family(name string) *modelv1.TagFamily { return &modelv1.TagFamily{Name: name} }
