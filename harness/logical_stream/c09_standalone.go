//go:build verif

// verif:dir pkg/query/logical/stream
package stream

import (
	commonv1 "github.com/apache/skywalking-banyandb/api/proto/banyandb/common/v1"
	databasev1 "github.com/apache/skywalking-banyandb/api/proto/banyandb/database/v1"
	modelv1 "github.com/apache/skywalking-banyandb/api/proto/banyandb/model/v1"
	streamv1 "github.com/apache/skywalking-banyandb/api/proto/banyandb/stream/v1"
	"github.com/apache/skywalking-banyandb/pkg/query/executor"
	"github.com/apache/skywalking-banyandb/pkg/query/logical"
	"github.com/apache/skywalking-banyandb/pkg/zzverif"
)

func c09FindScan(p logical.Plan) *localIndexScan {
	if s, ok := p.(*localIndexScan); ok {
		return s
	}
	for _, c := range p.Children() {
		if s := c09FindScan(c); s != nil {
			return s
		}
	}
	return nil
}

//verif:harness prop=C09 tier=quick,thorough reach=planned paths=10000
// Stand-alone limit/offset planning: the plan is limit(offset, limit) over a scan that is told
// how many ordered rows it may stop after; that cap must be offset+limit (no fewer, or the
// window [offset, offset+limit) is cut from a truncated input) and is computed without wrapping.
// bound: arbitrary uint32 limit and offset (0 = default limit); one stream, no criteria, projection of one tag
func VerifH_C09_StandaloneScanCapCoversTheWindow() {
	limitV, offset := zzverif.Uint32("limit"), zzverif.Uint32("offset")
	md := &commonv1.Metadata{Name: "s", Group: "g"}
	sm := &databasev1.Stream{
		Metadata:    md,
		TagFamilies: []*databasev1.TagFamilySpec{{Name: "default", Tags: []*databasev1.TagSpec{{Name: "a", Type: databasev1.TagType_TAG_TYPE_STRING}}}},
		Entity:      &databasev1.Entity{TagNames: []string{"a"}},
	}
	s, err := BuildSchema(sm, nil)
	zzverif.Assert(err == nil, "the schema builds")
	q := &streamv1.QueryRequest{
		Name: "s", Groups: []string{"g"}, Limit: limitV, Offset: offset,
		Projection: &modelv1.TagProjection{TagFamilies: []*modelv1.TagProjection_TagFamily{{Name: "default", Tags: []string{"a"}}}},
	}
	p, err := Analyze(q, []*commonv1.Metadata{md}, []logical.Schema{s}, []executor.StreamExecutionContext{nil})
	zzverif.Reach("planned")
	zzverif.Assert(err == nil && p != nil, "the query is planned")
	if err != nil || p == nil {
		return
	}
	lim, ok := p.(*limit)
	zzverif.Assert(ok, "the root of the plan is the limit node")
	if !ok {
		return
	}
	l := uint64(limitV)
	if limitV == 0 {
		l = uint64(defaultLimit)
	}
	zzverif.Assert(uint64(lim.limitNum) == l && lim.offsetNum == offset, "the limit node carries the query's window")
	scan := c09FindScan(p)
	zzverif.Assert(scan != nil, "the plan scans the stream")
	if scan != nil {
		zzverif.Assert(uint64(scan.maxElementSize) == l+uint64(offset), "the scan may stop only after offset+limit rows")
	}
}
