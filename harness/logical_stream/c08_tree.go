//go:build verif

// verif:dir pkg/query/logical/stream
package stream

import (
	"bytes"
	"math"

	"github.com/blugelabs/bluge/numeric"

	commonv1 "github.com/apache/skywalking-banyandb/api/proto/banyandb/common/v1"
	databasev1 "github.com/apache/skywalking-banyandb/api/proto/banyandb/database/v1"
	modelv1 "github.com/apache/skywalking-banyandb/api/proto/banyandb/model/v1"
	"github.com/apache/skywalking-banyandb/pkg/convert"
	"github.com/apache/skywalking-banyandb/pkg/index"
	pbv1 "github.com/apache/skywalking-banyandb/pkg/pb/v1"
	"github.com/apache/skywalking-banyandb/pkg/zzverif"
)

// c08ExactOp is the most selective block filter data a block of ONE row can carry: membership is
// exact (a bloom filter may only answer "might contain" more often) and min = max = the value,
// compared the way banyand/stream's tagFamilyFilters compares them (stored 8-byte form).
type c08ExactOp struct{ vals map[string]int64 }

func (o c08ExactOp) Eq(tag string, v string) bool {
	x, ok := o.vals[tag]
	if !ok {
		return true
	}
	return bytes.Equal(convert.Int64ToBytes(x), []byte(v))
}

func (o c08ExactOp) Having(string, []string) bool { return true }

func (o c08ExactOp) Range(tag string, r index.RangeOpts) (bool, error) {
	x, ok := o.vals[tag]
	if !ok {
		return false, nil
	}
	if r.Lower != nil {
		l := numeric.Float64ToInt64(r.Lower.(*index.FloatTermValue).Value)
		if zzverif.Or(x < l, zzverif.And(!r.IncludesLower, x == l)) {
			return true, nil
		}
	}
	if r.Upper != nil {
		u := numeric.Float64ToInt64(r.Upper.(*index.FloatTermValue).Value)
		if zzverif.Or(x > u, zzverif.And(!r.IncludesUpper, x == u)) {
			return true, nil
		}
	}
	return false, nil
}

var c08TreeLits = []int64{7, -1, 0}

// c08TreeCond: a condition on one of the int tags t (SKIPPING rule), u (SKIPPING rule), w (no index).
func c08TreeCond(vals map[string]int64) (*modelv1.Criteria, bool) {
	name := []string{"t", "u", "w"}[c08Pick("tag", 3)]
	lit := c08TreeLits[c08Pick("literal", len(c08TreeLits))]
	ops := []modelv1.Condition_BinaryOp{
		modelv1.Condition_BINARY_OP_EQ, modelv1.Condition_BINARY_OP_NE, modelv1.Condition_BINARY_OP_GT, modelv1.Condition_BINARY_OP_LE,
	}
	o := c08Pick("op", len(ops))
	x := vals[name]
	var m bool
	switch o {
	case 0:
		m = x == lit
	case 1:
		m = x != lit
	case 2:
		m = x > lit
	default:
		m = x <= lit
	}
	return &modelv1.Criteria{Exp: &modelv1.Criteria_Condition{Condition: &modelv1.Condition{
		Name: name, Op: ops[o], Value: &modelv1.TagValue{Value: &modelv1.TagValue_Int{Int: &modelv1.Int{Value: lit}}},
	}}}, m
}

func c08TreeNode(vals map[string]int64, depth int) (*modelv1.Criteria, bool) {
	if depth == 0 || c08Pick("leaf", 2) == 0 {
		return c08TreeCond(vals)
	}
	l, lm := c08TreeNode(vals, depth-1)
	r, rm := c08TreeNode(vals, depth-1)
	if c08Pick("logical op", 2) == 0 {
		return &modelv1.Criteria{Exp: &modelv1.Criteria_Le{Le: &modelv1.LogicalExpression{Op: modelv1.LogicalExpression_LOGICAL_OP_AND, Left: l, Right: r}}}, zzverif.And(lm, rm)
	}
	return &modelv1.Criteria{Exp: &modelv1.Criteria_Le{Le: &modelv1.LogicalExpression{Op: modelv1.LogicalExpression_LOGICAL_OP_OR, Left: l, Right: r}}}, zzverif.Or(lm, rm)
}

//verif:harness prop=C08 tier=quick,thorough reach=judged paths=400000
// AND/OR trees of conditions compile (real buildLocalFilter, SKIPPING rules) to a block filter
// tree whose verdict is sound: for every criteria tree over two skipping-indexed int tags and one
// unindexed tag, and every row, if the row satisfies the criteria then the filter tree does not
// rule out the block that holds just this row - even against the most selective filter data a
// block can carry (exact membership, min = max = the value).
// bound: criteria trees of depth <= 1 over conditions = | != | > | <= with literals from {7,-1,0} (thorough also MaxInt64, MinInt64) on tags t, u (SKIPPING) and w (unindexed); arbitrary int64 row values
func VerifH_C08_BlockFilterTreeIsSound() {
	vals := map[string]int64{"t": zzverif.Int64("t"), "u": zzverif.Int64("u"), "w": zzverif.Int64("w")}
	c08TreeLits = []int64{7, -1, 0}
	if zzverif.Thorough() {
		c08TreeLits = []int64{7, -1, 0, math.MaxInt64, math.MinInt64}
	}
	criteria, want := c08TreeNode(vals, 1)
	sm := &databasev1.Stream{
		Metadata: &commonv1.Metadata{Name: "s", Group: "g"},
		TagFamilies: []*databasev1.TagFamilySpec{{Name: "tf", Tags: []*databasev1.TagSpec{
			{Name: "e", Type: databasev1.TagType_TAG_TYPE_STRING},
			{Name: "t", Type: databasev1.TagType_TAG_TYPE_INT},
			{Name: "u", Type: databasev1.TagType_TAG_TYPE_INT},
			{Name: "w", Type: databasev1.TagType_TAG_TYPE_INT},
		}}},
		Entity: &databasev1.Entity{TagNames: []string{"e"}},
	}
	rules := []*databasev1.IndexRule{
		{Metadata: &commonv1.Metadata{Name: "rt", Group: "g", Id: 1}, Tags: []string{"t"}, Type: databasev1.IndexRule_TYPE_SKIPPING},
		{Metadata: &commonv1.Metadata{Name: "ru", Group: "g", Id: 2}, Tags: []string{"u"}, Type: databasev1.IndexRule_TYPE_SKIPPING},
	}
	s, err := BuildSchema(sm, rules)
	zzverif.Assert(err == nil, "the schema builds")
	flt, _, err := buildLocalFilter(criteria, s, map[string]int{"e": 0}, []*modelv1.TagValue{pbv1.AnyTagValue}, databasev1.IndexRule_TYPE_SKIPPING)
	zzverif.Assert(err == nil, "the criteria compile")
	if err != nil || flt == nil {
		return
	}
	delete(vals, "w") // an unindexed tag has no filter data
	skip, err := flt.ShouldSkip(c08ExactOp{vals: vals})
	zzverif.Reach("judged")
	zzverif.Assert(err == nil, "evaluating the block filter does not fail")
	zzverif.Assert(zzverif.Implies(want, !skip), "a block holding a row that satisfies the criteria tree is not ruled out")
}
