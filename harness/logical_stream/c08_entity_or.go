//go:build verif

// verif:dir pkg/query/logical/stream
package stream

import (
	commonv1 "github.com/apache/skywalking-banyandb/api/proto/banyandb/common/v1"
	databasev1 "github.com/apache/skywalking-banyandb/api/proto/banyandb/database/v1"
	modelv1 "github.com/apache/skywalking-banyandb/api/proto/banyandb/model/v1"
	streamv1 "github.com/apache/skywalking-banyandb/api/proto/banyandb/stream/v1"
	pbv1 "github.com/apache/skywalking-banyandb/pkg/pb/v1"
	"github.com/apache/skywalking-banyandb/pkg/query/executor"
	"github.com/apache/skywalking-banyandb/pkg/query/logical"
	"github.com/apache/skywalking-banyandb/pkg/zzverif"
)

func c08FindTagFilter(p logical.Plan) *tagFilterPlan {
	if s, ok := p.(*tagFilterPlan); ok {
		return s
	}
	for _, c := range p.Children() {
		if s := c08FindTagFilter(c); s != nil {
			return s
		}
	}
	return nil
}

func c08Pick(label string, n int) int {
	k := 0
	for sym := zzverif.Choice(label, n); k < n-1 && sym != k; {
		k++
	}
	return k
}

// c08Cond builds one condition and reports whether the row (entity e, tag t) satisfies it and
// whether it is a condition on the entity tag.
func c08Cond(e, t string) (*modelv1.Criteria, bool, bool) {
	name, val := "e", e
	lits := []string{"a", "b"}
	ops := []modelv1.Condition_BinaryOp{modelv1.Condition_BINARY_OP_EQ}
	if c08Pick("condition on", 2) == 1 {
		name, val = "t", t
		lits = []string{"x", "y"}
		ops = append(ops, modelv1.Condition_BINARY_OP_NE)
	}
	lit := lits[c08Pick("literal", 2)]
	o := c08Pick("op", len(ops))
	m := val == lit
	if o == 1 {
		m = val != lit
	}
	return &modelv1.Criteria{Exp: &modelv1.Criteria_Condition{Condition: &modelv1.Condition{
		Name: name, Op: ops[o], Value: &modelv1.TagValue{Value: &modelv1.TagValue_Str{Str: &modelv1.Str{Value: lit}}},
	}}}, m, name == "e"
}

//verif:harness prop=C08 tier=quick,thorough reach=planned paths=100000
// A stream query implements conditions on entity tags by series selection (the entities handed
// to the scan) and drops them from the row-level tag filter. Series selection and row filter
// together must select exactly the rows that satisfy the criteria: for every criteria tree and
// every row (entity tag e, ordinary tag t), the row's series is among the selected entities and
// the row passes the plan's tag filter iff the criteria hold for it.
// Known finding F20: for `entity condition OR other condition` the row filter drops the entity
// side (BuildTagFilter turns it into the always-true dummy, and logicalNode.append discards
// dummies from OR nodes as it rightly does from AND nodes), so rows of the named entity that fail
// the other side are lost.
// bound: criteria = one condition or (c1 AND|OR c2); conditions e = "a"|"b" on the entity tag or t = | != "x"|"y" on an unindexed tag; rows with e in {"a","b","c"}, t in {"x","y","z"}; real Analyze -> localIndexScan.entities + tagFilterPlan
func VerifH_C08_StreamEntitySelectionPlusFilterSelectExactly() {
	e := []string{"a", "b", "c"}[c08Pick("e", 3)]
	t := []string{"x", "y", "z"}[c08Pick("t", 3)]
	var criteria *modelv1.Criteria
	var want bool
	entityOrOther := false // (entity condition) OR (condition on another tag): known finding F20
	if c08Pick("shape", 2) == 0 {
		criteria, want, _ = c08Cond(e, t)
	} else {
		l, lm, le := c08Cond(e, t)
		r, rm, re := c08Cond(e, t)
		op := modelv1.LogicalExpression_LOGICAL_OP_AND
		want = lm && rm
		if c08Pick("logical op", 2) == 1 {
			op = modelv1.LogicalExpression_LOGICAL_OP_OR
			want = lm || rm
			// on the unchanged tree the rows lost are those that satisfy ONLY the entity side
			if le && !re {
				entityOrOther = !rm
			} else if re && !le {
				entityOrOther = !lm
			}
		}
		criteria = &modelv1.Criteria{Exp: &modelv1.Criteria_Le{Le: &modelv1.LogicalExpression{Op: op, Left: l, Right: r}}}
	}
	md := &commonv1.Metadata{Name: "s", Group: "g"}
	sm := &databasev1.Stream{
		Metadata: md,
		TagFamilies: []*databasev1.TagFamilySpec{{Name: "default", Tags: []*databasev1.TagSpec{
			{Name: "e", Type: databasev1.TagType_TAG_TYPE_STRING},
			{Name: "t", Type: databasev1.TagType_TAG_TYPE_STRING},
		}}},
		Entity: &databasev1.Entity{TagNames: []string{"e"}},
	}
	s, err := BuildSchema(sm, nil)
	zzverif.Assert(err == nil, "the schema builds")
	q := &streamv1.QueryRequest{
		Name: "s", Groups: []string{"g"}, Criteria: criteria,
		Projection: &modelv1.TagProjection{TagFamilies: []*modelv1.TagProjection_TagFamily{{Name: "default", Tags: []string{"e", "t"}}}},
	}
	p, err := Analyze(q, []*commonv1.Metadata{md}, []logical.Schema{s}, []executor.StreamExecutionContext{nil})
	zzverif.Reach("planned")
	zzverif.Assert(err == nil && p != nil, "the query is planned")
	if err != nil || p == nil {
		return
	}
	scan := c09FindScan(p)
	zzverif.Assert(scan != nil, "the plan scans the stream")
	if scan == nil {
		return
	}
	selected := false
	for _, ent := range scan.entities {
		if len(ent) == 1 && (ent[0] == pbv1.AnyTagValue || ent[0].GetStr().GetValue() == e) {
			selected = true
		}
	}
	if tf := c08FindTagFilter(p); tf != nil && selected {
		row := []*modelv1.TagFamily{{Name: "default", Tags: []*modelv1.Tag{
			{Key: "e", Value: &modelv1.TagValue{Value: &modelv1.TagValue_Str{Str: &modelv1.Str{Value: e}}}},
			{Key: "t", Value: &modelv1.TagValue{Value: &modelv1.TagValue_Str{Str: &modelv1.Str{Value: t}}}},
		}}}
		ok, merr := tf.tagFilter.Match(logical.TagFamilies(row), tf.s)
		zzverif.Assert(merr == nil, "the row filter evaluates")
		selected = selected && ok
	}
	zzverif.AssertExcept(!want || selected, "a row that satisfies the criteria belongs to a selected series and passes the row filter", "F20-entity-or", entityOrOther)
	zzverif.Assert(!selected || want, "a row of a selected series that passes the row filter satisfies the criteria")
}
