//go:build verif

// verif:dir pkg/query/logical/stream
package stream

import (
	"github.com/blugelabs/bluge/numeric"

	commonv1 "github.com/apache/skywalking-banyandb/api/proto/banyandb/common/v1"
	databasev1 "github.com/apache/skywalking-banyandb/api/proto/banyandb/database/v1"
	modelv1 "github.com/apache/skywalking-banyandb/api/proto/banyandb/model/v1"
	"github.com/apache/skywalking-banyandb/pkg/index"
	"github.com/apache/skywalking-banyandb/pkg/query/logical"
	"github.com/apache/skywalking-banyandb/pkg/zzverif"
)

type c08RecOp struct {
	tag  string
	opts index.RangeOpts
	n    int
}

func (r *c08RecOp) Eq(string, string) bool       { return true }
func (r *c08RecOp) Having(string, []string) bool { return true }
func (r *c08RecOp) Range(tag string, o index.RangeOpts) (bool, error) {
	r.tag, r.opts = tag, o
	r.n++
	return false, nil
}

//verif:harness prop=C08 tier=quick,thorough reach=checked paths=100000
// The range handed to block pruning (and to the index) for a condition `tag > | >= | < | <= literal`
// on an int tag denotes exactly the values that satisfy the condition: for every stored int64 v,
// v lies inside the range options (bounds and inclusiveness flags as passed to FilterOp.Range)
// iff v op literal. In particular the unbounded side includes math.MinInt64 / math.MaxInt64.
// bound: arbitrary int64 literal and value, the four range operators
func VerifH_C08_RangeOptsOfCondition() {
	lit, v := zzverif.Int64("lit"), zzverif.Int64("v")
	op := zzverif.Choice("op", 4)
	ops := []modelv1.Condition_BinaryOp{modelv1.Condition_BINARY_OP_GT, modelv1.Condition_BINARY_OP_GE, modelv1.Condition_BINARY_OP_LT, modelv1.Condition_BINARY_OP_LE}
	cond := &modelv1.Condition{Name: "t", Op: ops[op], Value: &modelv1.TagValue{Value: &modelv1.TagValue_Int{Int: &modelv1.Int{Value: lit}}}}
	expr, err := logical.ParseExpr(cond)
	zzverif.Assert(err == nil, "an int literal parses")
	node, _, err := parseConditionToFilter(cond, &databasev1.IndexRule{Metadata: &commonv1.Metadata{Name: "r", Id: 1}, Tags: []string{"t"}, Type: databasev1.IndexRule_TYPE_SKIPPING}, expr, nil, nil)
	zzverif.Assert(err == nil && node != nil, "a range condition becomes a filter node")
	rec := &c08RecOp{}
	skip, err := node.ShouldSkip(rec)
	zzverif.Assert(err == nil && !skip && rec.n == 1 && rec.tag == "t", "the node asks the block's range pruner once, for its tag")
	lo, ok1 := rec.opts.Lower.(*index.FloatTermValue)
	hi, ok2 := rec.opts.Upper.(*index.FloatTermValue)
	zzverif.Assert(ok1 && ok2, "int ranges carry numeric bounds")
	if !ok1 || !ok2 {
		return
	}
	l, h := numeric.Float64ToInt64(lo.Value), numeric.Float64ToInt64(hi.Value)
	in := zzverif.And(zzverif.Or(v > l, zzverif.And(rec.opts.IncludesLower, v == l)), zzverif.Or(v < h, zzverif.And(rec.opts.IncludesUpper, v == h)))
	var want bool
	switch op {
	case 0:
		want = v > lit
	case 1:
		want = v >= lit
	case 2:
		want = v < lit
	default:
		want = v <= lit
	}
	zzverif.Reach("checked")
	zzverif.Assert(in == want, "the range passed to pruning/index contains exactly the values satisfying the condition")
}
