//go:build verif

// verif:dir pkg/query/logical/measure
package measure

import (
	databasev1 "github.com/apache/skywalking-banyandb/api/proto/banyandb/database/v1"
	measurev1 "github.com/apache/skywalking-banyandb/api/proto/banyandb/measure/v1"
	modelv1 "github.com/apache/skywalking-banyandb/api/proto/banyandb/model/v1"
	"github.com/apache/skywalking-banyandb/pkg/zzverif"
)

//verif:harness prop=C09,C17 tier=quick,thorough reach=planned paths=10000
// Distributed limit/offset push-down for measures (see the stream harness): every node is asked
// for its first offset+limit rows, computed without wrapping, and applies no offset of its own.
// bound: arbitrary uint32 limit and offset (0 = default limit), no ORDER BY | ORDER BY time ASC/DESC; no aggregation push-down
func VerifH_C09_MeasureDistributedPushDownAsksForTheWholeWindow() {
	limit, offset := zzverif.Uint32("limit"), zzverif.Uint32("offset")
	q := &measurev1.QueryRequest{Name: "m", Groups: []string{"g"}, Limit: limit, Offset: offset}
	switch zzverif.Choice("order", 3) {
	case 1:
		q.OrderBy = &modelv1.QueryOrder{Sort: modelv1.Sort_SORT_ASC}
	case 2:
		q.OrderBy = &modelv1.QueryOrder{Sort: modelv1.Sort_SORT_DESC}
	}
	p, err := (&unresolvedDistributed{originalQuery: q}).Analyze(&schema{measure: &databasev1.Measure{}})
	zzverif.Reach("planned")
	zzverif.Assert(err == nil && p != nil, "a plain distributed query is planned")
	dp, ok := p.(*distributedPlan)
	zzverif.Assert(ok, "the plan is the distributed plan")
	if !ok {
		return
	}
	l := uint64(limit)
	if limit == 0 {
		l = uint64(defaultLimit)
	}
	want := l + uint64(offset)
	if want > 0xFFFFFFFF {
		want = 0xFFFFFFFF
	}
	zzverif.Assert(uint64(dp.queryTemplate.Limit) == want, "every node is asked for its first offset+limit rows")
	zzverif.Assert(dp.queryTemplate.Offset == 0, "nodes apply no offset of their own")
}
