//go:build verif

// verif:dir pkg/query/logical/measure
package measure

import (
	measurev1 "github.com/apache/skywalking-banyandb/api/proto/banyandb/measure/v1"
	"github.com/apache/skywalking-banyandb/pkg/zzverif"
	"google.golang.org/protobuf/types/known/timestamppb"
)

//verif:harness prop=C17,C10 tier=quick,thorough reach=hashed paths=1000 timeout=120000
// The liaison merges the answers of several data nodes and drops replicas of the same data
// point by a 64-bit key of (series, timestamp). Two points that are NOT the same point - they
// differ in the series id, in the seconds or in the nanoseconds of the timestamp, the other two
// components being equal - never share a key (each mixing step of the key is a bijection of the
// 64-bit state), so a distinct point of the same series within the same second is never
// dropped as a replica; identical points always share their key.
// bound: arbitrary series ids, seconds and nanoseconds (int32); pairs that differ in exactly one component
func VerifH_C17_ReplicaDedupKeySeparatesDistinctPoints() {
	sid, sec, ns := zzverif.Uint64("sid"), zzverif.Int64("seconds"), zzverif.Int32("nanos")
	a := &measurev1.DataPoint{Sid: sid, Timestamp: &timestamppb.Timestamp{Seconds: sec, Nanos: ns}}
	b := &measurev1.DataPoint{Sid: sid, Timestamp: &timestamppb.Timestamp{Seconds: sec, Nanos: ns}}
	zzverif.Assert(hashDataPoint(a) == hashDataPoint(b), "identical points share their key")
	switch zzverif.Choice("differs in", 3) {
	case 0:
		b.Sid = zzverif.Uint64("other sid")
		zzverif.Assume(b.Sid != sid)
	case 1:
		b.Timestamp.Seconds = zzverif.Int64("other seconds")
		zzverif.Assume(b.Timestamp.Seconds != sec)
	default:
		b.Timestamp.Nanos = zzverif.Int32("other nanos")
		zzverif.Assume(b.Timestamp.Nanos != ns)
	}
	zzverif.Reach("hashed")
	zzverif.Assert(hashDataPoint(a) != hashDataPoint(b), "points that differ in one component of (series, seconds, nanos) never share a dedup key")
}
