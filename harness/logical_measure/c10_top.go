//go:build verif

// verif:dir pkg/query/logical/measure
package measure

import (
	measurev1 "github.com/apache/skywalking-banyandb/api/proto/banyandb/measure/v1"
	"github.com/apache/skywalking-banyandb/pkg/zzverif"
)

//verif:harness prop=C10 tier=quick,thorough reach=checked paths=200000
// TopQueue: after inserting N values, Elements() holds exactly min(n,N) of the inserted points,
// in order (descending for TOP, ascending for BOTTOM), and no dropped point beats a kept one.
// bound: N <= 4 inserted points (thorough 5), n in 1..3, arbitrary int64 values, ties allowed
func VerifH_C10_TopQueue() {
	maxN := 4
	if zzverif.Thorough() {
		maxN = 5
	}
	N := 1 + zzverif.Choice("N", maxN)
	n := 1 + zzverif.Choice("n", 3)
	bottom := zzverif.Bool("bottom")
	q := NewTopQueue[int64](n, bottom)
	idps := make([]*measurev1.InternalDataPoint, N)
	vals := make([]int64, N)
	for i := 0; i < N; i++ {
		idps[i] = &measurev1.InternalDataPoint{}
		vals[i] = zzverif.Int64("v")
		q.Insert(NewTopElement(idps[i], vals[i]))
	}
	out := q.Elements()
	zzverif.Reach("checked")
	want := n
	if N < n {
		want = N
	}
	zzverif.Assert(len(out) == want, "top-N keeps min(n, inserted) points")
	kept := make([]bool, N)
	for k, e := range out {
		idx := -1
		for i := range idps {
			if e.idp == idps[i] {
				idx = i
			}
		}
		zzverif.Assert(idx >= 0, "every kept element is an inserted point")
		if idx < 0 {
			return
		}
		zzverif.Assert(!kept[idx], "no inserted point is kept twice")
		kept[idx] = true
		zzverif.Assert(e.Val() == vals[idx], "kept element carries its own value")
		if k > 0 {
			if bottom {
				zzverif.Assert(out[k-1].Val() <= e.Val(), "BOTTOM-N result is ascending")
			} else {
				zzverif.Assert(out[k-1].Val() >= e.Val(), "TOP-N result is descending")
			}
		}
	}
	worst := out[len(out)-1].Val()
	for i := range idps {
		if !kept[i] {
			if bottom {
				zzverif.Assert(vals[i] >= worst, "a dropped point is not smaller than the largest kept (BOTTOM)")
			} else {
				zzverif.Assert(vals[i] <= worst, "a dropped point is not greater than the smallest kept (TOP)")
			}
		}
	}
}

//verif:harness prop=C10 tier=quick,thorough reach=checked
// Replica de-duplication without group-by: from partial results tagged with shard ids, exactly
// one result per distinct shard id survives (the first), none from a distinct shard is dropped.
// bound: up to 4 partial results, arbitrary uint32 shard ids
// outside: group-by variant (64-bit FNV-style mixing of (shard, group key) is not injective by design)
func VerifH_C10_DedupByShard() {
	N := 1 + zzverif.Choice("N", 4)
	in := make([]*measurev1.InternalDataPoint, N)
	for i := range in {
		in[i] = &measurev1.InternalDataPoint{ShardId: zzverif.Uint32("shard")}
	}
	out, err := deduplicateAggregatedDataPointsWithShard(in, nil)
	zzverif.Reach("checked")
	zzverif.Assert(err == nil, "dedup succeeds")
	for i := range in {
		first := true
		for j := 0; j < i; j++ {
			if in[j].ShardId == in[i].ShardId {
				first = false
			}
		}
		cnt := 0
		for _, o := range out {
			if o == in[i] {
				cnt++
			}
		}
		if first {
			zzverif.Assert(cnt == 1, "the first result of each shard survives exactly once")
		} else {
			zzverif.Assert(cnt == 0, "a replica's duplicate of an already seen shard is removed")
		}
	}
}
