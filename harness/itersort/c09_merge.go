//go:build verif

// verif:dir pkg/iter/sort
package sort

import (
	"bytes"

	"github.com/apache/skywalking-banyandb/pkg/zzverif"
)

type c09Item struct {
	key []byte
	id  int
}

func (i *c09Item) SortedField() []byte { return i.key }

type c09Iter struct {
	items []*c09Item
	pos   int
}

func (it *c09Iter) Next() bool     { it.pos++; return it.pos <= len(it.items) }
func (it *c09Iter) Val() *c09Item  { return it.items[it.pos-1] }
func (it *c09Iter) Close() error   { return nil }

//verif:harness prop=C09 tier=quick,thorough reach=merged paths=400000
// k-way merge (NewItemIter over container/heap): for K individually sorted inputs the output is
// globally sorted in the requested direction and is a permutation of all input items (each
// item exactly once), ascending and descending, with ties.
// bound: K = 3 inputs of 0..2 items (thorough 0..3), 1-byte arbitrary sort keys
func VerifH_C09_KWayMerge() {
	desc := zzverif.Bool("desc")
	maxLen := 2
	if zzverif.Thorough() {
		maxLen = 3
	}
	var iters []Iterator[*c09Item]
	var all []*c09Item
	for k := 0; k < 3; k++ {
		n := zzverif.Choice("len", maxLen+1)
		it := &c09Iter{}
		for i := 0; i < n; i++ {
			item := &c09Item{key: zzverif.Bytes("key", 1), id: len(all)}
			if i > 0 {
				prev := it.items[i-1].key
				if desc {
					zzverif.Assume(bytes.Compare(prev, item.key) >= 0)
				} else {
					zzverif.Assume(bytes.Compare(prev, item.key) <= 0)
				}
			}
			it.items = append(it.items, item)
			all = append(all, item)
		}
		iters = append(iters, it)
	}
	m := NewItemIter[*c09Item](iters, desc)
	seen := make([]bool, len(all))
	var prev *c09Item
	count := 0
	for m.Next() {
		v := m.Val()
		count++
		zzverif.Assert(count <= len(all), "merge does not invent items")
		if count > len(all) {
			return
		}
		zzverif.Assert(!seen[v.id], "each input item is produced at most once")
		seen[v.id] = true
		if prev != nil {
			if desc {
				zzverif.Assert(bytes.Compare(prev.key, v.key) >= 0, "descending merge output is globally sorted")
			} else {
				zzverif.Assert(bytes.Compare(prev.key, v.key) <= 0, "ascending merge output is globally sorted")
			}
		}
		prev = v
	}
	zzverif.Reach("merged")
	zzverif.Assert(count == len(all), "every input item is produced")
}
