//go:build verif

// verif:dir pkg/query/vectorized/stream/frame
package frame

import (
	"github.com/apache/skywalking-banyandb/pkg/query/vectorized"
	"github.com/apache/skywalking-banyandb/pkg/zzverif"
)

//verif:harness prop=C15 tier=quick,thorough reach=decoded paths=200000
// Columnar wire frames are lossless: Decode(Encode(batch)) has the same schema, the same row
// count and, per row, the same nullness and the same value, for an int64 column and a nullable
// string column, with and without a row selection.
// bound: 0..2 rows (thorough 3), arbitrary int64 values, strings of 0..2 arbitrary bytes, arbitrary null flags, optional selection of a sub-sequence
func VerifH_C15_FrameRoundTrip() {
	maxRows := 2
	if zzverif.Thorough() {
		maxRows = 3
	}
	n := zzverif.Choice("rows", maxRows+1)
	ts := vectorized.NewInt64Column(n)
	tag := vectorized.NewStringColumn(n)
	type row struct {
		ts   int64
		s    string
		null bool
	}
	var rows []row
	for i := 0; i < n; i++ {
		r := row{ts: zzverif.Int64("ts"), s: zzverif.String("tag", zzverif.Choice("len", 3)), null: zzverif.Bool("null")}
		ts.Append(r.ts)
		if r.null {
			tag.AppendNull()
		} else {
			tag.Append(r.s)
		}
		rows = append(rows, r)
	}
	schema := vectorized.NewBatchSchema([]vectorized.ColumnDef{
		{Name: "ts", Role: vectorized.RoleTimestamp, Type: vectorized.ColumnTypeInt64},
		{Name: "t", TagFamily: "f", Role: vectorized.RoleTag, Type: vectorized.ColumnTypeString},
	})
	b := &vectorized.RecordBatch{Schema: schema, Columns: []vectorized.Column{ts, tag}, Len: n}
	want := rows
	if n > 0 && zzverif.Bool("select") {
		// a selection of the rows from index `from` on
		from := zzverif.Choice("from", n)
		var sel []uint16
		want = nil
		for i := from; i < n; i++ {
			sel = append(sel, uint16(i))
			want = append(want, rows[i])
		}
		b.Selection = sel
	}
	enc, err := Encode(b)
	zzverif.Assert(err == nil, "a batch of supported column types encodes")
	if err != nil {
		return
	}
	out, derr := Decode(enc)
	zzverif.Reach("decoded")
	zzverif.Assert(derr == nil, "Decode accepts Encode's output")
	if derr != nil {
		return
	}
	zzverif.Assert(out.Len == len(want) && len(out.Columns) == 2 && len(out.Schema.Columns) == 2, "row and column counts survive")
	if out.Len != len(want) || len(out.Columns) != 2 || len(out.Schema.Columns) != 2 {
		return
	}
	d0, d1 := out.Schema.Columns[0], out.Schema.Columns[1]
	zzverif.Assert(d0.Name == "ts" && d0.Role == vectorized.RoleTimestamp && d0.Type == vectorized.ColumnTypeInt64 && d1.Name == "t" && d1.TagFamily == "f" && d1.Role == vectorized.RoleTag && d1.Type == vectorized.ColumnTypeString, "the schema survives")
	ots, ok0 := out.Columns[0].(*vectorized.TypedColumn[int64])
	otag, ok1 := out.Columns[1].(*vectorized.TypedColumn[string])
	zzverif.Assert(ok0 && ok1, "decoded columns have the declared types")
	if !ok0 || !ok1 {
		return
	}
	for i, w := range want {
		zzverif.Assert(!ots.IsNull(i) && ots.Data()[i] == w.ts, "int64 value survives")
		zzverif.Assert(otag.IsNull(i) == w.null, "nullness survives")
		if !w.null {
			zzverif.Assert(otag.Data()[i] == w.s, "string value survives")
		}
	}
}

//verif:harness prop=C15 tier=quick,thorough reach=returned alloc=256 paths=400000
// The frame decoder is total on untrusted bytes: behind a valid magic and version, arbitrary
// bytes yield a batch or an error - no panic, no allocation driven beyond the frame size.
// bound: 0..5 arbitrary bytes after the 5-byte magic+version prefix (thorough 0..7)
func VerifH_C15_FrameDecodeHostile() {
	max := 5
	if zzverif.Thorough() {
		max = 7
	}
	b := append([]byte{}, Magic[:]...)
	b = append(b, WireVersion)
	b = append(b, zzverif.Bytes("body", zzverif.Choice("len", max+1))...)
	_, _ = Decode(b)
	zzverif.Reach("returned")
}
