//go:build verif

// verif:dir pkg/bydbql
package bydbql

import (
	"context"
	"math"
	"time"

	commonv1 "github.com/apache/skywalking-banyandb/api/proto/banyandb/common/v1"
	databasev1 "github.com/apache/skywalking-banyandb/api/proto/banyandb/database/v1"
	measurev1 "github.com/apache/skywalking-banyandb/api/proto/banyandb/measure/v1"
	modelv1 "github.com/apache/skywalking-banyandb/api/proto/banyandb/model/v1"
	propertyv1 "github.com/apache/skywalking-banyandb/api/proto/banyandb/property/v1"
	"github.com/apache/skywalking-banyandb/banyand/metadata"
	"github.com/apache/skywalking-banyandb/banyand/metadata/schema"
	"github.com/apache/skywalking-banyandb/pkg/zzverif"
	"google.golang.org/protobuf/types/known/timestamppb"
)

// ---- a fixed schema behind the transformer ----

type c20Repo struct{ metadata.Repo }
type c20MeasureReg struct{ schema.Measure }
type c20PropertyReg struct{ schema.Property }
type c20TopNReg struct{ schema.TopNAggregation }

func (c20Repo) MeasureRegistry() schema.Measure                 { return c20MeasureReg{} }
func (c20Repo) PropertyRegistry() schema.Property               { return c20PropertyReg{} }
func (c20Repo) TopNAggregationRegistry() schema.TopNAggregation { return c20TopNReg{} }

func c20Tags() []*databasev1.TagSpec {
	return []*databasev1.TagSpec{
		{Name: "a", Type: databasev1.TagType_TAG_TYPE_STRING},
		{Name: "n", Type: databasev1.TagType_TAG_TYPE_INT},
	}
}

func (c20MeasureReg) GetMeasure(context.Context, *commonv1.Metadata) (*databasev1.Measure, error) {
	return &databasev1.Measure{
		Metadata:    &commonv1.Metadata{Name: "m", Group: "g"},
		TagFamilies: []*databasev1.TagFamilySpec{{Name: "default", Tags: c20Tags()}},
		Fields:      []*databasev1.FieldSpec{{Name: "f", FieldType: databasev1.FieldType_FIELD_TYPE_INT}},
	}, nil
}

func (c20PropertyReg) GetProperty(context.Context, *commonv1.Metadata) (*databasev1.Property, error) {
	return &databasev1.Property{Metadata: &commonv1.Metadata{Name: "p", Group: "g"}, Tags: c20Tags()}, nil
}

func (c20TopNReg) GetTopNAggregation(context.Context, *commonv1.Metadata) (*databasev1.TopNAggregation, error) {
	return &databasev1.TopNAggregation{
		Metadata:        &commonv1.Metadata{Name: "t", Group: "g"},
		SourceMeasure:   &commonv1.Metadata{Name: "m", Group: "g"},
		FieldName:       "f",
		GroupByTagNames: []string{"a", "n"},
	}, nil
}

// ---- parameters: a value and, when it is legal for the position, the literal that spells it ----

type c20Param struct {
	pv *modelv1.TagValue
	// the literal spelling (nil / false where no literal of that kind exists for the position)
	count   int
	countOK bool
	timeStr string
	timeOK  bool
	val     *GrammarValue
}

func c20CountParam(tag string) c20Param {
	switch zzverif.Choice(tag+".kind", 3) {
	case 0:
		v := zzverif.Int64(tag + ".int")
		return c20Param{pv: c20Int(v), count: int(v), countOK: true}
	case 1:
		return c20Param{pv: c20Str("7")} // a string is never a count
	}
	return c20Param{pv: &modelv1.TagValue{Value: &modelv1.TagValue_Null{}}}
}

func c20TimeParam(tag string) c20Param {
	switch zzverif.Choice(tag+".kind", 4) {
	case 0:
		sec, ns := zzverif.Int64(tag+".sec"), zzverif.Int32(tag+".nanos")
		zzverif.Assume(sec >= 0 && sec < 1<<32)
		ts := &timestamppb.Timestamp{Seconds: sec, Nanos: ns}
		p := c20Param{pv: &modelv1.TagValue{Value: &modelv1.TagValue_Timestamp{Timestamp: ts}}}
		if ns >= 0 && ns < 1000000000 {
			p.timeStr, p.timeOK = ts.AsTime().Format(time.RFC3339Nano), true
		}
		return p
	case 1:
		return c20Param{pv: c20Str("2026-07-06T10:00:00.25Z"), timeStr: "2026-07-06T10:00:00.25Z", timeOK: true}
	case 2:
		return c20Param{pv: c20Str("bogus' OR 1=1 --"), timeStr: "bogus' OR 1=1 --", timeOK: true}
	}
	return c20Param{pv: c20Int(zzverif.Int64(tag + ".int"))} // an int is never a time
}

func c20ValueParam(tag string, maxLen int) c20Param {
	switch zzverif.Choice(tag+".kind", 4) {
	case 0:
		s := zzverif.String(tag+".str", zzverif.Choice(tag+".len", maxLen+1))
		return c20Param{pv: c20Str(s), val: &GrammarValue{String: &s}}
	case 1:
		v := zzverif.Int64(tag + ".int")
		return c20Param{pv: c20Int(v), val: &GrammarValue{Integer: &v}}
	case 2:
		return c20Param{pv: &modelv1.TagValue{Value: &modelv1.TagValue_Null{}}, val: &GrammarValue{Null: true}}
	}
	return c20Param{pv: &modelv1.TagValue{Value: &modelv1.TagValue_BinaryData{BinaryData: []byte{1}}}} // no literal form
}

// ---- request comparison ----

func c20SameTS(a, b *timestamppb.Timestamp) bool {
	if (a == nil) != (b == nil) {
		return false
	}
	if a == nil {
		return true
	}
	return a.AsTime().UnixNano() == b.AsTime().UnixNano()
}

func c20SameRange(a, b *modelv1.TimeRange) bool {
	if (a == nil) != (b == nil) {
		return false
	}
	if a == nil {
		return true
	}
	return zzverif.And(c20SameTS(a.Begin, b.Begin), c20SameTS(a.End, b.End))
}

func c20SameStrs(a, b []string) bool {
	if len(a) != len(b) {
		return false
	}
	ok := true
	for i := range a {
		ok = zzverif.And(ok, a[i] == b[i])
	}
	return ok
}

func c20SameTagValue(a, b *modelv1.TagValue) bool {
	if (a == nil) != (b == nil) {
		return false
	}
	if a == nil {
		return true
	}
	switch x := a.Value.(type) {
	case *modelv1.TagValue_Null:
		_, ok := b.Value.(*modelv1.TagValue_Null)
		return ok
	case *modelv1.TagValue_Str:
		y, ok := b.Value.(*modelv1.TagValue_Str)
		return ok && x.Str.GetValue() == y.Str.GetValue()
	case *modelv1.TagValue_Int:
		y, ok := b.Value.(*modelv1.TagValue_Int)
		return ok && x.Int.GetValue() == y.Int.GetValue()
	case *modelv1.TagValue_StrArray:
		y, ok := b.Value.(*modelv1.TagValue_StrArray)
		return ok && c20SameStrs(x.StrArray.GetValue(), y.StrArray.GetValue())
	case *modelv1.TagValue_IntArray:
		y, ok := b.Value.(*modelv1.TagValue_IntArray)
		if !ok || len(x.IntArray.GetValue()) != len(y.IntArray.GetValue()) {
			return false
		}
		r := true
		for i, v := range x.IntArray.GetValue() {
			r = zzverif.And(r, v == y.IntArray.GetValue()[i])
		}
		return r
	}
	return false
}

func c20SameCond(a, b *modelv1.Condition) bool {
	if (a == nil) != (b == nil) {
		return false
	}
	if a == nil {
		return true
	}
	return a.Name == b.Name && a.Op == b.Op && c20SameTagValue(a.Value, b.Value)
}

func c20SameCriteria(a, b *modelv1.Criteria) bool {
	if (a == nil) != (b == nil) {
		return false
	}
	if a == nil {
		return true
	}
	if ca := a.GetCondition(); ca != nil {
		return c20SameCond(ca, b.GetCondition())
	}
	la, lb := a.GetLe(), b.GetLe()
	if (la == nil) != (lb == nil) {
		return false
	}
	if la == nil {
		return true
	}
	return la.Op == lb.Op && zzverif.And(c20SameCriteria(la.Left, lb.Left), c20SameCriteria(la.Right, lb.Right))
}

func c20SameProjection(a, b *modelv1.TagProjection) bool {
	if len(a.GetTagFamilies()) != len(b.GetTagFamilies()) {
		return false
	}
	for i, f := range a.GetTagFamilies() {
		g := b.GetTagFamilies()[i]
		if f.Name != g.Name || !c20SameStrs(f.Tags, g.Tags) {
			return false
		}
	}
	return true
}

func c20SameMeasureReq(a, b *measurev1.QueryRequest, what string) {
	zzverif.Assert(c20SameStrs(a.Groups, b.Groups) && a.Name == b.Name && c20SameStrs(a.Stages, b.Stages) && a.Trace == b.Trace, what+": same target")
	zzverif.Assert(c20SameRange(a.TimeRange, b.TimeRange), what+": same time range")
	zzverif.Assert(c20SameCriteria(a.Criteria, b.Criteria), what+": same criteria")
	zzverif.Assert(c20SameProjection(a.TagProjection, b.TagProjection) && c20SameStrs(a.GetFieldProjection().GetNames(), b.GetFieldProjection().GetNames()), what+": same projection")
	zzverif.Assert((a.Top == nil) == (b.Top == nil), what+": same TOP clause")
	if a.Top != nil && b.Top != nil {
		zzverif.Assert(a.Top.Number == b.Top.Number && a.Top.FieldName == b.Top.FieldName && a.Top.FieldValueSort == b.Top.FieldValueSort, what+": same TOP count, field and direction")
	}
	zzverif.Assert(a.Limit == b.Limit && a.Offset == b.Offset, what+": same LIMIT/OFFSET")
	zzverif.Assert((a.Agg == nil) == (b.Agg == nil) && (a.GroupBy == nil) == (b.GroupBy == nil) && (a.OrderBy == nil) == (b.OrderBy == nil), what+": same optional clauses")
}

func c20SamePropertyReq(a, b *propertyv1.QueryRequest, what string) {
	zzverif.Assert(c20SameStrs(a.Groups, b.Groups) && a.Name == b.Name && a.Trace == b.Trace, what+": same target")
	zzverif.Assert(c20SameStrs(a.Ids, b.Ids), what+": same ids")
	zzverif.Assert(c20SameCriteria(a.Criteria, b.Criteria), what+": same criteria")
	zzverif.Assert(len(a.TagProjection) == len(b.TagProjection), what+": same projection")
	zzverif.Assert(a.Limit == b.Limit, what+": same LIMIT")
	zzverif.Assert((a.OrderBy == nil) == (b.OrderBy == nil), what+": same ORDER BY")
}

func c20SameTopNReq(a, b *measurev1.TopNRequest, what string) {
	zzverif.Assert(c20SameStrs(a.Groups, b.Groups) && a.Name == b.Name && c20SameStrs(a.Stages, b.Stages) && a.Trace == b.Trace, what+": same target")
	zzverif.Assert(c20SameRange(a.TimeRange, b.TimeRange), what+": same time range")
	zzverif.Assert(a.TopN == b.TopN && a.Agg == b.Agg && a.FieldValueSort == b.FieldValueSort, what+": same count, aggregation and direction")
	zzverif.Assert(len(a.Conditions) == len(b.Conditions), what+": same number of conditions")
	for i := range a.Conditions {
		if i < len(b.Conditions) {
			zzverif.Assert(c20SameCond(a.Conditions[i], b.Conditions[i]), what+": same conditions")
		}
	}
}

// c20ThreeWay runs the literal statement, the one-shot binder and the prepared path and hands
// the three outcomes to cmp when all three produced a request.
func c20ThreeWay(mk func(lit []c20Param) *Grammar, ps []c20Param, literalExists bool, cmp func(lit, got *TransformResult, what string)) {
	tr := NewTransformer(c20Repo{})
	ctx := context.Background()
	params := make([]*modelv1.TagValue, len(ps))
	for i := range ps {
		params[i] = ps[i].pv
	}
	// one-shot
	g1 := mk(nil)
	err1 := BindParams(g1, params)
	var r1 *TransformResult
	if err1 == nil {
		r1, err1 = tr.Transform(ctx, g1)
	}
	// prepared
	tmpl := mk(nil)
	pr := &preparer{}
	pr.walkGrammar(tmpl)
	stmt := &PreparedStatement{template: tmpl, specs: pr.specs}
	bq, err2 := stmt.Bind(params)
	var r2 *TransformResult
	if err2 == nil {
		r2, err2 = tr.TransformBound(ctx, bq)
	}
	zzverif.Reach("compared")
	zzverif.Assert((err1 == nil) == (err2 == nil), "the one-shot binder and the prepared path accept exactly the same executions")
	if !literalExists {
		zzverif.Assert(err1 != nil && err2 != nil, "an ill-typed parameter is rejected on both paths")
		return
	}
	r0, err0 := tr.Transform(ctx, mk(ps))
	zzverif.Assert((err0 == nil) == (err1 == nil), "one-shot binding accepts exactly when the literal statement is accepted")
	zzverif.Assert((err0 == nil) == (err2 == nil), "the prepared path accepts exactly when the literal statement is accepted")
	if err0 != nil {
		return
	}
	zzverif.Reach("transformed")
	if err1 == nil {
		cmp(r0, r1, "one-shot vs literal")
	}
	if err2 == nil {
		cmp(r0, r2, "prepared vs literal")
	}
}

func c20From(kind, name string) *GrammarFromClause {
	return &GrammarFromClause{From: "FROM", ResourceType: kind, ResourceName: name, In: &GrammarInClause{In: "IN", Groups: []string{"g"}}}
}

func c20Compare(tag string, lit *c20Param) *GrammarPredicate {
	v := &GrammarValue{Param: true}
	if lit != nil {
		v = lit.val
	}
	return &GrammarPredicate{Binary: &GrammarBinaryPredicate{Identifier: c20Ident(tag), Tail: &GrammarBinaryPredicateTail{Compare: &GrammarCompareTail{Operator: "=", Value: v}}}}
}

func c20TimeValue(lit *c20Param) *GrammarTimeValue {
	if lit == nil {
		return &GrammarTimeValue{Param: true}
	}
	s := lit.timeStr
	return &GrammarTimeValue{String: &s}
}

//verif:harness prop=C20 tier=quick,thorough reach=compared,transformed paths=400000 timeout=60000
// A measure statement  SELECT TOP ? f DESC, a FROM MEASURE m IN g TIME = ? WHERE a = ? LIMIT ? OFFSET ?
// executed with parameters gives - through the one-shot binder and through the prepared path -
// exactly the request of the same statement with the values written as literals (TOP count,
// time range to the millisecond, criteria value, LIMIT, OFFSET, projection, target), and all
// three reject the same executions (counts out of range; ill-typed parameters on both binding
// paths).
// bound: one statement shape, 5 placeholders; count parameters int64|str|null, time parameters timestamp (any seconds in 0..2^32, any int32 nanos)|well-formed text|hostile text|int, value parameter str of 0..2 arbitrary bytes|int64|null|binary
// outside: time parameters before 1970; relative times ("now", durations: they read the clock twice)
func VerifH_C20_MeasureRequestEqualsLiteral() {
	ps := []c20Param{c20CountParam("top"), c20TimeParam("time"), c20ValueParam("a", 2), c20CountParam("limit"), c20CountParam("offset")}
	desc, eq := "DESC", "="
	mk := func(lit []c20Param) *Grammar {
		top := &GrammarTopNProjection{NParam: true, OrderField: c20Ident("f"), Direction: &desc, OtherColumns: []*GrammarColumn{{Identifier: c20Ident("a")}}}
		lim := &GrammarLimitClause{Limit: "LIMIT", Param: true}
		off := &GrammarOffsetClause{Offset: "OFFSET", Param: true}
		var l1, l2 *c20Param
		if lit != nil {
			top.NParam, top.N = false, lit[0].count
			lim.Param, lim.Value = false, lit[3].count
			off.Param, off.Value = false, lit[4].count
			l1, l2 = &lit[1], &lit[2]
		}
		return &Grammar{Select: &GrammarSelectStatement{
			Select:     "SELECT",
			Projection: &GrammarProjection{TopN: top},
			From:       c20From("MEASURE", "m"),
			Time:       &GrammarTimeClause{Time: "TIME", Comparator: &eq, Value: c20TimeValue(l1)},
			Where:      &GrammarSelectWhereClause{Where: "WHERE", Expr: &GrammarOrExpr{Left: &GrammarAndExpr{Left: c20Compare("a", l2)}}},
			Limit:      lim, Offset: off,
		}}
	}
	exists := ps[0].countOK && ps[1].timeOK && ps[2].val != nil && ps[3].countOK && ps[4].countOK
	c20ThreeWay(mk, ps, exists, func(lit, got *TransformResult, what string) {
		a, ok1 := lit.QueryRequest.(*measurev1.QueryRequest)
		b, ok2 := got.QueryRequest.(*measurev1.QueryRequest)
		zzverif.Assert(ok1 && ok2 && lit.Type == got.Type, what+": a measure query")
		if ok1 && ok2 {
			c20SameMeasureReq(a, b, what)
			zzverif.Assert(b.Top != nil && b.Top.Number >= 0 && int64(b.Limit) <= math.MaxUint32, what+": counts stay in range")
		}
	})
}

//verif:harness prop=C20 tier=quick,thorough reach=compared,transformed paths=400000 timeout=60000
// A property statement  SELECT * FROM PROPERTY p IN g WHERE ID = ? AND a = ? AND a IN (?, 5) LIMIT ?
// gives the literal statement's request on both binding paths: the id list, the remaining
// criteria, the limit; NULL as an id is rejected on all three paths; a parameter never turns
// into another id, another condition or another clause.
// bound: one statement shape, 4 placeholders; id/value parameters str of 0..2 arbitrary bytes|int64|null|binary, list element str|int|null|int array of 1..2, limit int64|str|null
func VerifH_C20_PropertyRequestEqualsLiteral() {
	elem := c20ValueParam("elem", 1)
	var elemVals []*GrammarValue
	if elem.val != nil {
		elemVals = []*GrammarValue{elem.val}
	} else if zzverif.Bool("elem.array") {
		n := 1 + zzverif.Choice("elem.n", 2)
		arr := make([]int64, n)
		for i := range arr {
			arr[i] = zzverif.Int64("elem.arr")
			v := arr[i]
			elemVals = append(elemVals, &GrammarValue{Integer: &v})
		}
		elem.pv = &modelv1.TagValue{Value: &modelv1.TagValue_IntArray{IntArray: &modelv1.IntArray{Value: arr}}}
	}
	ps := []c20Param{c20ValueParam("id", 2), c20ValueParam("a", 2), elem, c20CountParam("limit")}
	five := int64(5)
	mk := func(lit []c20Param) *Grammar {
		lim := &GrammarLimitClause{Limit: "LIMIT", Param: true}
		in := &GrammarInPredicate{Identifier: c20Ident("a"), In: "IN", Values: []*GrammarValue{{Param: true}, {Integer: &five}}}
		var l0, l1 *c20Param
		if lit != nil {
			lim.Param, lim.Value = false, lit[3].count
			in.Values = append(append([]*GrammarValue{}, elemVals...), &GrammarValue{Integer: &five})
			l0, l1 = &lit[0], &lit[1]
		}
		return &Grammar{Select: &GrammarSelectStatement{
			Select:     "SELECT",
			Projection: &GrammarProjection{All: true},
			From:       c20From("PROPERTY", "p"),
			Where: &GrammarSelectWhereClause{Where: "WHERE", Expr: &GrammarOrExpr{Left: &GrammarAndExpr{
				Left:  c20Compare("ID", l0),
				Right: []*GrammarAndRight{{And: "AND", Right: c20Compare("a", l1)}, {And: "AND", Right: &GrammarPredicate{In: in}}},
			}}},
			Limit: lim,
		}}
	}
	exists := ps[0].val != nil && ps[1].val != nil && len(elemVals) > 0 && ps[3].countOK
	c20ThreeWay(mk, ps, exists, func(lit, got *TransformResult, what string) {
		a, ok1 := lit.QueryRequest.(*propertyv1.QueryRequest)
		b, ok2 := got.QueryRequest.(*propertyv1.QueryRequest)
		zzverif.Assert(ok1 && ok2 && lit.Type == got.Type, what+": a property query")
		if ok1 && ok2 {
			c20SamePropertyReq(a, b, what)
			zzverif.Assert(len(b.Ids) == 1, what+": one id")
		}
	})
}

//verif:harness prop=C20 tier=quick,thorough reach=compared,transformed paths=400000 timeout=60000
// A top-N statement  SHOW TOP ? FROM MEASURE t IN g TIME BETWEEN ? AND ? WHERE a = ?  gives the
// literal statement's request on both binding paths (count within int32, both time bounds to
// the millisecond, the condition value).
// bound: one statement shape, 4 placeholders; kinds as in the measure harness, value parameter str of 0..1 arbitrary bytes|int64|null|binary
// outside: time parameters before 1970; relative times
func VerifH_C20_TopNRequestEqualsLiteral() {
	ps := []c20Param{c20CountParam("n"), c20TimeParam("begin"), c20TimeParam("end"), c20ValueParam("a", 1)}
	mk := func(lit []c20Param) *Grammar {
		st := &GrammarTopNStatement{Show: "SHOW", Top: "TOP", NParam: true, From: c20From("MEASURE", "t")}
		var lb, le, lv *c20Param
		if lit != nil {
			st.NParam, st.N = false, lit[0].count
			lb, le, lv = &lit[1], &lit[2], &lit[3]
		}
		st.Time = &GrammarTimeClause{Time: "TIME", Between: &GrammarTimeBetween{Between: "BETWEEN", Begin: c20TimeValue(lb), And: "AND", End: c20TimeValue(le)}}
		st.Where = &GrammarTopNWhereClause{Where: "WHERE", Expr: &GrammarAndExpr{Left: c20Compare("a", lv)}}
		return &Grammar{TopN: st}
	}
	exists := ps[0].countOK && ps[1].timeOK && ps[2].timeOK && ps[3].val != nil
	c20ThreeWay(mk, ps, exists, func(lit, got *TransformResult, what string) {
		a, ok1 := lit.QueryRequest.(*measurev1.TopNRequest)
		b, ok2 := got.QueryRequest.(*measurev1.TopNRequest)
		zzverif.Assert(ok1 && ok2 && lit.Type == got.Type, what+": a top-N query")
		if ok1 && ok2 {
			c20SameTopNReq(a, b, what)
			zzverif.Assert(b.TopN >= 0, what+": the count stays non-negative")
		}
	})
}
