//go:build verif

// verif:dir pkg/bydbql
package bydbql

import (
	"math"

	modelv1 "github.com/apache/skywalking-banyandb/api/proto/banyandb/model/v1"
	"github.com/apache/skywalking-banyandb/pkg/zzverif"
)

func c20Ident(name string) *GrammarIdentifierPath {
	n := name
	return &GrammarIdentifierPath{First: &GrammarIdentifierPart{Ident: &n}}
}

func c20Str(s string) *modelv1.TagValue {
	return &modelv1.TagValue{Value: &modelv1.TagValue_Str{Str: &modelv1.Str{Value: s}}}
}
func c20Int(v int64) *modelv1.TagValue {
	return &modelv1.TagValue{Value: &modelv1.TagValue_Int{Int: &modelv1.Int{Value: v}}}
}

// c20Tree is the parsed form of
//   SELECT * FROM STREAM s IN g WHERE a = ? AND b IN (?, 'x') LIMIT ? OFFSET ?
func c20Tree() (*Grammar, *GrammarCompareTail, *GrammarInPredicate) {
	lit := "x"
	cmp := &GrammarCompareTail{Operator: "=", Value: &GrammarValue{Param: true}}
	in := &GrammarInPredicate{Identifier: c20Ident("b"), In: "IN", Values: []*GrammarValue{{Param: true}, {String: &lit}}}
	g := &Grammar{Select: &GrammarSelectStatement{
		Select:     "SELECT",
		Projection: &GrammarProjection{All: true},
		From:       &GrammarFromClause{From: "FROM", ResourceType: "STREAM", ResourceName: "s", In: &GrammarInClause{In: "IN", Groups: []string{"g"}}},
		Where: &GrammarSelectWhereClause{Where: "WHERE", Expr: &GrammarOrExpr{Left: &GrammarAndExpr{
			Left:  &GrammarPredicate{Binary: &GrammarBinaryPredicate{Identifier: c20Ident("a"), Tail: &GrammarBinaryPredicateTail{Compare: cmp}}},
			Right: []*GrammarAndRight{{And: "AND", Right: &GrammarPredicate{In: in}}},
		}}},
		Limit:  &GrammarLimitClause{Limit: "LIMIT", Param: true},
		Offset: &GrammarOffsetClause{Offset: "OFFSET", Param: true},
	}}
	return g, cmp, in
}

//verif:harness prop=C20 tier=quick,thorough reach=bound,rejected paths=400000
// Binding positional parameters into a parsed statement is literal substitution: on success the
// tree has the same shape (same clauses, operators, identifiers), every placeholder holds exactly
// the parameter value (string contents - including quotes and keywords - are carried as data and
// never inspected), an array parameter expands in place inside IN(...), LIMIT/OFFSET hold the
// parameter integers within uint32 range; on failure the statement stays unbound; a wrong number
// of parameters is rejected.
// bound: one statement shape with 4 placeholders (comparison value, first IN element, LIMIT, OFFSET); string parameters of 0..2 arbitrary bytes; arbitrary int64; arrays of 1..2 ints
func VerifH_C20_BindIsSubstitution() {
	g, cmp, in := c20Tree()
	// parameter 0: scalar position
	k0 := zzverif.Choice("p0.kind", 4)
	s0 := zzverif.String("p0.str", zzverif.Choice("p0.len", 3))
	i0 := zzverif.Int64("p0.int")
	var p0 *modelv1.TagValue
	switch k0 {
	case 0:
		p0 = c20Str(s0)
	case 1:
		p0 = c20Int(i0)
	case 2:
		p0 = &modelv1.TagValue{Value: &modelv1.TagValue_Null{}}
	default:
		p0 = &modelv1.TagValue{Value: &modelv1.TagValue_IntArray{IntArray: &modelv1.IntArray{Value: []int64{i0}}}}
	}
	// parameter 1: list position
	k1 := zzverif.Choice("p1.kind", 3)
	s1 := zzverif.String("p1.str", 1)
	arr := make([]int64, 1+zzverif.Choice("p1.arrlen", 2))
	for i := range arr {
		arr[i] = zzverif.Int64("p1.elem")
	}
	var p1 *modelv1.TagValue
	switch k1 {
	case 0:
		p1 = c20Str(s1)
	case 1:
		p1 = c20Int(arr[0])
	default:
		p1 = &modelv1.TagValue{Value: &modelv1.TagValue_IntArray{IntArray: &modelv1.IntArray{Value: arr}}}
	}
	lim, off := zzverif.Int64("limit"), zzverif.Int64("offset")
	params := []*modelv1.TagValue{p0, p1, c20Int(lim), c20Int(off)}
	if zzverif.Bool("dropOne") {
		params = params[:3]
	}
	err := BindParams(g, params)
	shouldFail := len(params) != 4 || k0 == 3 || lim < 0 || lim > math.MaxUint32 || off < 0 || off > math.MaxUint32
	if err != nil {
		zzverif.Reach("rejected")
		zzverif.Assert(shouldFail, "well-typed, in-range parameters of the right count are accepted")
		zzverif.Assert(!g.paramsBound, "a rejected bind leaves the statement unbound")
		return
	}
	zzverif.Reach("bound")
	zzverif.Assert(!shouldFail, "missing, ill-typed or out-of-range parameters are rejected")
	zzverif.Assert(g.paramsBound, "a successful bind marks the statement bound")
	// shape unchanged
	and := g.Select.Where.Expr.Left
	zzverif.Assert(len(g.Select.Where.Expr.Right) == 0 && len(and.Right) == 1 && and.Left.Binary != nil && and.Left.Binary.Tail.Compare == cmp && and.Right[0].Right.In == in, "the WHERE tree keeps its shape")
	zzverif.Assert(cmp.Operator == "=" && *and.Left.Binary.Identifier.First.Ident == "a" && in.In == "IN" && in.Not == nil, "operators and identifiers are untouched")
	// comparison value
	v := cmp.Value
	zzverif.Assert(!v.Param, "the comparison placeholder is bound")
	switch k0 {
	case 0:
		zzverif.Assert(v.String != nil && *v.String == s0 && v.Integer == nil && !v.Null, "a string parameter becomes exactly that string literal")
	case 1:
		zzverif.Assert(v.Integer != nil && *v.Integer == i0 && v.String == nil && !v.Null, "an int parameter becomes exactly that int literal")
	case 2:
		zzverif.Assert(v.Null && v.String == nil && v.Integer == nil, "a null parameter becomes NULL")
	}
	// IN list: expansion in place, literal kept
	wantLen := 2
	if k1 == 2 {
		wantLen = len(arr) + 1
	}
	zzverif.Assert(len(in.Values) == wantLen, "IN list has the literal plus the parameter's element(s)")
	if len(in.Values) != wantLen {
		return
	}
	last := in.Values[wantLen-1]
	zzverif.Assert(last.String != nil && *last.String == "x" && !last.Param, "the literal element of the IN list is untouched")
	switch k1 {
	case 0:
		zzverif.Assert(in.Values[0].String != nil && *in.Values[0].String == s1 && !in.Values[0].Param, "string element bound as data")
	case 1:
		zzverif.Assert(in.Values[0].Integer != nil && *in.Values[0].Integer == arr[0] && !in.Values[0].Param, "int element bound as data")
	default:
		for i := range arr {
			zzverif.Assert(in.Values[i].Integer != nil && *in.Values[i].Integer == arr[i] && !in.Values[i].Param, "array parameter expands in place, in order")
		}
	}
	zzverif.Assert(!g.Select.Limit.Param && int64(g.Select.Limit.Value) == lim && !g.Select.Offset.Param && int64(g.Select.Offset.Value) == off, "LIMIT and OFFSET hold the parameter integers")
	zzverif.Assert(uint64(uint32(g.Select.Limit.Value)) == uint64(lim) && uint64(uint32(g.Select.Offset.Value)) == uint64(off), "accepted counts survive narrowing to uint32")
	zzverif.Assert(BindParams(g, params) != nil, "a bound statement refuses a second bind")
}

//verif:harness prop=C20 tier=quick,thorough reach=agree paths=400000
// The cached prepared-statement path and the one-shot binder agree: for the same statement and
// the same parameter vector both accept or both reject, and the accepted values are the same;
// Bind never modifies the prepared template (it can be bound again with other parameters).
// bound: the 4-placeholder statement; parameter kinds str|int|int-array|null per position, arbitrary int64 / 0..1 byte strings
func VerifH_C20_PreparedAgreesWithBinder() {
	mk := func(tag string) *modelv1.TagValue {
		switch zzverif.Choice(tag+".kind", 4) {
		case 0:
			return c20Str(zzverif.String(tag+".str", zzverif.Choice(tag+".len", 2)))
		case 1:
			return c20Int(zzverif.Int64(tag + ".int"))
		case 2:
			return &modelv1.TagValue{Value: &modelv1.TagValue_IntArray{IntArray: &modelv1.IntArray{Value: []int64{zzverif.Int64(tag + ".elem")}}}}
		}
		return &modelv1.TagValue{Value: &modelv1.TagValue_Null{}}
	}
	params := []*modelv1.TagValue{mk("p0"), mk("p1"), mk("p2"), mk("p3")}
	tmpl, tcmp, tin := c20Tree()
	p := &preparer{}
	p.walkGrammar(tmpl)
	ps := &PreparedStatement{template: tmpl, specs: p.specs}
	zzverif.Assert(ps.NumPlaceholders() == 4, "Prepare numbers the four placeholders")
	bq, perr := ps.Bind(params)
	fresh, fcmp, fin := c20Tree()
	berr := BindParams(fresh, params)
	zzverif.Reach("agree")
	zzverif.Assert((perr == nil) == (berr == nil), "prepared Bind and BindParams accept exactly the same parameter vectors")
	zzverif.Assert(tcmp.Value.Param && tin.Values[0].Param && tmpl.Select.Limit.Param && tmpl.Select.Offset.Param && !tmpl.paramsBound && len(tin.Values) == 2, "Bind leaves the prepared template untouched")
	if perr != nil || berr != nil {
		return
	}
	// scalar position
	pv := bq.values[0].values
	zzverif.Assert(len(pv) == 1, "scalar placeholder resolves to one value")
	if len(pv) != 1 {
		return
	}
	fv := fcmp.Value
	same := func(a, b *GrammarValue) bool {
		if (a.String == nil) != (b.String == nil) || (a.Integer == nil) != (b.Integer == nil) || a.Null != b.Null {
			return false
		}
		ok := true
		if a.String != nil {
			ok = zzverif.And(ok, *a.String == *b.String)
		}
		if a.Integer != nil {
			ok = zzverif.And(ok, *a.Integer == *b.Integer)
		}
		return ok
	}
	zzverif.Assert(same(pv[0], fv), "both paths bind the same comparison value")
	lv := bq.values[1].values
	zzverif.Assert(len(lv)+1 == len(fin.Values), "both paths expand the IN placeholder to the same number of elements")
	for i := range lv {
		if i < len(fin.Values) {
			zzverif.Assert(same(lv[i], fin.Values[i]), "both paths bind the same IN elements")
		}
	}
	zzverif.Assert(bq.values[2].count == fresh.Select.Limit.Value && bq.values[3].count == fresh.Select.Offset.Value, "both paths bind the same LIMIT/OFFSET")
}
