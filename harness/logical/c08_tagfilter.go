//go:build verif

// verif:dir pkg/query/logical
package logical

import (
	modelv1 "github.com/apache/skywalking-banyandb/api/proto/banyandb/model/v1"
	"github.com/apache/skywalking-banyandb/pkg/zzverif"
)

type c08Registry struct{}

func (c08Registry) FindTagSpecByName(name string) *TagSpec {
	switch name {
	case "a":
		return &TagSpec{TagFamilyIdx: 0, TagIdx: 0}
	case "b":
		return &TagSpec{TagFamilyIdx: 0, TagIdx: 1}
	}
	return nil
}

type c08Row []*modelv1.TagValue

func (r c08Row) GetTagValue(_, tagIdx int) *modelv1.TagValue { return r[tagIdx] }

func c08Int(v int64) *modelv1.TagValue {
	return &modelv1.TagValue{Value: &modelv1.TagValue_Int{Int: &modelv1.Int{Value: v}}}
}

var c08Ops = []modelv1.Condition_BinaryOp{
	modelv1.Condition_BINARY_OP_EQ, modelv1.Condition_BINARY_OP_NE,
	modelv1.Condition_BINARY_OP_LT, modelv1.Condition_BINARY_OP_LE,
	modelv1.Condition_BINARY_OP_GT, modelv1.Condition_BINARY_OP_GE,
}

func c08Ref(op modelv1.Condition_BinaryOp, v, lit int64) bool {
	switch op {
	case modelv1.Condition_BINARY_OP_EQ:
		return v == lit
	case modelv1.Condition_BINARY_OP_NE:
		return v != lit
	case modelv1.Condition_BINARY_OP_LT:
		return v < lit
	case modelv1.Condition_BINARY_OP_LE:
		return v <= lit
	case modelv1.Condition_BINARY_OP_GT:
		return v > lit
	}
	return v >= lit
}

func c08Cond(name string, op modelv1.Condition_BinaryOp, lit *modelv1.TagValue) *modelv1.Criteria {
	return &modelv1.Criteria{Exp: &modelv1.Criteria_Condition{Condition: &modelv1.Condition{Name: name, Op: op, Value: lit}}}
}

//verif:harness prop=C08 tier=quick,thorough reach=matched
// Row-level predicate evaluation (the no-index path every other path must agree with): for an
// integer tag, =, !=, <, <=, >, >= against a literal select exactly the rows for which the
// comparison is true of the stored value, for every pair of int64 values; AND/OR of two such
// conditions is the conjunction/disjunction.
// bound: two int tags, two conditions with arbitrary int64 literals, all 6 operators, AND and OR
func VerifH_C08_IntPredicates() {
	va, vb := zzverif.Int64("a"), zzverif.Int64("b")
	la, lb := zzverif.Int64("lit.a"), zzverif.Int64("lit.b")
	opa, opb := c08Ops[zzverif.Choice("op.a", len(c08Ops))], c08Ops[zzverif.Choice("op.b", len(c08Ops))]
	row := c08Row{c08Int(va), c08Int(vb)}
	fa, err := BuildSimpleTagFilter(c08Cond("a", opa, c08Int(la)))
	zzverif.Assert(err == nil, "a comparison on an int tag builds")
	if err != nil {
		return
	}
	got, merr := fa.Match(row, c08Registry{})
	zzverif.Reach("matched")
	zzverif.Assert(merr == nil, "matching does not fail")
	zzverif.Assert(got == c08Ref(opa, va, la), "a comparison selects exactly the rows for which it is true of the stored value")
	lop := modelv1.LogicalExpression_LOGICAL_OP_AND
	and := zzverif.Bool("and")
	if !and {
		lop = modelv1.LogicalExpression_LOGICAL_OP_OR
	}
	tree := &modelv1.Criteria{Exp: &modelv1.Criteria_Le{Le: &modelv1.LogicalExpression{Op: lop, Left: c08Cond("a", opa, c08Int(la)), Right: c08Cond("b", opb, c08Int(lb))}}}
	ft, terr := BuildSimpleTagFilter(tree)
	zzverif.Assert(terr == nil, "an AND/OR tree builds")
	if terr != nil {
		return
	}
	gt, _ := ft.Match(row, c08Registry{})
	ra, rb := c08Ref(opa, va, la), c08Ref(opb, vb, lb)
	want := zzverif.Or(zzverif.And(and, zzverif.And(ra, rb)), zzverif.And(!and, zzverif.Or(ra, rb)))
	zzverif.Assert(gt == want, "AND/OR trees combine their leaves' truth values")
}

//verif:harness prop=C08 tier=quick,thorough reach=matched
// IN / NOT IN on an int tag and HAVING / NOT HAVING on an int-array tag select exactly the rows
// for which membership / the subset relation holds.
// bound: literal lists and stored arrays of 1..2 arbitrary int64 values
func VerifH_C08_SetPredicates() {
	v := zzverif.Int64("v")
	n := 1 + zzverif.Choice("n", 2)
	lits := make([]int64, n)
	member := false
	for i := range lits {
		lits[i] = zzverif.Int64("lit")
		member = zzverif.Or(member, lits[i] == v)
	}
	list := &modelv1.TagValue{Value: &modelv1.TagValue_IntArray{IntArray: &modelv1.IntArray{Value: lits}}}
	in, err := BuildSimpleTagFilter(c08Cond("a", modelv1.Condition_BINARY_OP_IN, list))
	nin, err2 := BuildSimpleTagFilter(c08Cond("a", modelv1.Condition_BINARY_OP_NOT_IN, list))
	zzverif.Assert(err == nil && err2 == nil, "IN / NOT IN build")
	if err != nil || err2 != nil {
		return
	}
	row := c08Row{c08Int(v), c08Int(0)}
	g1, _ := in.Match(row, c08Registry{})
	g2, _ := nin.Match(row, c08Registry{})
	zzverif.Reach("matched")
	zzverif.Assert(g1 == member, "IN selects exactly the rows whose value is in the list")
	zzverif.Assert(g2 == !member, "NOT IN selects exactly the other rows")
	// HAVING: stored array ⊇ queried list
	m := 1 + zzverif.Choice("m", 2)
	stored := make([]int64, m)
	for i := range stored {
		stored[i] = zzverif.Int64("stored")
	}
	subset := true
	for _, l := range lits {
		found := false
		for _, s := range stored {
			found = zzverif.Or(found, s == l)
		}
		subset = zzverif.And(subset, found)
	}
	arrRow := c08Row{&modelv1.TagValue{Value: &modelv1.TagValue_IntArray{IntArray: &modelv1.IntArray{Value: stored}}}, c08Int(0)}
	hv, herr := BuildSimpleTagFilter(c08Cond("a", modelv1.Condition_BINARY_OP_HAVING, list))
	zzverif.Assert(herr == nil, "HAVING builds")
	if herr != nil {
		return
	}
	g3, _ := hv.Match(arrRow, c08Registry{})
	zzverif.Assert(g3 == subset, "HAVING selects exactly the rows whose array contains every listed value")
}
