//go:build verif

// verif:dir pkg/timestamp
package timestamp

import (
	"time"

	"github.com/apache/skywalking-banyandb/pkg/zzverif"
)

//verif:harness prop=C06 tier=quick,thorough reach=ok
// TimeRange.Contains/Before/Overlapping/Include agree with interval arithmetic on instants for all
// four combinations of inclusive/exclusive ends, so that "falls into exactly one segment" and
// "overlaps the query range" mean what the interval bounds say.
// bound: two arbitrary non-empty ranges and one arbitrary instant (Unix nanoseconds, full int64 range except the extremes)
func VerifH_C06_TimeRangeAlgebra() {
	as, ae, bs, be, p := zzverif.Int64("a.s"), zzverif.Int64("a.e"), zzverif.Int64("b.s"), zzverif.Int64("b.e"), zzverif.Int64("p")
	const lim = int64(1) << 62
	zzverif.Assume(as > -lim && ae < lim && bs > -lim && be < lim && p > -lim && p < lim)
	zzverif.Assume(as < ae && bs < be)
	ais, aie, bis, bie := zzverif.Bool("a.is"), zzverif.Bool("a.ie"), zzverif.Bool("b.is"), zzverif.Bool("b.ie")
	a := NewTimeRange(time.Unix(0, as), time.Unix(0, ae), ais, aie)
	b := NewTimeRange(time.Unix(0, bs), time.Unix(0, be), bis, bie)
	zzverif.Reach("ok")
	inA := zzverif.And(zzverif.Or(as < p, zzverif.And(ais, as == p)), zzverif.Or(p < ae, zzverif.And(aie, p == ae)))
	zzverif.Assert(a.Contains(p) == inA, "Contains(p) iff p lies within the bounds (respecting inclusiveness)")
	before := zzverif.Or(ae < p, zzverif.And(!aie, ae == p))
	zzverif.Assert(a.Before(time.Unix(0, p)) == before, "Before(p) iff every instant of the range is before p")
	// overlap: some instant lies in both
	ov := zzverif.And(
		zzverif.Or(as < be, zzverif.And(as == be, zzverif.And(ais, bie))),
		zzverif.Or(bs < ae, zzverif.And(bs == ae, zzverif.And(bis, aie))))
	zzverif.Assert(a.Overlapping(b) == ov, "Overlapping iff the two ranges share an instant")
	zzverif.Assert(a.Overlapping(b) == b.Overlapping(a), "Overlapping is symmetric")
	inc := zzverif.And(
		zzverif.Or(as < bs, zzverif.And(as == bs, zzverif.Or(ais, !bis))),
		zzverif.Or(be < ae, zzverif.And(be == ae, zzverif.Or(aie, !bie))))
	zzverif.Assert(a.Include(b) == inc, "Include iff every instant of the other range lies in this one")
}
