//go:build verif

// verif:dir pkg/timestamp
package timestamp

import (
	"github.com/apache/skywalking-banyandb/pkg/zzverif"
)

//verif:harness prop=C08,C05 tier=quick,thorough reach=found paths=400000
// Trimming a loaded block to the query window: for a block's timestamps in ascending (or
// descending) order and any window [min,max], FindRange returns exactly the contiguous run of
// rows inside the window - no row inside it is cut off, no row outside is kept - and reports
// "nothing" exactly when no row is inside; Find locates a timestamp exactly when it is present.
// bound: 1..4 (thorough 5) timestamps, non-decreasing or non-increasing, arbitrary int64 values and window (min <= max)
func VerifH_C08_FindRangeKeepsExactlyTheRowsInTheWindow() {
	maxN := 4
	if zzverif.Thorough() {
		maxN = 5
	}
	n := 1 + zzverif.Choice("rows", maxN)
	desc := zzverif.Bool("descending")
	ts := make([]int64, n)
	for i := range ts {
		ts[i] = zzverif.Int64("ts")
		if i > 0 {
			if desc {
				zzverif.Assume(ts[i-1] >= ts[i])
			} else {
				zzverif.Assume(ts[i-1] <= ts[i])
			}
		}
	}
	if desc {
		zzverif.Assume(ts[0] > ts[n-1] || n == 1) // a constant list counts as ascending
	}
	mn, mx := zzverif.Int64("min"), zzverif.Int64("max")
	zzverif.Assume(mn <= mx)
	start, end, ok := FindRange(ts, mn, mx)
	zzverif.Reach("found")
	any := false
	for i := range ts {
		in := zzverif.And(ts[i] >= mn, ts[i] <= mx)
		any = zzverif.Or(any, in)
		if ok {
			zzverif.Assert(in == (i >= start && i <= end), "a row is kept exactly when its timestamp lies inside the window")
		}
	}
	zzverif.Assert(ok == any, "the block is dropped exactly when no row lies inside the window")
	if !desc {
		target := zzverif.Int64("target")
		idx := Find(ts, target)
		present := false
		for i := range ts {
			present = zzverif.Or(present, ts[i] == target)
		}
		zzverif.Assert((idx >= 0) == present, "a timestamp is found exactly when it is present")
		if idx >= 0 && idx < n {
			zzverif.Assert(ts[idx] == target, "the index found holds the timestamp")
		}
	}
}
