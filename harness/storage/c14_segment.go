//go:build verif

// verif:dir banyand/internal/storage
package storage

import (
	"context"
	"errors"
	"math"
	"os"
	"path/filepath"
	"sync/atomic"
	"time"

	"github.com/apache/skywalking-banyandb/pkg/fs"
	"github.com/apache/skywalking-banyandb/pkg/logger"
	"github.com/apache/skywalking-banyandb/pkg/timestamp"
	"github.com/apache/skywalking-banyandb/pkg/zzverif"
)

// Model state used by the symbolic-only stubs (natively the real index and file system are used
// on a temp directory and c14DirExists looks at the disk).
var (
	c14Removed   bool
	c14Inits     int
	c14InitAfter bool // initialize called after the directory was removed
)

func c14StubInitialize(s *c06Seg, _ context.Context) error {
	if s.index != nil {
		return nil
	}
	if c14Removed {
		c14InitAfter = true
	}
	c14Inits++
	s.index = &seriesIndex{}
	return nil
}

func c14StubIndexClose(_ *seriesIndex) error { return nil }

func c14StubRMAll(_ fs.FileSystem, _ string) { c14Removed = true }

func c14MkdirNative(p string) {
	if err := os.MkdirAll(p, 0o755); err != nil {
		panic(err)
	}
}
func c14MkdirModel(string) {}

func c14DirExistsNative(p string) bool {
	_, err := os.Stat(p)
	return err == nil
}
func c14DirExistsModel(string) bool { return !c14Removed }

//verif:harness prop=C14 tier=quick,thorough reach=ran paths=400000 redirect=segment.initialize:c14StubInitialize,seriesIndex.Close:c14StubIndexClose,localFileSystem.MustRMAll:c14StubRMAll,c14MkdirNative:c14MkdirModel,c14DirExistsNative:c14DirExistsModel random=0
// The segment reference protocol over every sequence of operations by several holders (acquire,
// release, idle-close, delete): the reference count equals the number of unreleased successful
// acquisitions (no leak, never negative); while anyone holds the segment its index is open and
// its directory exists; an idle segment closes only when nobody holds it and reopens on the next
// acquire; once deleted, the directory disappears exactly when the last holder releases, the
// segment is never reopened and later acquisitions are refused.
// bound: sequences of 5 operations (thorough 6) over one segment, each an arbitrary choice of acquire | release (if held) | closeIfIdle | delete
// outside: interleavings of the atomic steps of concurrent operations (each operation runs to completion here)
func VerifH_C14_SegmentProtocolSequences() {
	c14Removed, c14Inits, c14InitAfter = false, 0, false
	dir := filepath.Join(zzverif.TempDir(), "seg-20240101")
	c14MkdirNative(dir)
	s := &c06Seg{
		location: dir, suffix: "20240101", lfs: fs.NewLocalFileSystem(), l: logger.GetLogger("c14"),
		tsdbOpts:  &TSDBOpts[c06Table, struct{}]{ShardNum: 1},
		TimeRange: timestamp.NewSectionTimeRange(time.Unix(0, c06Min), time.Unix(0, c06Min+int64(time.Hour))),
	}
	steps := 5
	if zzverif.Thorough() {
		steps = 6
	}
	holders, deleted := 0, false
	for i := 0; i < steps; i++ {
		switch zzverif.Choice("op", 4) {
		case 0: // acquire
			err := s.incRef(context.Background())
			if deleted && holders == 0 {
				zzverif.Assert(errors.Is(err, ErrSegmentClosed), "a deleted, unreferenced segment refuses new acquisitions")
			} else {
				zzverif.Assert(err == nil, "an existing segment can be acquired (reopening it if it was idle-closed)")
			}
			if err == nil {
				holders++
			}
		case 1: // release
			if holders > 0 {
				s.DecRef()
				holders--
			} else {
				s.DecRef() // a stray release on a dormant segment must be a no-op
			}
		case 2:
			closed := s.closeIfIdle(math.MaxInt64)
			zzverif.Assert(zzverif.Implies(closed, holders == 0 && !deleted), "idle-close acts only on an unreferenced, not-deleted segment")
		case 3:
			s.delete()
			deleted = true
		}
		zzverif.Assert(int(s.refCount) == holders, "the reference count equals the unreleased successful acquisitions")
		if holders > 0 {
			zzverif.Assert(s.index != nil, "a held segment keeps its index open")
			zzverif.Assert(c14DirExistsNative(dir), "a held segment keeps its directory")
		}
		if deleted && holders == 0 {
			zzverif.Assert(!c14DirExistsNative(dir), "a deleted segment's directory is gone once the last holder released it")
			zzverif.Assert(s.index == nil, "a deleted, released segment has its index closed")
		}
		if !deleted {
			zzverif.Assert(c14DirExistsNative(dir), "an undeleted segment keeps its directory (idle-close keeps data on disk)")
		}
	}
	zzverif.Reach("ran")
	zzverif.Assert(!c14InitAfter, "a segment is never reopened after its directory was removed")
}

//verif:harness prop=C14 tier=quick,thorough reach=finished native=off paths=2000000 depth=400 redirect=segment.initialize:c14StubInitialize,seriesIndex.Close:c14StubIndexClose,localFileSystem.MustRMAll:c14StubRMAll,c14MkdirNative:c14MkdirModel,c14DirExistsNative:c14DirExistsModel
// The same protocol under concurrency: a reader/writer (acquire; use; release), the idle
// reclaimer (closeIfIdle) and retention (delete) run as concurrent threads, in EVERY interleaving
// of their atomic loads/CAS/adds and mutex operations. While the holder is between a successful
// acquire and its release the index is open and the directory exists; nothing deadlocks; at the
// end the reference count is zero, a deleted segment's directory is gone and its index closed,
// and the segment was never reopened after its directory was removed.
// bound: two concurrent threads, one operation each: quick {holder,reclaimer}, {holder,deleter}, {reclaimer,deleter}; thorough also {holder,holder}, {deleter,deleter} and a second check inside the holder's critical section
// assume: sequential consistency of sync/atomic and mutex operations; non-atomic fields are only accessed under the locks the code takes
func VerifH_C14_SegmentProtocolInterleavings() {
	c14Removed, c14Inits, c14InitAfter = false, 0, false
	dir := "/seg-20240101"
	s := &c06Seg{
		location: dir, suffix: "20240101", lfs: fs.NewLocalFileSystem(), l: logger.GetLogger("c14"),
		tsdbOpts:  &TSDBOpts[c06Table, struct{}]{ShardNum: 1},
		TimeRange: timestamp.NewSectionTimeRange(time.Unix(0, c06Min), time.Unix(0, c06Min+int64(time.Hour))),
	}
	// the segment starts dormant and open (as openSegment leaves it) or idle-closed
	if zzverif.Bool("starts open") {
		s.index = &seriesIndex{}
	}
	deleted := false
	holder := func() {
		if err := s.incRef(context.Background()); err != nil {
			zzverif.Assert(errors.Is(err, ErrSegmentClosed), "the only refusal is 'segment closed' (it was deleted)")
			return
		}
		zzverif.Yield()
		zzverif.Assert(s.index != nil, "a held segment keeps its index open")
		zzverif.Assert(!c14Removed, "a held segment keeps its directory")
		if zzverif.Thorough() {
			zzverif.Yield()
			zzverif.Assert(s.index != nil && !c14Removed, "…for as long as it is held")
		}
		s.DecRef()
	}
	reclaimer := func() { s.closeIfIdle(math.MaxInt64) }
	deleter := func() { s.delete(); deleted = true }
	pairs := 3
	if zzverif.Thorough() {
		pairs = 5
	}
	switch zzverif.Choice("pair", pairs) {
	case 0:
		zzverif.Par(holder, reclaimer)
	case 1:
		zzverif.Par(holder, deleter)
	case 2:
		zzverif.Par(reclaimer, deleter)
	case 3:
		zzverif.Par(holder, holder)
	case 4:
		zzverif.Par(deleter, deleter)
	}
	zzverif.Reach("finished")
	zzverif.Assert(s.refCount == 0, "every acquisition was released: no reference leaks")
	if deleted {
		zzverif.Assert(c14Removed && s.index == nil, "a deleted segment is gone once its last holder released it")
	} else {
		zzverif.Assert(!c14Removed, "nothing but delete removes the directory")
	}
	zzverif.Assert(!c14InitAfter, "a segment is never reopened after its directory was removed")
}

//verif:harness prop=C14,C07 tier=quick,thorough reach=finished native=off paths=2000000 depth=400 redirect=segment.initialize:c14StubInitialize,seriesIndex.Close:c14StubIndexClose,localFileSystem.MustRMAll:c14StubRMAll
// Housekeeping must not release references it does not own: the retention pass (remove with a
// deadline that expires nothing) runs concurrently with a query that acquires, uses and releases
// the only, dormant, segment and with the idle reclaimer. In every interleaving the query's
// reference keeps the segment open until the query itself releases it, and the final reference
// count is zero.
// bound: 1 dormant open segment that is NOT expired; threads: retention pass, one holder, idle reclaimer (thorough) / retention pass + holder (quick)
func VerifH_C14_RetentionDoesNotStealReferences() {
	c14Removed, c14Inits, c14InitAfter = false, 0, false
	rec := fs.NewLocalFileSystem()
	sc := &c06Ctl{
		opts: &TSDBOpts[c06Table, struct{}]{SegmentInterval: IntervalRule{Unit: DAY, Num: 1}, TTL: IntervalRule{Unit: DAY, Num: 1}, ShardNum: 1},
		l:    logger.GetLogger("c14"), lfs: rec,
	}
	s := &c06Seg{
		id: 1, location: "/seg-20240101", suffix: "20240101", lfs: rec, l: sc.l, index: &seriesIndex{},
		tsdbOpts:  sc.opts,
		TimeRange: timestamp.NewSectionTimeRange(time.Unix(0, c06Min+int64(48*time.Hour)), time.Unix(0, c06Min+int64(72*time.Hour))),
	}
	sc.lst = append(sc.lst, s)
	holder := func() {
		if err := s.incRef(context.Background()); err != nil {
			zzverif.Assert(false, "an undeleted segment can always be acquired")
			return
		}
		zzverif.Yield()
		zzverif.Assert(s.index != nil, "a held segment keeps its index open (nobody else may release the holder's reference)")
		zzverif.Assert(atomic.LoadInt32(&s.refCount) >= 1, "the holder's reference is still counted while it holds the segment")
		s.DecRef()
	}
	retention := func() {
		_, _ = sc.remove(time.Unix(0, c06Min)) // deadline before the segment: nothing expires
	}
	reclaimer := func() { s.closeIfIdle(math.MaxInt64) }
	if zzverif.Thorough() {
		zzverif.Par(holder, retention, reclaimer)
	} else {
		zzverif.Par(holder, retention)
	}
	zzverif.Reach("finished")
	zzverif.Assert(s.refCount == 0, "no reference is leaked or over-released")
	zzverif.Assert(!c14Removed, "an unexpired segment is not deleted")
}

var c14FailInit int // index (in call order) of the initialize call that fails; -1: none

func c14StubInitializeMayFail(s *c06Seg, _ context.Context) error {
	if s.index != nil {
		return nil
	}
	k := c14Inits
	c14Inits++
	if k == c14FailInit {
		return errors.New("open failed")
	}
	s.index = &seriesIndex{}
	return nil
}

//verif:harness prop=C14 tier=quick,thorough reach=finished native=off paths=200000 redirect=segment.initialize:c14StubInitializeMayFail,seriesIndex.Close:c14StubIndexClose,localFileSystem.MustRMAll:c14StubRMAll
// Failed or partial acquisitions leave no references behind: when opening one of several
// segments fails in the middle of selectSegments (range query) or segments (rotation), every
// segment pinned earlier in the same call is released again, so nothing stays pinned forever.
// bound: 2..3 idle-closed segments overlapping the query, the k-th reopen fails (or none)
func VerifH_C14_PartialAcquisitionRollsBack() {
	c14Removed, c14Inits, c14InitAfter = false, 0, false
	n := 2 + zzverif.Choice("segments", 2)
	c14FailInit = zzverif.Choice("failing open", 4) - 1
	rec := fs.NewLocalFileSystem()
	sc := &c06Ctl{opts: &TSDBOpts[c06Table, struct{}]{SegmentInterval: IntervalRule{Unit: DAY, Num: 1}, ShardNum: 1}, l: logger.GetLogger("c14"), lfs: rec}
	for i := 0; i < n; i++ {
		start := c06Min + int64(i)*int64(24*time.Hour)
		sc.lst = append(sc.lst, &c06Seg{id: segmentID(i + 1), location: "/seg", suffix: "s", lfs: rec, l: sc.l, tsdbOpts: sc.opts,
			TimeRange: timestamp.NewSectionTimeRange(time.Unix(0, start), time.Unix(0, start+int64(24*time.Hour)))})
	}
	viaSelect := zzverif.Bool("selectSegments")
	var err error
	var got int
	if viaSelect {
		var ss []Segment[c06Table, struct{}]
		ss, err = sc.selectSegments(timestamp.NewInclusiveTimeRange(time.Unix(0, c06Min), time.Unix(0, c06Min+int64(96*time.Hour))), true)
		got = len(ss)
	} else {
		var ss []*c06Seg
		ss, err = sc.segments(context.Background(), true)
		got = len(ss)
	}
	zzverif.Reach("finished")
	failed := c14FailInit >= 0 && c14FailInit < n
	zzverif.Assert((err != nil) == failed, "the call fails exactly when a reopen fails")
	for _, s := range sc.lst {
		if failed {
			zzverif.Assert(s.refCount == 0, "a failed multi-segment acquisition releases every segment it had already pinned")
		} else {
			zzverif.Assert(s.refCount == 1, "a successful acquisition pins every returned segment once")
		}
	}
	if !failed {
		zzverif.Assert(got == n, "every overlapping segment is returned")
	}
}
