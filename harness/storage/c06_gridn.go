//go:build verif

// verif:dir banyand/internal/storage
package storage

import (
	"time"

	"github.com/apache/skywalking-banyandb/pkg/zzverif"
)

//verif:harness prop=C06 tier=quick,thorough reach=ok paths=20000
// The interval grid for multi-unit rules (every 2 or 3 days / hours): Standard(t) <= t <
// NextTime(Standard(t)), Standard is idempotent, buckets are Num units long and anchored at
// 1970-01-01 (UTC), consecutive buckets tile the timeline, and two instants share a bucket
// exactly when they lie between the same grid points.
// bound: rules DAY x {2,3} and HOUR x {2,3}; instants = unit index 0..8 after 2000-01-01 plus an offset of 0, 1 ns, half a unit or one unit minus 1 ns (each path on one concrete instant: the bucket index needs a division the solver does not decide on symbolic instants)
func VerifH_C06_GridMultiUnit() {
	num := 2
	if zzverif.Bool("every third unit") {
		num = 3
	}
	rule := IntervalRule{Unit: DAY, Num: num}
	unit := int64(24 * time.Hour)
	if zzverif.Bool("hours") {
		rule.Unit = HOUR
		unit = int64(time.Hour)
	}
	pick := func(tag string) int64 {
		idx := 0
		for sym := zzverif.Choice(tag+".unit", 9); idx < 8 && sym != idx; {
			idx++
		}
		off := int64(0)
		if zzverif.Bool(tag + ".late") {
			off = unit - 1
			if zzverif.Bool(tag + ".mid") {
				off = unit / 2
			}
		} else if zzverif.Bool(tag + ".just after") {
			off = 1
		}
		return c06Min + int64(idx)*unit + off
	}
	ts, us := pick("t"), pick("u")
	t, u := time.Unix(0, ts).UTC(), time.Unix(0, us).UTC()
	st, su := rule.Standard(t), rule.Standard(u)
	nt := rule.NextTime(st)
	zzverif.Reach("ok")
	zzverif.Assert(!st.After(t) && t.Before(nt), "an instant lies inside its bucket")
	zzverif.Assert(rule.Standard(st).Equal(st), "bucket starts are fixed points")
	zzverif.Assert(nt.Sub(st) == time.Duration(int64(num)*unit), "a bucket is Num units long")
	zzverif.Assert(st.UnixNano()%(int64(num)*unit) == 0, "buckets are anchored at 1970-01-01")
	zzverif.Assert(rule.Standard(nt).Equal(nt), "the next bucket starts where this one ends")
	zzverif.Assert(st.Equal(su) == (!u.Before(st) && u.Before(nt)), "two instants share a bucket exactly when the second lies inside the first one's bucket")
	if ts <= us {
		zzverif.Assert(!st.After(su), "the grid is monotone")
	}
}
