//go:build verif

// verif:dir banyand/internal/storage
package storage

import (
	"context"
	"time"

	"github.com/apache/skywalking-banyandb/pkg/fs"
	"github.com/apache/skywalking-banyandb/pkg/logger"
	"github.com/apache/skywalking-banyandb/pkg/timestamp"
	"github.com/apache/skywalking-banyandb/pkg/zzverif"
)

type c06Table struct{}

func (c06Table) Close() error                          { return nil }
func (c06Table) Collect(Metrics)                       {}
func (c06Table) TakeFileSnapshot(string) (bool, error) { return false, nil }

type c06Ctl = segmentController[c06Table, struct{}]
type c06Seg = segment[c06Table, struct{}]

// ---- symbolic-only stubs (natively the real functions run on a temp directory) ----

type c06File struct{ fs.File }

func (c06File) Write(b []byte) (int, error) { return len(b), nil }

func c06StubMkdir(_ fs.FileSystem, _ string, _ fs.Mode)                     {}
func c06StubCreateLockFile(_ fs.FileSystem, _ string, _ fs.Mode) (fs.File, error) { return c06File{}, nil }

// c06StubLoad models load(): the new segment [start,end) joins the list.
func c06StubLoad(sc *c06Ctl, _ context.Context, start, end time.Time, _ string) (*c06Seg, error) {
	seg := &c06Seg{TimeRange: timestamp.NewSectionTimeRange(start, end)}
	sc.lst = append(sc.lst, seg)
	return seg, nil
}

const (
	c06Min = int64(946684800) * 1e9  // 2000-01-01
	c06Max = int64(4102444800) * 1e9 // 2100-01-01
)

func c06Controller(rule IntervalRule, n int) *c06Ctl {
	sc := &c06Ctl{
		opts:     &TSDBOpts[c06Table, struct{}]{SegmentInterval: rule, ShardNum: 1},
		l:        logger.GetLogger("c06"),
		location: zzverif.TempDir(),
		lfs:      fs.NewLocalFileSystem(),
	}
	prevEnd := c06Min
	for i := 0; i < n; i++ {
		s, e := zzverif.Int64("seg.start"), zzverif.Int64("seg.end")
		zzverif.Assume(s >= prevEnd && s < e && e <= c06Max)
		prevEnd = e
		sc.lst = append(sc.lst, &c06Seg{TimeRange: timestamp.NewSectionTimeRange(time.Unix(0, s), time.Unix(0, e))})
	}
	return sc
}

func c06Rule() IntervalRule {
	rules := []IntervalRule{{Unit: DAY, Num: 1}, {Unit: HOUR, Num: 1}}
	return rules[zzverif.Choice("rule", len(rules))]
}

//verif:harness prop=C06 tier=quick,thorough reach=created redirect=localFileSystem.MkdirPanicIfExist:c06StubMkdir,localFileSystem.CreateLockFile:c06StubCreateLockFile,segmentController.load:c06StubLoad random=0 paths=100000
// One inductive step of segment creation: from ANY sorted, non-overlapping list of existing
// segments (including off-grid legacy ones left by an earlier interval setting), create(ts)
// returns a segment that contains ts, the list stays pairwise non-overlapping, and a newly
// created segment is non-empty and lies inside the grid bucket of ts.
// bound: 0..2 existing segments with arbitrary [start,end) between 2000 and 2100; interval DAY×1 or HOUR×1; UTC
// assume: sc.lst sorted by start and non-overlapping (representation invariant, re-established by this very step)
// outside: rules with Num>1 (their bucket index needs 64-bit division/multiplication by 3.6e12, undecided within the query timeout), non-UTC zones / DST, directory naming
func VerifH_C06_CreateStep() {
	rule := c06Rule()
	sc := c06Controller(rule, zzverif.Choice("existing", 3))
	before := len(sc.lst)
	ts := zzverif.Int64("ts")
	zzverif.Assume(ts >= c06Min && ts < c06Max)
	seg, err := sc.create(context.Background(), time.Unix(0, ts))
	zzverif.Reach("created")
	zzverif.Assert(err == nil, "create accepts a post-2000 timestamp")
	if err != nil {
		return
	}
	zzverif.Assert(seg.Contains(ts), "the segment returned for a timestamp contains that timestamp")
	zzverif.Assert(seg.Start.Before(seg.End), "a segment is never empty")
	for i := range sc.lst {
		for j := 0; j < i; j++ {
			a, b := sc.lst[i], sc.lst[j]
			zzverif.Assert(zzverif.Or(!a.End.After(b.Start), !b.End.After(a.Start)), "segments never overlap")
		}
	}
	if len(sc.lst) > before {
		std := rule.Standard(time.Unix(0, ts))
		zzverif.Assert(!seg.Start.Before(std), "a new segment does not start before the grid bucket of its timestamp")
		zzverif.Assert(!seg.End.After(rule.NextTime(std)), "a new segment does not extend past the grid bucket of its timestamp")
	}
}

//verif:harness prop=C06 tier=quick,thorough reach=ok
// The interval grid: Standard(t) <= t < NextTime(Standard(t)), Standard is idempotent and
// monotone, and lies on the Num×unit grid counted from 1970-01-01 (UTC).
// bound: t, u arbitrary instants between 2000 and 2100; DAY×1, HOUR×1
func VerifH_C06_Grid() {
	rules := []IntervalRule{{Unit: DAY, Num: 1}, {Unit: HOUR, Num: 1}}
	rule := rules[zzverif.Choice("rule", len(rules))]
	t, u := zzverif.Int64("t"), zzverif.Int64("u")
	zzverif.Assume(t >= c06Min && t < c06Max && u >= c06Min && u < c06Max)
	st := rule.Standard(time.Unix(0, t))
	zzverif.Reach("ok")
	zzverif.Assert(!st.After(time.Unix(0, t)), "Standard(t) <= t")
	zzverif.Assert(rule.NextTime(st).After(time.Unix(0, t)), "t < NextTime(Standard(t))")
	zzverif.Assert(rule.Standard(st).Equal(st), "Standard is idempotent")
	su := rule.Standard(time.Unix(0, u))
	zzverif.Assert(zzverif.Implies(t <= u, !st.After(su)), "Standard is monotone")
	unit := int64(time.Hour)
	if rule.Unit == DAY {
		unit = 24 * int64(time.Hour)
	}
	zzverif.Assert(st.UnixNano()%(unit*int64(rule.Num)) == 0, "bucket starts are multiples of Num×unit since the epoch")
}
