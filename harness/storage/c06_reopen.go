//go:build verif

// verif:dir banyand/internal/storage
package storage

import (
	"strings"
	"time"

	"github.com/apache/skywalking-banyandb/pkg/fs"
	"github.com/apache/skywalking-banyandb/pkg/logger"
	"github.com/apache/skywalking-banyandb/pkg/zzverif"
)

// ---- a model directory for open(): segment directories, their metadata documents ----

type c06DirEntry struct{ name string }

func (e c06DirEntry) Name() string { return e.name }
func (e c06DirEntry) IsDir() bool  { return true }

var (
	c06Dir     []fs.DirEntry
	c06Meta    map[string]string // metadata path -> document ("" = zero-length file; absent = no file)
	c06Removed map[string]int
)

func c06StubReadDir(_ fs.FileSystem, _ string) []fs.DirEntry { return c06Dir }
func c06StubRead(_ fs.FileSystem, name string) ([]byte, error) {
	doc, ok := c06Meta[name]
	if !ok {
		return nil, &fs.FileSystemError{Code: fs.IsNotExistError, Message: "no such file"}
	}
	return []byte(doc), nil
}
func c06StubRMAllRec(_ fs.FileSystem, p string) { c06Removed[p]++ }

// c06StubReadMeta stands for the JSON decoding of the metadata document: the model documents
// are "v|<end time>" with the current version.
func c06StubReadMeta(data []byte) (segmentMeta, error) {
	parts := strings.SplitN(string(data), "|", 2)
	m := segmentMeta{Version: currentVersion}
	if len(parts) == 2 {
		m.EndTime = parts[1]
	}
	return m, nil
}

//verif:harness prop=C06,C07,C04 tier=quick,thorough reach=reopened native=off paths=400000 redirect=localFileSystem.ReadDir:c06StubReadDir,localFileSystem.Read:c06StubRead,localFileSystem.MustRMAll:c06StubRMAllRec,readSegmentMeta:c06StubReadMeta,segment.initialize:c14StubInitialize,seriesIndex.Close:c14StubIndexClose
// Reopening a database restores every segment with the time range it was created with: the
// start comes from the directory name, the end is the end persisted in the segment's metadata
// (also when the configured interval has been reduced since, so that the persisted span is
// longer than the current interval) and only falls back to "next segment's start / start + one
// interval" when no end was persisted; the list comes back chronological and non-overlapping;
// half-born segment directories (no metadata file, or a zero-length one left by a crash inside
// creation) are removed and do not prevent the others from loading; nothing else is removed.
// bound: 1..3 segment directories on distinct days of a 6-day window (each path on concrete days), per segment: metadata absent | zero-length | without end | end = start+1 day | end = start+2 days (only where that does not run into the next segment); current interval DAY x 1, UTC
func VerifH_C06_ReopenRestoresPersistedRanges() {
	const day = int64(24 * time.Hour)
	c06Dir, c06Meta, c06Removed = nil, map[string]string{}, map[string]int{}
	sc := &c06Ctl{
		opts:     &TSDBOpts[c06Table, struct{}]{SegmentInterval: IntervalRule{Unit: DAY, Num: 1}, TTL: IntervalRule{Unit: DAY, Num: 30}, ShardNum: 1},
		l:        logger.GetLogger("c06"),
		location: "/db",
		lfs:      fs.NewLocalFileSystem(),
	}
	type want struct {
		start, end int64
		valid      bool
		path       string
	}
	var wants []want
	present := make([]bool, 6)
	kinds := make([]int, 6)
	n := 0
	for d := 0; d < 6; d++ {
		if n < 3 && zzverif.Bool("segment on this day") {
			present[d] = true
			n++
			k := 0
			for sym := zzverif.Choice("metadata", 5); k < 4 && sym != k; {
				k++
			}
			kinds[d] = k
		}
	}
	zzverif.Assume(n >= 1)
	for d := 0; d < 6; d++ {
		if !present[d] {
			continue
		}
		start := c06Min + int64(d)*day
		suffix := time.Unix(0, start).UTC().Format(dayFormat)
		dir := "/db/seg-" + suffix
		c06Dir = append(c06Dir, c06DirEntry{"seg-" + suffix})
		// the start of the next VALID or invalid directory bounds the fallback end (loadSegments
		// uses every listed directory)
		next := int64(0)
		for e := d + 1; e < 6; e++ {
			if present[e] {
				next = c06Min + int64(e)*day
				break
			}
		}
		fallback := start + day
		if next != 0 {
			fallback = next
		}
		w := want{start: start, path: dir}
		switch kinds[d] {
		case 0: // no metadata file
		case 1:
			c06Meta[dir+"/metadata"] = ""
		case 2:
			c06Meta[dir+"/metadata"] = "v"
			w.valid, w.end = true, fallback
		case 3:
			w.valid, w.end = true, start+day
			c06Meta[dir+"/metadata"] = "v|" + time.Unix(0, w.end).UTC().Format(time.RFC3339Nano)
		default:
			w.valid, w.end = true, start+2*day
			zzverif.Assume(next == 0 || next >= w.end)
			c06Meta[dir+"/metadata"] = "v|" + time.Unix(0, w.end).UTC().Format(time.RFC3339Nano)
		}
		wants = append(wants, w)
	}
	err := sc.open()
	zzverif.Reach("reopened")
	zzverif.Assert(err == nil, "reopening succeeds whatever half-born segment directories a crash left behind")
	if err != nil {
		return
	}
	i := 0
	for _, w := range wants {
		if !w.valid {
			zzverif.Assert(c06Removed[w.path] >= 1, "a half-born segment directory is removed")
			continue
		}
		zzverif.Assert(c06Removed[w.path] == 0, "a segment with valid metadata is never removed on reopen")
		zzverif.Assert(i < len(sc.lst), "every segment with valid metadata is loaded")
		if i < len(sc.lst) {
			s := sc.lst[i]
			zzverif.Assert(s.Start.UnixNano() == w.start, "a segment comes back with the start of its directory name, in chronological order")
			zzverif.Assert(s.End.UnixNano() == w.end, "a segment comes back with the end it was created with (persisted end, else the layout fallback)")
		}
		i++
	}
	zzverif.Assert(i == len(sc.lst), "nothing but the valid segments is loaded")
}
