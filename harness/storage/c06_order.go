//go:build verif

// verif:dir banyand/internal/storage
package storage

import (
	"context"
	"time"

	"github.com/apache/skywalking-banyandb/pkg/fs"
	"github.com/apache/skywalking-banyandb/pkg/logger"
	"github.com/apache/skywalking-banyandb/pkg/timestamp"
	"github.com/apache/skywalking-banyandb/pkg/zzverif"
)

//verif:harness prop=C06 tier=quick,thorough reach=queried native=off paths=200000 redirect=localFileSystem.MkdirPanicIfExist:c06StubMkdir,localFileSystem.CreateLockFile:c06StubCreateLockFile,segment.initialize:c14StubInitialize,seriesIndex.Close:c14StubIndexClose
// Segments created in ANY arrival order (late data for an earlier day after newer days already
// exist) go through the real create -> load -> openSegment path and leave the controller's
// list chronological and non-overlapping, so that afterwards every stored timestamp is found
// by exactly one segment, a query for any single day selects exactly the segment of that day
// (the back-to-front scan with its early exit must not skip it), and the oldest segment is the
// one retention looks at first.
// bound: 2..3 (thorough 2..4) creations at noon of distinct days chosen from a window of 5 days, in every order; DAY x 1 grid, UTC; each path runs on concrete days (the directory suffix is formatted text)
func VerifH_C06_OutOfOrderCreationKeepsTimelineQueryable() {
	sc := &c06Ctl{
		opts:     &TSDBOpts[c06Table, struct{}]{SegmentInterval: IntervalRule{Unit: DAY, Num: 1}, TTL: IntervalRule{Unit: DAY, Num: 30}, ShardNum: 1},
		l:        logger.GetLogger("c06"),
		location: "/db",
		lfs:      fs.NewLocalFileSystem(),
	}
	const day = int64(24 * time.Hour)
	base := c06Min + 20000*day/20000 // 2000-01-01
	max := 3
	if zzverif.Thorough() {
		max = 4
	}
	n := 2 + zzverif.Choice("creations", max-1)
	var days []int64
	used := map[int]bool{}
	for i := 0; i < n; i++ {
		k := 0
		for sym := zzverif.Choice("day", 5); k < 4 && sym != k; {
			k++ // one path per day: the day is a constant on each
		}
		zzverif.Assume(!used[k])
		used[k] = true
		days = append(days, int64(k))
		ts := base + int64(k)*day + day/2
		seg, err := sc.create(context.Background(), time.Unix(0, ts))
		zzverif.Assert(err == nil && seg != nil && seg.Contains(ts), "create returns a segment containing the timestamp")
	}
	zzverif.Assert(len(sc.lst) == n, "one segment per distinct day")
	for i := 1; i < len(sc.lst); i++ {
		zzverif.Assert(!sc.lst[i].Start.Before(sc.lst[i-1].End), "the segment list is chronological and non-overlapping")
	}
	for _, k := range days {
		ts := base + k*day + day/2
		hits := 0
		for _, s := range sc.lst {
			if s.Contains(ts) {
				hits++
			}
		}
		zzverif.Assert(hits == 1, "every stored timestamp lies in exactly one segment")
		tr := timestamp.NewInclusiveTimeRange(time.Unix(0, ts-int64(time.Hour)), time.Unix(0, ts+int64(time.Hour)))
		sel, err := sc.selectSegments(tr, true)
		zzverif.Assert(err == nil && len(sel) == 1, "a query inside one day selects exactly one segment")
		if err == nil && len(sel) == 1 {
			zzverif.Assert(sel[0].GetTimeRange().Contains(ts), "…the segment of that day")
			sel[0].DecRef()
		}
	}
	zzverif.Reach("queried")
	oldest := sc.lst[0]
	for _, s := range sc.lst {
		zzverif.Assert(!s.Start.Before(oldest.Start), "the first segment of the list is the oldest")
	}
}
