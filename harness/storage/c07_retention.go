//go:build verif

// verif:dir banyand/internal/storage
package storage

import (
	"time"

	"github.com/apache/skywalking-banyandb/pkg/fs"
	"github.com/apache/skywalking-banyandb/pkg/logger"
	"github.com/apache/skywalking-banyandb/pkg/timestamp"
	"github.com/apache/skywalking-banyandb/pkg/zzverif"
)

// c07FS records directory removals; every other file-system call is unreachable in these harnesses.
type c07FS struct {
	fs.FileSystem
	removed map[string]int
}

func (f *c07FS) MustRMAll(path string) { f.removed[path]++ }

type c07Clock struct {
	timestamp.Clock
	now int64
}

func (c c07Clock) Now() time.Time { return time.Unix(0, c.now) }

var c07Names = []string{"seg-0", "seg-1", "seg-2"}

// c07Controller: n dormant segments with arbitrary sorted, non-overlapping ranges.
func c07Controller(n int, ttl IntervalRule, now int64) (*c06Ctl, *c07FS, [][2]int64) {
	rec := &c07FS{removed: map[string]int{}}
	sc := &c06Ctl{
		opts:  &TSDBOpts[c06Table, struct{}]{SegmentInterval: IntervalRule{Unit: DAY, Num: 1}, TTL: ttl, ShardNum: 1},
		l:     logger.GetLogger("c07"),
		lfs:   rec,
		clock: c07Clock{now: now},
	}
	var ranges [][2]int64
	prevEnd := c06Min
	for i := 0; i < n; i++ {
		s, e := zzverif.Int64("seg.start"), zzverif.Int64("seg.end")
		zzverif.Assume(s >= prevEnd && s < e && e <= c06Max)
		prevEnd = e
		ranges = append(ranges, [2]int64{s, e})
		sc.lst = append(sc.lst, &c06Seg{
			id: segmentID(i + 1), location: c07Names[i], suffix: c07Names[i], lfs: rec, l: sc.l,
			TimeRange: timestamp.NewSectionTimeRange(time.Unix(0, s), time.Unix(0, e)),
		})
	}
	return sc, rec, ranges
}

func c07InList(sc *c06Ctl, id segmentID) bool {
	for _, s := range sc.lst {
		if s.id == id {
			return true
		}
	}
	return false
}

//verif:harness prop=C07 tier=quick,thorough reach=checked paths=100000
// Retention: remove(deadline) deletes exactly the segments whose whole range lies at or before
// the deadline (End <= deadline, end exclusive) - directory removed once, dropped from the
// list - and leaves every other segment untouched.
// bound: 1..3 dormant segments with arbitrary sorted non-overlapping ranges in [2000,2100), arbitrary deadline
func VerifH_C07_RemoveExactlyExpired() {
	n := 1 + zzverif.Choice("n", 3)
	sc, rec, ranges := c07Controller(n, IntervalRule{Unit: DAY, Num: 1}, 0)
	deadline := zzverif.Int64("deadline")
	zzverif.Assume(deadline >= c06Min && deadline < c06Max)
	has, err := sc.remove(time.Unix(0, deadline))
	zzverif.Reach("checked")
	zzverif.Assert(err == nil, "remove does not fail")
	any := false
	for i := 0; i < n; i++ {
		expired := ranges[i][1] <= deadline
		if expired {
			any = true
			zzverif.Assert(rec.removed[c07Names[i]] == 1, "a fully expired segment's directory is removed exactly once")
			zzverif.Assert(!c07InList(sc, segmentID(i+1)), "a fully expired segment leaves the segment list")
		} else {
			zzverif.Assert(rec.removed[c07Names[i]] == 0, "a segment whose range reaches past the deadline is never removed")
			zzverif.Assert(c07InList(sc, segmentID(i+1)), "a segment whose range reaches past the deadline stays listed")
		}
	}
	zzverif.Assert(has == any, "remove reports whether it removed anything")
}

//verif:harness prop=C07 tier=quick,thorough reach=checked
// Forced disk-pressure cleanup removes exactly the oldest segment, and nothing when only one
// (or no) segment is left.
// bound: 0..3 segments
func VerifH_C07_RemoveOldestKeepsOne() {
	n := zzverif.Choice("n", 4)
	sc, rec, _ := c07Controller(n, IntervalRule{Unit: DAY, Num: 1}, 0)
	ok, err := sc.removeOldest()
	zzverif.Reach("checked")
	zzverif.Assert(err == nil, "removeOldest does not fail")
	zzverif.Assert(ok == (n > 1), "forced cleanup acts only when more than one segment exists")
	for i := 0; i < n; i++ {
		want := 0
		if n > 1 && i == 0 {
			want = 1
		}
		zzverif.Assert(rec.removed[c07Names[i]] == want, "forced cleanup removes the single oldest segment and nothing else")
	}
	zzverif.Assert(len(sc.lst) == n-want01(n > 1), "exactly one segment leaves the list")
}

func want01(b bool) int {
	if b {
		return 1
	}
	return 0
}

//verif:harness prop=C07 tier=quick,thorough reach=checked paths=100000
// Queries hide a segment exactly when retention would remove it at the same instant: SelectSegments
// returns the segments overlapping the range whose End is after now-TTL; none with End > now-TTL is hidden.
// bound: 1..3 segments, TTL of 1..3 days, arbitrary clock instant and query range in [2000,2100)
func VerifH_C07_SelectHidesExactlyExpired() {
	n := 1 + zzverif.Choice("n", 3)
	ttl := IntervalRule{Unit: DAY, Num: 1 + zzverif.Choice("ttl", 3)}
	now := zzverif.Int64("now")
	zzverif.Assume(now >= c06Min+int64(96*time.Hour) && now < c06Max)
	sc, _, ranges := c07Controller(n, ttl, now)
	d := &database[c06Table, struct{}]{segmentController: sc}
	qs, qe := zzverif.Int64("q.start"), zzverif.Int64("q.end")
	zzverif.Assume(qs >= c06Min && qs <= qe && qe < c06Max)
	got, err := d.SelectSegments(timestamp.NewInclusiveTimeRange(time.Unix(0, qs), time.Unix(0, qe)), false)
	zzverif.Reach("checked")
	zzverif.Assert(err == nil, "SelectSegments does not fail")
	deadline := now - int64(ttl.Num)*int64(24*time.Hour)
	for i := 0; i < n; i++ {
		overlaps := ranges[i][0] <= qe && qs < ranges[i][1]
		expired := ranges[i][1] <= deadline
		cnt := 0
		for _, g := range got {
			if g.(*c06Seg).id == segmentID(i+1) {
				cnt++
			}
		}
		if overlaps && !expired {
			zzverif.Assert(cnt == 1, "a live segment overlapping the query range is returned once")
		} else {
			zzverif.Assert(cnt == 0, "a fully expired or non-overlapping segment is not returned")
		}
	}
}
