//go:build verif

// verif:dir banyand/internal/storage
package storage

import (
	"context"
	"errors"
	"time"

	"github.com/apache/skywalking-banyandb/api/common"
	"github.com/apache/skywalking-banyandb/pkg/fs"
	"github.com/apache/skywalking-banyandb/pkg/index"
	"github.com/apache/skywalking-banyandb/pkg/logger"
	"github.com/apache/skywalking-banyandb/pkg/timestamp"
	"github.com/apache/skywalking-banyandb/pkg/zzverif"
)

// ---- an open segment's parts, reduced to their snapshot behaviour ----

type c19Rec struct {
	asked   []string // destination each shard table was asked to snapshot into, in order
	outcome []int    // per shard: 0 ok, 1 nothing to snapshot yet, 2 failure
	index   []string
	links   []string
	dirs    []string
}

type c19Table struct {
	rec *c19Rec
	id  int
}

func (c19Table) Close() error    { return nil }
func (c19Table) Collect(Metrics) {}
func (t c19Table) TakeFileSnapshot(dst string) (bool, error) {
	t.rec.asked = append(t.rec.asked, dst)
	switch t.rec.outcome[t.id] {
	case 1:
		return false, ErrNoCurrentSnapshot
	case 2:
		return false, errors.New("disk full")
	}
	return true, nil
}

type c19Store struct {
	index.SeriesStore
	rec *c19Rec
}

func (s c19Store) TakeFileSnapshot(dst string) error { s.rec.index = append(s.rec.index, dst); return nil }

type c19SegFS struct {
	fs.FileSystem
	rec *c19Rec
}

func (f c19SegFS) MkdirIfNotExist(p string, _ fs.Mode) { f.rec.dirs = append(f.rec.dirs, p) }
func (f c19SegFS) CreateHardLink(src, dst string, _ func(string) bool) error {
	f.rec.links = append(f.rec.links, src+"->"+dst)
	return nil
}

//verif:harness prop=C19 tier=quick,thorough reach=snapshotted paths=200000
// Snapshot of an OPEN segment: the segment is pinned for the duration and released afterwards;
// its metadata file is linked, its series index is snapshotted, and EVERY shard is asked to
// snapshot into its own directory of the copy - a shard that has nothing to snapshot yet is
// skipped without ending the walk, so the shards after it are still copied; any other shard
// failure fails the whole snapshot; a segment flagged for deletion is not snapshotted at all.
// bound: 1..3 shards, each: has data | nothing to snapshot yet | fails; segment open, flagged for deletion or not
func VerifH_C19_OpenSegmentSnapshotCoversEveryShard() {
	rec := &c19Rec{}
	n := 1 + zzverif.Choice("shards", 3)
	s := &segment[c19Table, struct{}]{
		location: "/db/seg-20240101", suffix: "20240101", lfs: c19SegFS{rec: rec}, l: logger.GetLogger("c19"),
		TimeRange: timestamp.NewSectionTimeRange(time.Unix(0, c06Min), time.Unix(0, c06Min+int64(time.Hour))),
	}
	s.index = &seriesIndex{store: c19Store{rec: rec}}
	var shards []*shard[c19Table]
	for i := 0; i < n; i++ {
		k := 0
		for sym := zzverif.Choice("shard outcome", 3); k < 2 && sym != k; {
			k++
		}
		rec.outcome = append(rec.outcome, k)
		shards = append(shards, &shard[c19Table]{table: c19Table{rec: rec, id: i}, location: "/db/seg-20240101/shard-" + string(rune('0'+i)), id: common.ShardID(i)})
	}
	s.sLst.Store(&shards)
	flagged := zzverif.Bool("flagged for deletion")
	if flagged {
		s.mustBeDeleted = 1
	}
	ok, err := s.snapshotInto("/snap")
	zzverif.Reach("snapshotted")
	zzverif.Assert(s.refCount == 0, "the pin taken for the snapshot is released")
	if flagged {
		zzverif.Assert(!ok && err == nil && len(rec.asked) == 0 && len(rec.links) == 0, "a segment flagged for deletion is not snapshotted")
		return
	}
	firstFail := -1
	for i, o := range rec.outcome {
		if o == 2 {
			firstFail = i
			break
		}
	}
	zzverif.Assert(len(rec.links) == 1 && rec.links[0] == "/db/seg-20240101/metadata->/snap/seg-20240101/metadata", "the segment metadata is linked into the copy")
	zzverif.Assert(len(rec.index) == 1 && rec.index[0] == "/snap/seg-20240101/"+seriesIndexDirName, "the series index is snapshotted into the copy")
	want := n
	if firstFail >= 0 {
		want = firstFail + 1
		zzverif.Assert(err != nil && !ok, "a failing shard fails the segment snapshot")
	} else {
		zzverif.Assert(err == nil && ok, "the snapshot succeeds when no shard fails")
	}
	zzverif.Assert(len(rec.asked) == want, "every shard (up to a failing one) is asked to snapshot, empty ones do not end the walk")
	for i := 0; i < want && i < len(rec.asked); i++ {
		zzverif.Assert(rec.asked[i] == "/snap/seg-20240101/shard-"+string(rune('0'+i)), "each shard snapshots into its own directory of the copy")
	}
}

// ---- a CLOSED segment: the copy versus a concurrent reopen ----

var (
	c19Copying     bool
	c19OpenedInCopy bool
	c19Copied      int
)

func c19StubInitialize(s *c06Seg, _ context.Context) error {
	if s.index != nil {
		return nil
	}
	if c19Copying {
		c19OpenedInCopy = true
	}
	s.index = &seriesIndex{store: c19Store{rec: &c19Rec{}}}
	return nil
}

func c19StubMkdirIfNotExist(_ fs.FileSystem, _ string, _ fs.Mode) {}

func c19StubHardLink(_ fs.FileSystem, _, _ string, _ func(string) bool) error {
	c19Copying = true
	zzverif.Yield() // the directory walk takes time: other threads may run
	zzverif.Yield()
	c19Copying = false
	c19Copied++
	return nil
}

//verif:harness prop=C19,C14 tier=quick,thorough reach=finished native=off paths=2000000 depth=400 redirect=segment.initialize:c19StubInitialize,seriesIndex.Close:c14StubIndexClose,localFileSystem.CreateHardLink:c19StubHardLink,localFileSystem.MkdirIfNotExist:c19StubMkdirIfNotExist
// Snapshot of an idle-CLOSED segment versus a concurrent write/query that reopens it, under every
// interleaving: the whole-directory hard link of the closed segment never overlaps with the
// reopening of that segment (a reopen writes index and lock files into the directory being
// copied), the reopen simply waits or comes first; the holder gets an open segment, nothing
// deadlocks, and all references are returned.
// bound: one closed segment; threads: one snapshot, one acquire-use-release; every interleaving of their atomic and mutex operations (the copy itself spans two scheduling points)
// assume: sequential consistency of sync/atomic and mutex operations
func VerifH_C19_ClosedSegmentCopyExcludesReopen() {
	c19Copying, c19OpenedInCopy, c19Copied = false, false, 0
	s := &c06Seg{
		location: "/db/seg-20240101", suffix: "20240101", lfs: fs.NewLocalFileSystem(), l: logger.GetLogger("c19"),
		tsdbOpts:  &TSDBOpts[c06Table, struct{}]{ShardNum: 1},
		TimeRange: timestamp.NewSectionTimeRange(time.Unix(0, c06Min), time.Unix(0, c06Min+int64(time.Hour))),
	}
	var snapOK bool
	var snapErr error
	snap := func() { snapOK, snapErr = s.snapshotInto("/snap") }
	holder := func() {
		if err := s.incRef(context.Background()); err != nil {
			return
		}
		zzverif.Assert(s.index != nil, "a held segment is open")
		s.DecRef()
	}
	zzverif.Par(snap, holder)
	zzverif.Reach("finished")
	zzverif.Assert(!c19OpenedInCopy, "a closed segment is never reopened while its directory is being hard-linked")
	zzverif.Assert(snapErr == nil, "the snapshot does not fail")
	_ = snapOK
	zzverif.Assert(s.refCount == 0, "all references are returned")
}
