//go:build verif

// verif:dir pkg/fs
package fs

import (
	"os"
	"path/filepath"
	"time"

	"github.com/apache/skywalking-banyandb/pkg/zzverif"
)

// ---- a model directory tree behind os.Stat / filepath.Walk / os.Link ----

type c19Node struct {
	name     string
	dir      bool
	children []*c19Node // in lexical order, as readDirNames returns them
}

type c19Info struct {
	name string
	dir  bool
}

func (i c19Info) Name() string { return i.name }
func (i c19Info) Size() int64  { return 0 }
func (i c19Info) Mode() os.FileMode {
	if i.dir {
		return os.ModeDir | 0o755
	}
	return 0o644
}
func (i c19Info) ModTime() time.Time { return time.Time{} }
func (i c19Info) IsDir() bool        { return i.dir }
func (i c19Info) Sys() any           { return nil }

var (
	c19Root   *c19Node
	c19Linked map[string]bool
	c19Dirs   map[string]bool
)

func c19StubStat(string) (os.FileInfo, error) { return c19Info{name: c19Root.name, dir: true}, nil }
func c19StubMkdirAll(p string, _ os.FileMode) error {
	c19Dirs[p] = true
	return nil
}
func c19StubSyncPath(_ *localFileSystem, _ string) {}
func c19StubLink(src, dst string) error {
	c19Linked[src+"->"+dst] = true
	return nil
}

// c19Walk is filepath.Walk over the model tree, with the documented treatment of SkipDir:
// returned for a directory it skips that directory; returned for a file it skips the REST of
// the containing directory.
func c19WalkNode(path string, n *c19Node, fn filepath.WalkFunc) error {
	info := c19Info{name: n.name, dir: n.dir}
	if !n.dir {
		return fn(path, info, nil)
	}
	if err := fn(path, info, nil); err != nil {
		return err
	}
	for _, c := range n.children {
		if err := c19WalkNode(path+"/"+c.name, c, fn); err != nil {
			if !c.dir || err != filepath.SkipDir {
				return err
			}
		}
	}
	return nil
}

func c19StubWalk(root string, fn filepath.WalkFunc) error {
	err := c19WalkNode(root, c19Root, fn)
	if err == filepath.SkipDir || err == filepath.SkipAll {
		return nil
	}
	return err
}

//verif:harness prop=C19 tier=quick,thorough reach=linked native=off paths=400000 redirect=os.Stat:c19StubStat,os.MkdirAll:c19StubMkdirAll,os.Link:c19StubLink,filepath.Walk:c19StubWalk,localFileSystem.SyncPath:c19StubSyncPath
// Hard-linking a directory tree with a filter (the copy of an idle-closed segment): exactly the
// files the filter accepts that do not sit under a rejected directory are linked, each under
// the same relative path - a rejected FILE (a stale .tmp, a lock file) never hides the entries
// that sort after it in the same directory, a rejected directory hides exactly its subtree.
// bound: a root with 3 entries in lexical order, each a file or a directory with 2 files, each entry and each nested file accepted or rejected by the filter (symbolic)
func VerifH_C19_FilteredHardLinkCopiesExactlyTheAcceptedFiles() {
	c19Linked, c19Dirs = map[string]bool{}, map[string]bool{}
	rejected := map[string]bool{}
	c19Root = &c19Node{name: "seg", dir: true}
	var files []string // every file path with the verdict of the filter chain
	want := map[string]bool{}
	for _, name := range []string{"a", "b", "c"} {
		n := &c19Node{name: name}
		p := "/src/" + name
		rej := zzverif.Bool("entry rejected")
		if rej {
			rejected[p] = true
		}
		if zzverif.Bool("entry is a directory") {
			n.dir = true
			for _, sub := range []string{"x", "y"} {
				sp := p + "/" + sub
				n.children = append(n.children, &c19Node{name: sub})
				srej := zzverif.Bool("nested file rejected")
				if srej {
					rejected[sp] = true
				}
				files = append(files, sp)
				want[sp] = !rej && !srej
			}
		} else {
			files = append(files, p)
			want[p] = !rej
		}
		c19Root.children = append(c19Root.children, n)
	}
	err := (&localFileSystem{}).CreateHardLink("/src", "/dst", func(p string) bool { return !rejected[p] })
	zzverif.Reach("linked")
	zzverif.Assert(err == nil, "the copy succeeds")
	n := 0
	for _, f := range files {
		dst := "/dst" + f[len("/src"):]
		zzverif.Assert(c19Linked[f+"->"+dst] == want[f], "a file is linked, under the same relative path, exactly when the filter accepts it and every directory above it")
		if want[f] {
			n++
		}
	}
	zzverif.Assert(len(c19Linked) == n, "nothing else is linked")
}
