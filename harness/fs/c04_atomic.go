//go:build verif

// verif:dir pkg/fs
package fs

import (
	"errors"
	"os"

	"github.com/apache/skywalking-banyandb/pkg/zzverif"
)

// ---- crash/fault model of the operating system calls used by WriteAtomic (symbolic only) ----
//
// One directory with two names, `name` (inode F if it existed before) and `name.tmp` (inode T).
// Each inode has a page-cache content and a durable content; the directory has a volatile and a
// durable view. fsync(file) makes the inode's content durable, fsync(dir) makes the directory
// view durable. At a crash (power loss), directory changes that were not fsynced may or may not
// have reached the disk, and an inode whose content was not fsynced holds its old durable
// content, its new content or a torn mixture. rename is atomic.
const (
	c04Absent = iota
	c04Old
	c04New
	c04Empty
	c04Torn
)

type c04Crash struct{}

var (
	c04Ops, c04CrashAt       int
	c04FailAt                int
	c04TmpV                  bool // name.tmp in the volatile directory view
	c04TmpCache, c04TmpDisk  int
	c04FinalV, c04FinalD     int // 0 none, 1 inode F (old content), 2 inode T
	c04StaleTmp, c04Dirty    bool // a longer name.tmp left by an earlier crash; opened without truncation
	c04TheFile               = &os.File{}
	c04Err                   = errors.New("injected fault")
)

func c04Step() bool {
	if c04Ops == c04CrashAt {
		panic(c04Crash{})
	}
	fail := c04Ops == c04FailAt
	c04Ops++
	return fail
}

func c04OpenFile(_ string, flag int, _ os.FileMode) (*os.File, error) {
	if c04Step() {
		return nil, c04Err
	}
	if flag&os.O_CREATE == 0 && !c04StaleTmp {
		return nil, c04Err // no such file
	}
	if flag&(os.O_WRONLY|os.O_RDWR) == 0 {
		return nil, c04Err
	}
	c04Dirty = c04StaleTmp && flag&os.O_TRUNC == 0 // the stale, longer content stays behind what is written
	c04TmpV, c04TmpCache, c04TmpDisk = true, c04Empty, c04Empty
	if c04Dirty {
		c04TmpCache, c04TmpDisk = c04Torn, c04Torn
	}
	return c04TheFile, nil
}
func c04Write(_ *os.File, b []byte) (int, error) {
	if c04Step() {
		c04TmpCache = c04Torn
		return 0, c04Err
	}
	c04TmpCache = c04New
	if c04Dirty {
		c04TmpCache = c04Torn // new bytes followed by the tail of the stale file
	}
	return len(b), nil
}
func c04Sync(*os.File) error {
	if c04Step() {
		return c04Err
	}
	c04TmpDisk = c04TmpCache
	return nil
}
func c04Close(*os.File) error {
	if c04Step() {
		return c04Err
	}
	return nil
}
func c04Rename(string, string) error {
	if c04Step() {
		return c04Err
	}
	c04FinalV, c04TmpV = 2, false
	return nil
}
func c04Remove(string) error {
	c04Step()
	c04TmpV = false
	return nil
}
func c04SyncDir(string) error {
	if c04Step() {
		return c04Err
	}
	c04FinalD = c04FinalV
	return nil
}

//verif:harness prop=C04 tier=quick,thorough reach=crashed,returned native=off paths=200000 redirect=os.OpenFile:c04OpenFile,os.File.Write:c04Write,os.File.Sync:c04Sync,os.File.Close:c04Close,os.Rename:c04Rename,os.Remove:c04Remove,syncDir:c04SyncDir
// WriteAtomic is atomic and durable under power loss: whatever the crash point (before any system
// call of the sequence) and whatever single system call fails, the durable content of the target
// name is either exactly the old content (or absent if it did not exist) or exactly the complete
// new content - never empty, torn or missing - for every outcome of un-fsynced directory updates
// and un-fsynced file data; and when WriteAtomic returns nil the new content is durable.
// bound: one WriteAtomic call (open, write, fsync, close, rename, fsync-dir, plus cleanup removes); crash before any one call; at most one failing call; target existed before or not; a stale, longer name.tmp left by an earlier crash present or not (the open flags decide whether its tail survives)
// assume: rename is atomic; fsync(file)/fsync(dir) make content/directory durable; data and directory updates not fsynced may or may not survive, independently
// outside: behaviour of a real kernel/file system beyond this model
func VerifH_C04_WriteAtomicCrash() {
	hadOld := zzverif.Bool("target existed")
	c04Ops, c04CrashAt, c04FailAt = 0, zzverif.Choice("crash before call", 9), zzverif.Choice("failing call", 9)
	if zzverif.Bool("no crash") {
		c04CrashAt = -1
	}
	if zzverif.Bool("no fault") {
		c04FailAt = -1
	}
	c04TmpV, c04TmpCache, c04TmpDisk = false, c04Absent, c04Absent
	c04StaleTmp, c04Dirty = zzverif.Bool("stale longer .tmp from an earlier crash"), false
	c04FinalV, c04FinalD = 0, 0
	if hadOld {
		c04FinalV, c04FinalD = 1, 1
	}
	var err error
	crashed := zzverif.Try(func() {
		_, err = (&localFileSystem{}).WriteAtomic([]byte("new"), "/d/name", 0o600)
	})
	// what is on disk after power loss
	finalD := c04FinalD
	if c04FinalV != c04FinalD && zzverif.Bool("unsynced rename reached the disk") {
		finalD = c04FinalV
	}
	tmpDurable := c04TmpDisk
	if c04TmpDisk != c04TmpCache {
		switch zzverif.Choice("unsynced data on disk", 3) {
		case 1:
			tmpDurable = c04TmpCache
		case 2:
			tmpDurable = c04Torn
		}
	}
	durable := c04Absent
	switch finalD {
	case 1:
		durable = c04Old
	case 2:
		durable = tmpDurable
	}
	before := c04Absent
	if hadOld {
		before = c04Old
	}
	if crashed {
		zzverif.Reach("crashed")
	} else {
		zzverif.Reach("returned")
	}
	zzverif.Assert(durable == before || durable == c04New, "after power loss the target holds exactly the old or exactly the new content (never torn, empty or lost)")
	if !crashed && err == nil {
		zzverif.Assert(durable == c04New, "when WriteAtomic returns nil the new content is durable")
	}
}
