//go:build verif

// verif:dir banyand/stream
package stream

import (
	modelv1 "github.com/apache/skywalking-banyandb/api/proto/banyandb/model/v1"
	"github.com/apache/skywalking-banyandb/pkg/convert"
	"github.com/apache/skywalking-banyandb/pkg/index"
	"github.com/apache/skywalking-banyandb/pkg/query/logical"
	"github.com/apache/skywalking-banyandb/pkg/zzverif"
)

// c08RangeFor builds the range options the query layer hands to block pruning for `tag op lit`
// (pkg/query/logical/stream parseConditionToFilter: GT (false,false,false), GE (false,true,false),
// LT (true,false,false), LE (true,false,true)); VerifH_C08_RangeOptsOfCondition checks that table
// against the real function.
func c08RangeFor(op int, lit int64) (index.RangeOpts, bool) {
	cond := &modelv1.Condition{Name: "t", Value: &modelv1.TagValue{Value: &modelv1.TagValue_Int{Int: &modelv1.Int{Value: lit}}}}
	expr, err := logical.ParseExpr(cond)
	if err != nil {
		return index.RangeOpts{}, false
	}
	switch op {
	case 0: // >
		return expr.RangeOpts(false, false, false), true
	case 1: // >=
		return expr.RangeOpts(false, true, false), true
	case 2: // <
		return expr.RangeOpts(true, false, false), true
	}
	return expr.RangeOpts(true, false, true), true // <=
}

func c08Holds(op int, v, lit int64) bool {
	switch op {
	case 0:
		return v > lit
	case 1:
		return v >= lit
	case 2:
		return v < lit
	}
	return v <= lit
}

//verif:harness prop=C08 tier=quick,thorough reach=pruned,kept paths=200000
// Block pruning by the per-block min/max of an int64 tag never hides a matching row: for a block
// whose stored values lie in [min,max] (metadata as the writer records it: the order-preserving
// 8-byte form of the smallest and greatest value) and any condition `tag > | >= | < | <= literal`
// turned into range options the way the query layer does, a block that holds a value satisfying
// the condition is not skipped.
// bound: one tag in one tag family; arbitrary int64 min <= v <= max and literal; the four range operators
func VerifH_C08_StreamMinMaxPruningIsSound() {
	mn, v, mx, lit := zzverif.Int64("min"), zzverif.Int64("v"), zzverif.Int64("max"), zzverif.Int64("lit")
	zzverif.Assume(mn <= v && v <= mx)
	op := zzverif.Choice("op", 4)
	opts, ok := c08RangeFor(op, lit)
	zzverif.Assert(ok, "an int literal parses")
	tff := tagFamilyFilter{"t": &tagFilter{min: convert.Int64ToBytes(mn), max: convert.Int64ToBytes(mx)}}
	tfs := &tagFamilyFilters{tagFamilyFilters: []*tagFamilyFilter{&tff}}
	skip, err := tfs.Range("t", opts)
	zzverif.Assert(err == nil, "range pruning accepts the query layer's range options")
	if skip {
		zzverif.Reach("pruned")
		zzverif.Assert(!c08Holds(op, v, lit), "a block holding a row that satisfies the range condition is not pruned")
	} else {
		zzverif.Reach("kept")
	}
	// a block with no such tag is never pruned by a range on it
	skip2, err2 := tfs.Range("other", opts)
	zzverif.Assert(err2 == nil && !skip2, "a tag without metadata in the block does not prune it")
}
