//go:build verif

// verif:dir banyand/stream
package stream

import (
	"github.com/apache/skywalking-banyandb/pkg/convert"
	pbv1 "github.com/apache/skywalking-banyandb/pkg/pb/v1"
	"github.com/apache/skywalking-banyandb/pkg/zzverif"
)

//verif:harness prop=C01,C11 tier=quick,thorough reach=array,scalar paths=400000
// Tag values as written are the tag values read back, at the point where a write is turned into
// stored bytes: a string-array tag (items may contain the item delimiter '|' and the escape
// '\' anywhere, may be empty) marshals to bytes that the query path decodes to the same items;
// an int-array tag likewise; and a pooled value holder that last held an array and is reused
// for a scalar tag stores the scalar (null vs empty vs data kept apart), not a stale array.
// bound: arrays of 1..2 items of 0..2 arbitrary bytes each (int arrays: arbitrary int64 items); scalar of 0..2 arbitrary bytes; one release/reuse cycle of the pooled holder
func VerifH_C01_TagValueMarshalRoundTrip() {
	for i := 0; i < 4; i++ { // start from an empty pool
		_ = generateTagValue()
	}
	nv := generateTagValue()
	nv.tag = "arr"
	n := 1 + zzverif.Choice("items", 2)
	isInt := zzverif.Bool("int array")
	var items [][]byte
	var ints []int64
	for i := 0; i < n; i++ {
		if isInt {
			v := zzverif.Int64("item")
			ints = append(ints, v)
			items = append(items, convert.Int64ToBytes(v))
		} else {
			items = append(items, zzverif.Bytes("item", zzverif.Choice("len", 3)))
		}
	}
	nv.valueArr = items
	nv.valueType = pbv1.ValueTypeStrArr
	if isInt {
		nv.valueType = pbv1.ValueTypeInt64Arr
	}
	stored := nv.marshal()
	got := mustDecodeTagValue(nv.valueType, stored)
	zzverif.Reach("array")
	if isInt {
		arr := got.GetIntArray().GetValue()
		zzverif.Assert(len(arr) == n, "an int array reads back with as many items as written")
		for i := range arr {
			if i < n {
				zzverif.Assert(arr[i] == ints[i], "an int array reads back item by item")
			}
		}
	} else {
		arr := got.GetStrArray().GetValue()
		zzverif.Assert(len(arr) == n, "a string array reads back with as many items as written")
		for i := range arr {
			if i < n {
				zzverif.Assert(arr[i] == string(items[i]), "a string array reads back item by item, delimiters and escapes included")
			}
		}
	}
	releaseTagValue(nv)
	// the holder comes back from the pool for a scalar tag
	sv := generateTagValue()
	sv.tag = "scalar"
	sv.valueType = pbv1.ValueTypeStr
	isNull := zzverif.Bool("scalar is null")
	var val []byte
	if !isNull {
		val = zzverif.Bytes("scalar", zzverif.Choice("scalar len", 3))
		if val == nil {
			val = []byte{}
		}
	}
	sv.value = val
	out := sv.marshal()
	zzverif.Reach("scalar")
	zzverif.Assert((out == nil) == isNull, "a scalar stored through a reused holder is null exactly when it was written null")
	zzverif.Assert(len(out) == len(val), "a scalar stored through a reused holder keeps its length")
	for i := range out {
		if i < len(val) {
			zzverif.Assert(out[i] == val[i], "a scalar stored through a reused holder keeps its bytes")
		}
	}
	if !isNull {
		zzverif.Assert(mustDecodeTagValue(pbv1.ValueTypeStr, out).GetStr().GetValue() == string(val), "…and reads back as written")
	}
}
