//go:build verif

// verif:dir banyand/stream
package stream

import (
	"runtime"
	"strings"
	"time"

	"github.com/apache/skywalking-banyandb/pkg/fs"
	"github.com/apache/skywalking-banyandb/pkg/zzverif"
)

// c04PubFS records the durable effects of a publication in the order they happen: a manifest
// written atomically, a part directory removed.
type c04PubFS struct {
	fs.FileSystem
	events []string // "M:<manifest document>" | "R:<path>"
}

func (f *c04PubFS) WriteAtomic(b []byte, _ string, _ fs.Mode) (int, error) {
	c04Settle() // natively: let directory removals that were already started (detached goroutines) land first
	f.events = append(f.events, "M:"+string(b))
	return len(b), nil
}
func (f *c04PubFS) MustRMAll(p string)        { f.events = append(f.events, "R:"+p) }
func (f *c04PubFS) DeleteFile(p string) error { return nil }

//verif:harness prop=C04,C03 tier=quick,thorough reach=published paths=200000
// Publication order of maintenance results: when the introducer applies a merge result, a
// removal of synced parts or a new file part, a part directory is deleted only AFTER a manifest
// that no longer lists it has been written - so that a crash at any point between the durable
// effects leaves a newest manifest all of whose parts still exist (recovery then serves exactly
// that manifest; deleting first would leave a manifest naming vanished parts and recovery would
// drop acknowledged rows). The manifest written lists exactly the parts of the new snapshot.
// bound: shard with 2..3 file parts, one introduction: merge of a non-empty subset into a new part | sync-removal of a non-empty subset | a new file part; no concurrent reader (the deletion then happens as early as the code allows)
func VerifH_C04_PartsAreDeletedOnlyAfterTheManifestDropsThem() {
	rec := &c04PubFS{}
	n := 2 + zzverif.Choice("parts", 2)
	tst := &tsTable{fileSystem: rec, root: "/shard"}
	tst.gc.init(tst)
	snp := &snapshot{epoch: 1, ref: 1}
	closes := new(int)
	for id := uint64(1); id <= uint64(n); id++ {
		rd := c04Reader{closes: closes}
		p := &part{primary: rd, timestamps: rd, fileSystem: rec, path: partPath("/shard", id)}
		p.partMetadata.ID = id
		snp.parts = append(snp.parts, newPartWrapper(nil, p))
	}
	tst.snapshot = snp
	manifest := "" // the manifest on disk before the introduction lists every part
	for id := uint64(1); id <= uint64(n); id++ {
		manifest += partName(id) + ","
	}
	subset := map[uint64]struct{}{}
	for id := uint64(1); id <= uint64(n); id++ {
		if zzverif.Bool("in the set") {
			subset[id] = struct{}{}
		}
	}
	newPart := func() *partWrapper {
		rd := c04Reader{closes: closes}
		p := &part{primary: rd, timestamps: rd, fileSystem: rec, path: partPath("/shard", 9)}
		p.partMetadata.ID = 9
		return newPartWrapper(nil, p)
	}
	kind := zzverif.Choice("introduction", 3)
	switch kind {
	case 0:
		zzverif.Assume(len(subset) > 0)
		tst.introduceMerged(&mergerIntroduction{merged: subset, newPart: newPart(), creator: snapshotCreatorMerger}, 2)
	case 1:
		zzverif.Assume(len(subset) > 0)
		tst.introduceSync(&syncIntroduction{synced: subset}, 2)
	default:
		subset = map[uint64]struct{}{}
		tst.introducePart(&introduction{part: newPart()}, 2)
	}
	c04Settle()
	zzverif.Reach("published")
	manifests := 0
	for _, ev := range rec.events {
		if strings.HasPrefix(ev, "M:") {
			manifest = ev[2:]
			manifests++
			for id := uint64(1); id <= uint64(n); id++ {
				_, gone := subset[id]
				zzverif.Assert(strings.Contains(manifest, partName(id)) == !gone, "the manifest lists exactly the surviving parts")
			}
			zzverif.Assert(strings.Contains(manifest, partName(9)) == (kind != 1), "the manifest lists the new part")
			continue
		}
		for id := uint64(1); id <= 9; id++ {
			if ev == "R:"+partPath("/shard", id) {
				zzverif.Assert(!strings.Contains(manifest, partName(id)), "a part directory is deleted only after a manifest that no longer lists it is durable")
				_, gone := subset[id]
				zzverif.Assert(gone, "only replaced parts are deleted")
			}
		}
	}
	zzverif.Assert(manifests == 1, "one manifest is written per publication")
	removed := 0
	for _, ev := range rec.events {
		if strings.HasPrefix(ev, "R:") {
			removed++
		}
	}
	zzverif.Assert(removed == len(subset), "every replaced part directory is deleted once its last holder is gone")
}

type c04Reader struct {
	fs.Reader
	closes *int
}

func (r c04Reader) Close() error { *r.closes++; return nil }
func (r c04Reader) Path() string { return "reader" }

// c04Settle lets the detached directory-removal goroutines finish (native runs only).
func c04Settle() {
	for i := 0; i < 50; i++ {
		runtime.Gosched()
	}
	time.Sleep(300 * time.Millisecond) // native only: lets the real deletion goroutines finish also on a loaded machine
}
