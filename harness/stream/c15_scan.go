//go:build verif

// verif:dir banyand/stream
package stream

import (
	"github.com/apache/skywalking-banyandb/pkg/convert"
	pbv1 "github.com/apache/skywalking-banyandb/pkg/pb/v1"
	"github.com/apache/skywalking-banyandb/pkg/query/model"
	"github.com/apache/skywalking-banyandb/pkg/query/vectorized"
	vstream "github.com/apache/skywalking-banyandb/pkg/query/vectorized/stream"
	"github.com/apache/skywalking-banyandb/pkg/zzverif"
	modelv1 "github.com/apache/skywalking-banyandb/api/proto/banyandb/model/v1"
)

func c15SameTag(a, b *modelv1.TagValue) bool {
	switch x := a.GetValue().(type) {
	case *modelv1.TagValue_Null:
		_, ok := b.GetValue().(*modelv1.TagValue_Null)
		return ok
	case *modelv1.TagValue_Int:
		y, ok := b.GetValue().(*modelv1.TagValue_Int)
		return ok && x.Int.GetValue() == y.Int.GetValue()
	case *modelv1.TagValue_Str:
		y, ok := b.GetValue().(*modelv1.TagValue_Str)
		return ok && x.Str.GetValue() == y.Str.GetValue()
	}
	return false
}

//verif:harness prop=C15 tier=quick,thorough reach=compared paths=400000
// The vectorized stream scan turns a loaded block into a batch holding exactly what the row
// path copies out of the same block: the same timestamps, element ids and series, and for
// every projected tag the same value row by row - the decoded value when the stored type is
// the schema's type, NULL when a block written under an older schema stores another type, NULL
// when the block has no such tag or fewer values than rows.
// bound: 1..2 rows, one tag family with two projected tags, stored as int64 | string | absent, schema type int64 | string | unknown, arbitrary values (strings of 0..2 bytes), value column shorter than the rows or not
func VerifH_C15_VectorScanEqualsRowCopy() {
	n := 1 + zzverif.Choice("rows", 2)
	proj := []model.TagProjection{{Family: "tf", Names: []string{"a", "b"}}}
	bc := &blockCursor{tagProjection: proj, schemaTagTypes: map[string]pbv1.ValueType{}}
	bc.bm.seriesID = 7
	for i := 0; i < n; i++ {
		bc.timestamps = append(bc.timestamps, zzverif.Int64("ts"))
		bc.elementIDs = append(bc.elementIDs, zzverif.Uint64("element id"))
	}
	tf := tagFamily{name: "tf"}
	for _, name := range []string{"a", "b"} {
		t := tag{name: name}
		stored := zzverif.Choice("stored as", 3)
		switch stored {
		case 0:
			t.valueType = pbv1.ValueTypeInt64
		case 1:
			t.valueType = pbv1.ValueTypeStr
		}
		rows := n
		if zzverif.Bool("short column") {
			rows = n - 1
		}
		for i := 0; i < rows && stored < 2; i++ {
			if stored == 0 {
				t.values = append(t.values, convert.Int64ToBytes(zzverif.Int64("int value")))
			} else {
				t.values = append(t.values, zzverif.Bytes("str value", zzverif.Choice("len", 3)))
			}
		}
		switch zzverif.Choice("schema type", 3) {
		case 0:
			bc.schemaTagTypes[name] = pbv1.ValueTypeInt64
		case 1:
			bc.schemaTagTypes[name] = pbv1.ValueTypeStr
		}
		tf.tags = append(tf.tags, t)
	}
	bc.tagFamilies = []tagFamily{tf}
	// row path
	row := &model.StreamResult{}
	bc.copyAllTo(row, false)
	// vectorized path
	schema := vstream.BuildStreamBatchSchema(proj, "", "")
	v := &streamVecScan{schema: schema, batchSize: 16}
	batch, err := v.cursorToBatch(bc, 0)
	zzverif.Reach("compared")
	zzverif.Assert(err == nil && batch != nil && batch.Len == n && len(row.Timestamps) == n, "both paths produce one entry per row")
	if err != nil || batch == nil || batch.Len != n || len(row.Timestamps) != n {
		return
	}
	ts := batch.Columns[schema.TimestampIndex()].(*vectorized.TypedColumn[int64]).Data()
	el := batch.Columns[schema.ElementIDIndex()].(*vectorized.TypedColumn[int64]).Data()
	for i := 0; i < n; i++ {
		zzverif.Assert(ts[i] == row.Timestamps[i], "same timestamps")
		zzverif.Assert(el[i] == vstream.ElementIDToColumn(row.ElementIDs[i]), "same element ids")
	}
	for j, name := range []string{"a", "b"} {
		idx, ok := schema.TagIndex("tf", name)
		zzverif.Assert(ok, "a projected tag has a column")
		if !ok {
			continue
		}
		col := batch.Columns[idx].(*vectorized.TypedColumn[*modelv1.TagValue]).Data()
		rv := row.TagFamilies[0].Tags[j].Values
		zzverif.Assert(len(col) == n && len(rv) == n, "one value per row on both paths")
		for i := 0; i < n && i < len(col) && i < len(rv); i++ {
			zzverif.Assert(c15SameTag(rv[i], col[i]), "the vectorized scan yields the value the row path yields (NULL for a stored type that is not the schema's)")
		}
	}
}
