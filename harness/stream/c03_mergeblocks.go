//go:build verif

// verif:dir banyand/stream
package stream

import (
	"github.com/apache/skywalking-banyandb/api/common"
	"github.com/apache/skywalking-banyandb/pkg/encoding"
	pbv1 "github.com/apache/skywalking-banyandb/pkg/pb/v1"
	"github.com/apache/skywalking-banyandb/pkg/zzverif"
)

type c03Src struct {
	sid        common.SeriesID
	timestamps []int64
	ids        []uint64
	values     []string
	encoded    []byte
}

type c03Row struct {
	sid   common.SeriesID
	ts    int64
	id    uint64
	value string
}

var (
	c03Sources []c03Src
	c03Next    int
	c03Written []c03Row
)

func c03StubNextBlockMetadata(br *blockReader) bool {
	if c03Next >= len(c03Sources) {
		return false
	}
	s := &c03Sources[c03Next]
	c03Next++
	br.block = &blockPointer{}
	br.block.bm.seriesID = s.sid
	br.block.bm.count = uint64(len(s.timestamps))
	br.block.bm.timestamps.min = s.timestamps[0]
	br.block.bm.timestamps.max = s.timestamps[len(s.timestamps)-1]
	for _, v := range s.values {
		br.block.bm.uncompressedSizeBytes += 16 + uint64(len(v))
	}
	return true
}

// c03StubLoadBlockData: the string tag's values are decoded by the REAL bytes-block decoder the
// merge loop hands in, as tag.mustReadValues does, so they alias that decoder's buffer.
func c03StubLoadBlockData(br *blockReader, decoder *encoding.BytesBlockDecoder) {
	s := &c03Sources[c03Next-1]
	b := &br.block.block
	b.timestamps = append(b.timestamps[:0], s.timestamps...)
	b.elementIDs = append(b.elementIDs[:0], s.ids...)
	vals, err := decoder.Decode(nil, s.encoded, uint64(len(s.values)))
	if err != nil {
		panic(err)
	}
	b.tagFamilies = []tagFamily{{name: "tf", tags: []tag{{name: "s", valueType: pbv1.ValueTypeStr, values: vals}}}}
}

func c03StubReaderError(_ *blockReader) error { return nil }

func c03StubWriteBlock(_ *blockWriter, sid common.SeriesID, b *block) {
	for i, ts := range b.timestamps {
		c03Written = append(c03Written, c03Row{sid: sid, ts: ts, id: b.elementIDs[i], value: string(b.tagFamilies[0].tags[0].values[i])})
	}
}

func c03StubWriterFlush(_ *blockWriter, _ *partMetadata, _ *tagType) {}

//verif:harness prop=C03 tier=quick,thorough reach=merged native=off paths=400000 redirect=blockReader.nextBlockMetadata:c03StubNextBlockMetadata,blockReader.loadBlockData:c03StubLoadBlockData,blockReader.error:c03StubReaderError,blockWriter.mustWriteBlock:c03StubWriteBlock,blockWriter.Flush:c03StubWriterFlush
// The stream merge loop over the blocks of several parts writes every input element exactly
// once, with the tag value it was stored with and under its own series - also when a merged
// block outgrows the block-size limit and is written early (nothing of it may be written again
// with the next block, and what is kept for the next round keeps its bytes while the value
// decoder goes back to its pool).
// patch: banyand/stream/stream.go | maxUncompressedBlockSize        = 2 * 1024 * 1024 | maxUncompressedBlockSize        = 96
// bound: 3..4 source blocks of one or more series with 2..3 elements each (thorough 1..4), distinct element ids, timestamps interleaving or not, one string tag with values of 2 or 24 bytes (all short | all long | short then long); block-size limit reduced from 2 MiB to 96 bytes by the source patch above; block source/sink are stubs
func VerifH_C03_StreamMergeLoopWritesEveryElementOnce() {
	for i := 0; i < 8; i++ {
		_ = generateColumnValuesDecoder()
	}
	n := 3 + zzverif.Choice("blocks", 2)
	sizes := zzverif.Choice("value sizes", 3)
	c03Sources, c03Next, c03Written = nil, 0, nil
	want := map[uint64]c03Row{}
	ts := int64(0)
	sid := common.SeriesID(1)
	id := uint64(0)
	for b := 0; b < n; b++ {
		if b > 0 && zzverif.Bool("next series") {
			sid++
			ts = 0
		}
		rows := 2 + zzverif.Choice("rows", 2)
		if zzverif.Thorough() {
			rows = 1 + zzverif.Choice("rows", 4)
		}
		long := sizes == 1 || (sizes == 2 && b >= 2)
		src := c03Src{sid: sid}
		var raw [][]byte
		start := ts + 1
		if b > 0 && src.sid == c03Sources[b-1].sid && zzverif.Bool("overlaps the previous block") {
			start = c03Sources[b-1].timestamps[0] + 1
		}
		for r := 0; r < rows; r++ {
			t := start + int64(2*r)
			id++
			v := string(rune('a'+b)) + string(rune('0'+r))
			if long {
				v += "xxxxxxxxxxxxxxxxxxxxxx"
			}
			src.timestamps = append(src.timestamps, t)
			src.ids = append(src.ids, id)
			src.values = append(src.values, v)
			raw = append(raw, []byte(v))
			want[id] = c03Row{sid: src.sid, ts: t, id: id, value: v}
			if t > ts {
				ts = t
			}
		}
		src.encoded = encoding.EncodeBytesBlock(nil, raw)
		c03Sources = append(c03Sources, src)
	}
	_, _, err := mergeBlocks(make(chan struct{}), &blockWriter{}, &blockReader{}, nil)
	zzverif.Reach("merged")
	zzverif.Assert(err == nil, "the merge loop succeeds")
	zzverif.Assert(len(c03Written) == len(want), "every input element is written exactly once")
	seen := map[uint64]bool{}
	for _, w := range c03Written {
		zzverif.Assert(!seen[w.id], "no element is written twice")
		seen[w.id] = true
		o := want[w.id]
		zzverif.Assert(w.sid == o.sid && w.ts == o.ts, "a merged element keeps its series and timestamp")
		zzverif.Assert(w.value == o.value, "a merged element carries the tag value it was stored with")
	}
}
