//go:build verif

// verif:dir banyand/stream
package stream

import (
	"github.com/apache/skywalking-banyandb/api/common"
	"github.com/apache/skywalking-banyandb/pkg/fs"
	"github.com/apache/skywalking-banyandb/pkg/index"
	"github.com/apache/skywalking-banyandb/pkg/zzverif"
)

var (
	c08PrimaryContent [][]blockMetadata
	c08CurBlockName   string
	c08SkipBlock      map[string]bool
)

// c08StubReadPrimary stands for reading one primary index block: it returns, like the real
// decoder, only the blocks of wanted series.
func c08StubReadPrimary(pi *partIter, bms []blockMetadata, mr *primaryBlockMetadata) ([]blockMetadata, error) {
	for _, b := range c08PrimaryContent[mr.offset] {
		for _, w := range pi.sids {
			if w == b.seriesID {
				bms = append(bms, b)
			}
		}
	}
	return bms, nil
}

// c08StubFiltersUnmarshal stands for loading a block's tag filters (bloom filters, min/max):
// it remembers which block is being looked at (the block is named by its only tag family).
func c08StubFiltersUnmarshal(_ *tagFamilyFilters, tagFamilies map[string]*dataBlock, _, _, _ map[string]fs.Reader) {
	for name := range tagFamilies {
		c08CurBlockName = name
	}
}

// c08BlockFilter is a skipping-index filter whose verdict per block is chosen by the harness.
type c08BlockFilter struct{ index.Filter }

func (c08BlockFilter) ShouldSkip(index.FilterOp) (bool, error) { return c08SkipBlock[c08CurBlockName], nil }

//verif:harness prop=C08,C09 tier=quick,thorough reach=iterated native=off paths=2000000 redirect=partIter.readPrimaryBlock:c08StubReadPrimary,tagFamilyFilters.unmarshal:c08StubFiltersUnmarshal
// Scanning one stream part for a query: for ANY layout of the part's blocks into primary index
// blocks, any sorted list of wanted series, any time window and any verdict of the block-level
// skipping filter, the part iterator yields exactly the blocks whose series is wanted, whose time
// range intersects the window and which the filter does not rule out - each once, in order. In
// particular a block ruled out by the filter hides only itself, not the later blocks of the
// same series.
// bound: 1..3 blocks (thorough 1..4) over series {1,2,3} in writing order (series non-decreasing, per series disjoint increasing time ranges), primary index blocks cut after any block, wanted series = any subset of {1,2,3} (thorough {1,2,3,4}), arbitrary window, per block: skipped by the filter or not, filter present or not
func VerifH_C08_StreamPartIteratorYieldsExactlyTheMatchingBlocks() {
	maxN := 3
	if zzverif.Thorough() {
		maxN = 4
	}
	n := 1 + zzverif.Choice("blocks", maxN)
	var blocks []blockMetadata
	c08SkipBlock = map[string]bool{}
	sid := common.SeriesID(1)
	withFilter := zzverif.Bool("block filter present")
	for i := 0; i < n; i++ {
		if i > 0 && sid < 3 && zzverif.Bool("next series") {
			sid++
			if sid < 3 && zzverif.Bool("skip a series") {
				sid++
			}
		}
		var bm blockMetadata
		bm.seriesID = sid
		bm.timestamps.min, bm.timestamps.max = zzverif.Int64("min"), zzverif.Int64("max")
		zzverif.Assume(bm.timestamps.min <= bm.timestamps.max)
		if i > 0 && blocks[i-1].seriesID == sid {
			zzverif.Assume(blocks[i-1].timestamps.max < bm.timestamps.min)
		}
		bm.count = uint64(i + 1) // identifies the block
		name := "blk" + string(rune('0'+i))
		bm.tagFamilies = map[string]*dataBlock{name: {}}
		if withFilter && zzverif.Bool("ruled out by the filter") {
			c08SkipBlock[name] = true
		}
		blocks = append(blocks, bm)
	}
	c08PrimaryContent = nil
	var pbms []primaryBlockMetadata
	start := 0
	for i := 0; i < n; i++ {
		if i == n-1 || zzverif.Bool("primary block cut") {
			var pbm primaryBlockMetadata
			pbm.seriesID = blocks[start].seriesID
			pbm.minTimestamp, pbm.maxTimestamp = blocks[start].timestamps.min, blocks[start].timestamps.max
			for _, b := range blocks[start+1 : i+1] {
				pbm.minTimestamp = zzverif.IteI(b.timestamps.min < pbm.minTimestamp, b.timestamps.min, pbm.minTimestamp)
				pbm.maxTimestamp = zzverif.IteI(b.timestamps.max > pbm.maxTimestamp, b.timestamps.max, pbm.maxTimestamp)
			}
			pbm.offset = uint64(len(pbms))
			pbms = append(pbms, pbm)
			c08PrimaryContent = append(c08PrimaryContent, append([]blockMetadata(nil), blocks[start:i+1]...))
			start = i + 1
		}
	}
	var sids []common.SeriesID
	wanted := map[common.SeriesID]bool{}
	maxWanted := common.SeriesID(3)
	if zzverif.Thorough() {
		maxWanted = 4
	}
	for s := common.SeriesID(1); s <= maxWanted; s++ {
		if zzverif.Bool("series wanted") {
			sids = append(sids, s)
			wanted[s] = true
		}
	}
	zzverif.Assume(len(sids) > 0)
	begin, end := zzverif.Int64("begin"), zzverif.Int64("end")
	p := &part{primaryBlockMetadata: pbms}
	pi := &partIter{}
	var flt index.Filter
	if withFilter {
		flt = c08BlockFilter{}
	}
	pi.init(&blockMetadataArray{}, p, sids, begin, end, flt)
	var got []uint64
	for steps := 0; steps < 12 && pi.nextBlock(); steps++ {
		got = append(got, pi.curBlock.count)
	}
	zzverif.Reach("iterated")
	zzverif.Assert(pi.error() == nil, "the scan ends without error")
	k := 0
	for i, b := range blocks {
		match := false
		if wanted[b.seriesID] && !c08SkipBlock["blk"+string(rune('0'+i))] {
			match = zzverif.And(b.timestamps.min <= end, b.timestamps.max >= begin)
		}
		yielded := k < len(got) && got[k] == b.count
		zzverif.Assert(yielded == match, "a block is yielded exactly when its series is wanted, its time range intersects the window and the block filter does not rule it out")
		if yielded {
			k++
		}
	}
	zzverif.Assert(k == len(got), "nothing else is yielded")
}
