//go:build verif

// verif:dir pkg/query/logical/stream
package stream

import (
	databasev1 "github.com/apache/skywalking-banyandb/api/proto/banyandb/database/v1"
	modelv1 "github.com/apache/skywalking-banyandb/api/proto/banyandb/model/v1"
	"github.com/apache/skywalking-banyandb/pkg/index"
	"github.com/apache/skywalking-banyandb/pkg/query/logical"
)

// VerifBuildLocalFilter gives the storage-side harness (banyand/stream) the query compiler's
// real criteria -> index filter translation.
func VerifBuildLocalFilter(criteria *modelv1.Criteria, schema logical.Schema, entityDict map[string]int,
	entity []*modelv1.TagValue, indexRuleType databasev1.IndexRule_Type,
) (index.Filter, [][]*modelv1.TagValue, error) {
	return buildLocalFilter(criteria, schema, entityDict, entity, indexRuleType)
}
