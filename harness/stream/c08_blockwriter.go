//go:build verif

// verif:dir banyand/stream
package stream

import (
	"github.com/apache/skywalking-banyandb/api/common"
	"github.com/apache/skywalking-banyandb/pkg/zzverif"
)

type c08Primary struct {
	sidFirst common.SeriesID
	min, max int64
}

var (
	c08Blocks    []c08Primary // the block about to be written: its series and time range
	c08NextBlock int
	c08Primaries []c08Primary
)

// c08StubWriteTo stands for writing the block's columns: the metadata gets the block's series,
// row count and timestamp range, as the real function computes them from the rows.
func c08StubWriteTo(_ *block, sid common.SeriesID, bm *blockMetadata, _ *writers) {
	bm.reset()
	b := c08Blocks[c08NextBlock]
	c08NextBlock++
	bm.seriesID = sid
	bm.count = 1
	bm.timestamps.min, bm.timestamps.max = b.min, b.max
}
func c08StubLen(_ *block) int { return 1 }
func c08StubPrimaryWrite(_ *primaryBlockMetadata, _ []byte, sidFirst common.SeriesID, minTS, maxTS int64, _ *writers) {
	c08Primaries = append(c08Primaries, c08Primary{sidFirst, minTS, maxTS})
}

//verif:harness prop=C08,C01 tier=quick,thorough reach=written native=off paths=400000 redirect=block.mustWriteTo:c08StubWriteTo,block.Len:c08StubLen,primaryBlockMetadata.mustWriteBlock:c08StubPrimaryWrite
// Pruning metadata written with a stream part is sound: every primary index block records the
// first series and a time range that COVERS every block indexed under it (queries skip a whole
// primary block whose range misses the query window), and the part's own range covers every
// block of the part - for any sequence of blocks and wherever the primary block is cut.
// bound: 2..4 blocks in writing order (series non-decreasing, per series first timestamps non-decreasing), arbitrary [min,max] per block, the primary block cut after any block (symbolic); column writing is a stub that reports each block's range
func VerifH_C08_PrimaryBlockRangeCoversItsBlocks() {
	n := 2 + zzverif.Choice("blocks", 3)
	c08Blocks, c08NextBlock, c08Primaries = nil, 0, nil
	bw := &blockWriter{tagType: tagType{}}
	var cuts []int // index of the last block of each primary block
	sid := common.SeriesID(1)
	for i := 0; i < n; i++ {
		if i > 0 && zzverif.Bool("next series") {
			sid++
		}
		mn, mx := zzverif.Int64("min"), zzverif.Int64("max")
		zzverif.Assume(mn <= mx)
		if i > 0 && c08Blocks[i-1].sidFirst == sid {
			zzverif.Assume(c08Blocks[i-1].min <= mn)
		}
		c08Blocks = append(c08Blocks, c08Primary{sid, mn, mx})
		bw.mustWriteBlock(sid, &block{})
		if i == n-1 || zzverif.Bool("primary block cut here") {
			bw.mustFlushPrimaryBlock([]byte{1})
			cuts = append(cuts, i)
		}
	}
	zzverif.Reach("written")
	zzverif.Assert(len(c08Primaries) == len(cuts), "one primary index entry per cut")
	start := 0
	for k, end := range cuts {
		if k >= len(c08Primaries) {
			break
		}
		p := c08Primaries[k]
		zzverif.Assert(p.sidFirst == c08Blocks[start].sidFirst, "a primary block records its first series")
		for i := start; i <= end; i++ {
			zzverif.Assert(p.min <= c08Blocks[i].min && p.max >= c08Blocks[i].max, "a primary block's time range covers every block indexed under it")
		}
		start = end + 1
	}
	for _, b := range c08Blocks {
		zzverif.Assert(bw.totalMinTimestamp <= b.min && bw.totalMaxTimestamp >= b.max, "the part's time range covers every block")
	}
	zzverif.Assert(bw.totalCount == uint64(n) && bw.totalBlocksCount == uint64(n), "the part counts every block and row")
}
