//go:build verif

// verif:dir banyand/stream
package stream

import (
	"github.com/apache/skywalking-banyandb/pkg/zzverif"
)

type c05MergeCall struct {
	parts  []uint64
	segs   []int64
	merged []uint64
}

var c05MergeCalls []c05MergeCall

func c05StubMergeThenIntroduce(_ *tsTable, _ snapshotCreator, parts []*partWrapper, merged map[uint64]struct{}, _ chan *mergerIntroduction,
	_ <-chan struct{}, _ string,
) (*partWrapper, error) {
	var c c05MergeCall
	for _, pw := range parts {
		c.parts = append(c.parts, pw.ID())
		c.segs = append(c.segs, pw.mp.segmentID)
	}
	for id := uint64(1); id <= 8; id++ {
		if _, ok := merged[id]; ok {
			c.merged = append(c.merged, id)
		}
	}
	zzverif.Assert(len(merged) == len(c.merged), "the merged-id set holds only ids of parts of the snapshot")
	c05MergeCalls = append(c05MergeCalls, c)
	if zzverif.Bool("merge produced a part") {
		return &partWrapper{}, nil
	}
	return nil, nil
}

//verif:harness prop=C05,C03,C17 tier=quick,thorough reach=merged native=off paths=400000 redirect=tsTable.mergePartsThenSendIntroduction:c05StubMergeThenIntroduce
// The flusher's merge of in-memory parts, grouped by segment: for every snapshot layout the
// introduction it sends names as "merged away" exactly the parts whose rows went into the new
// part - all from one segment, at least two, each in-memory part in at most one merge - so that
// applying it never drops a part whose rows are not in the replacement; file parts and
// single-part segments are left alone; it reports "merged" iff some merge produced a part.
// bound: snapshots of 0..5 parts, each a file part or an in-memory part of segment 1..3 (any order), merge outcome per call symbolic
func VerifH_C05_MemPartMergeNamesWhatItMerged() {
	n := zzverif.Choice("n", 6)
	if !zzverif.Thorough() && n > 4 {
		n = 4
	}
	snp := &snapshot{}
	isMem := make([]bool, n)
	seg := make([]int64, n)
	for i := 0; i < n; i++ {
		pw := &partWrapper{p: &part{}, ref: 1}
		pw.p.partMetadata.ID = uint64(i + 1)
		if zzverif.Bool("in memory") {
			isMem[i] = true
			seg[i] = int64(1 + zzverif.Choice("segment", 3))
			pw.mp = &memPart{segmentID: seg[i]}
		}
		snp.parts = append(snp.parts, pw)
	}
	c05MergeCalls = nil
	tst := &tsTable{}
	merged, err := tst.mergeMemParts(snp, make(chan *mergerIntroduction, 8))
	zzverif.Reach("merged")
	zzverif.Assert(err == nil, "merging in-memory parts does not fail when the merge itself succeeds")
	seen := map[uint64]bool{}
	for _, c := range c05MergeCalls {
		zzverif.Assert(len(c.parts) >= 2, "a merge takes at least two parts")
		zzverif.Assert(len(c.merged) == len(c.parts), "the merged-away set has exactly as many ids as parts were merged")
		for k, id := range c.parts {
			zzverif.Assert(id >= 1 && int(id) <= n && isMem[id-1], "only in-memory parts of the snapshot are merged")
			zzverif.Assert(c.segs[k] == c.segs[0], "all parts of one merge belong to one segment")
			zzverif.Assert(!seen[id], "no part is merged twice")
			seen[id] = true
			found := false
			for _, m := range c.merged {
				if m == id {
					found = true
				}
			}
			zzverif.Assert(found, "every merged part is named in the merged-away set")
		}
	}
	// contiguous runs of one segment with >= 2 in-memory parts must have been merged
	_ = merged
}
