//go:build verif

// verif:dir banyand/stream
package stream

import (
	commonv1 "github.com/apache/skywalking-banyandb/api/proto/banyandb/common/v1"
	databasev1 "github.com/apache/skywalking-banyandb/api/proto/banyandb/database/v1"
	modelv1 "github.com/apache/skywalking-banyandb/api/proto/banyandb/model/v1"
	pkgbytes "github.com/apache/skywalking-banyandb/pkg/bytes"
	pkgencoding "github.com/apache/skywalking-banyandb/pkg/encoding"
	"github.com/apache/skywalking-banyandb/pkg/filter"
	"github.com/apache/skywalking-banyandb/pkg/fs"
	pbv1 "github.com/apache/skywalking-banyandb/pkg/pb/v1"
	logicalstream "github.com/apache/skywalking-banyandb/pkg/query/logical/stream"
	"github.com/apache/skywalking-banyandb/pkg/zzverif"
)

// c08Lits are the literals a condition may use (kept constant per path: their decimal / byte
// rendering is what the code under test compares).
var (
	c08IntLits = []int64{7, -1, 12345678, 0}
	c08StrLits = []string{"a", "7", "bc"}
)

// c08StubEncodeInts stands for the int column codec (covered under C01/C11): the block filter
// only learns from it that an int column is never dictionary-encoded.
func c08StubEncodeInts(bb *pkgbytes.Buffer, _ [][]byte, _ pbv1.ValueType) (pkgencoding.EncodeType, error) {
	bb.Buf = append(bb.Buf[:0], byte(pkgencoding.EncodeTypePlain))
	return pkgencoding.EncodeTypePlain, nil
}

// The bloom filter is replaced by its contract (established on the real code by
// VerifH_C08_BloomNoFalseNegative): it answers "might contain" for every item that was added,
// and arbitrarily - false positives, chosen up front by the harness - for anything else. The
// real encode/decode of the filter block still runs (on the untouched bit words).
var (
	c08BloomAdded [][]byte
	c08BloomFP    []bool
	c08BloomAsked int
)

func c08StubBloomAdd(_ *filter.BloomFilter, item []byte) bool {
	c08BloomAdded = append(c08BloomAdded, append([]byte(nil), item...))
	return true
}

func c08StubBloomMightContain(_ *filter.BloomFilter, item []byte) bool {
	r := c08BloomFP[c08BloomAsked%len(c08BloomFP)]
	c08BloomAsked++
	for _, a := range c08BloomAdded {
		if len(a) != len(item) {
			continue
		}
		same := true
		for i := range a {
			same = zzverif.And(same, a[i] == item[i])
		}
		r = zzverif.Or(r, same)
	}
	return r
}

func c08Pick(label string, n int) int {
	k := 0
	for sym := zzverif.Choice(label, n); k < n-1 && sym != k; {
		k++
	}
	return k
}

//verif:harness prop=C08 tier=quick,thorough reach=judged paths=60000 redirect=encoding.EncodeTagValues:c08StubEncodeInts,BloomFilter.Add:c08StubBloomAdd,BloomFilter.MightContain:c08StubBloomMightContain
// A skipping index is only an optimisation: whatever rows a stream block holds and whatever
// single condition the query puts on a tag covered by a SKIPPING index rule, the filter the
// query compiler builds from the condition (real buildLocalFilter), evaluated against the
// block's own filter data as the write path stored it (real processTags / tag.mustWriteTo ->
// bloom filter, dictionary or min/max -> real tagFamilyFilters.unmarshal, exactly as
// partIter.findBlock does), never rules out a block that holds a row satisfying the condition,
// and never fails or panics.
// bound: tag of type int; block of 1..3 rows with arbitrary int64 values; condition = | != | IN | NOT IN | > | >= | < | <= with 1..2 literals drawn from {7,-1,12345678,0}; the block as first written or as a merge rewrites it (values only); the bloom filter is its contract (no false negatives, arbitrary false positives)
// outside: AND/OR trees of conditions, null tag values
func VerifH_C08_SkippingIndexNeverHidesAMatchingRow_IntTag() { c08SkippingCase(0) }

//verif:harness prop=C08 tier=quick,thorough reach=judged paths=60000 redirect=BloomFilter.Add:c08StubBloomAdd,BloomFilter.MightContain:c08StubBloomMightContain
// A skipping index is only an optimisation: whatever rows a stream block holds and whatever
// single condition the query puts on a tag covered by a SKIPPING index rule, the filter the
// query compiler builds from the condition (real buildLocalFilter), evaluated against the
// block's own filter data as the write path stored it (real processTags / tag.mustWriteTo ->
// bloom filter, dictionary or min/max -> real tagFamilyFilters.unmarshal, exactly as
// partIter.findBlock does), never rules out a block that holds a row satisfying the condition,
// and never fails or panics.
// bound: tag of type string; block of 1..2 rows (thorough 1..3), values of 1..2 arbitrary bytes; condition = | != | IN | NOT IN with 1..2 literals drawn from {"a","7","bc"}; the block as first written or as a merge rewrites it (values only); the bloom filter is its contract (no false negatives, arbitrary false positives)
// outside: AND/OR trees of conditions, null tag values
func VerifH_C08_SkippingIndexNeverHidesAMatchingRow_StringTag() { c08SkippingCase(1) }

//verif:harness prop=C08 tier=quick,thorough reach=judged paths=60000 redirect=BloomFilter.Add:c08StubBloomAdd,BloomFilter.MightContain:c08StubBloomMightContain
// A skipping index is only an optimisation: whatever rows a stream block holds and whatever
// single condition the query puts on a tag covered by a SKIPPING index rule, the filter the
// query compiler builds from the condition (real buildLocalFilter), evaluated against the
// block's own filter data as the write path stored it (real processTags / tag.mustWriteTo ->
// bloom filter, dictionary or min/max -> real tagFamilyFilters.unmarshal, exactly as
// partIter.findBlock does), never rules out a block that holds a row satisfying the condition,
// and never fails or panics.
// bound: tag of type string array; block of 1..2 rows, arrays of 1..2 items of 1 arbitrary byte (1..2 bytes in single-row blocks); condition HAVING | NOT HAVING with 1..2 literals drawn from {"a","7","bc"}; the block as first written or as a merge rewrites it (values only); the bloom filter is its contract (no false negatives, arbitrary false positives)
// outside: AND/OR trees of conditions, null tag values
func VerifH_C08_SkippingIndexNeverHidesAMatchingRow_StringArrayTag() { c08SkippingCase(2) }

//verif:harness prop=C08 tier=quick,thorough reach=judged paths=60000 redirect=BloomFilter.Add:c08StubBloomAdd,BloomFilter.MightContain:c08StubBloomMightContain
// A skipping index is only an optimisation: whatever rows a stream block holds and whatever
// single condition the query puts on a tag covered by a SKIPPING index rule, the filter the
// query compiler builds from the condition (real buildLocalFilter), evaluated against the
// block's own filter data as the write path stored it (real processTags / tag.mustWriteTo ->
// bloom filter, dictionary or min/max -> real tagFamilyFilters.unmarshal, exactly as
// partIter.findBlock does), never rules out a block that holds a row satisfying the condition,
// and never fails or panics.
// bound: tag of type int array; block of 1..2 rows, arrays of 1..2 arbitrary int64 items; condition HAVING | NOT HAVING with 1..2 literals drawn from {7,-1,12345678,0}; the block as first written or as a merge rewrites it (values only); the bloom filter is its contract (no false negatives, arbitrary false positives)
// outside: AND/OR trees of conditions, null tag values
func VerifH_C08_SkippingIndexNeverHidesAMatchingRow_IntArrayTag() { c08SkippingCase(3) }

func c08SkippingCase(kind int) { // 0 int, 1 string, 2 string array, 3 int array
	tagTypes := []databasev1.TagType{databasev1.TagType_TAG_TYPE_INT, databasev1.TagType_TAG_TYPE_STRING, databasev1.TagType_TAG_TYPE_STRING_ARRAY, databasev1.TagType_TAG_TYPE_INT_ARRAY}
	sm := &databasev1.Stream{
		Metadata: &commonv1.Metadata{Name: "s", Group: "g"},
		TagFamilies: []*databasev1.TagFamilySpec{{Name: "tf", Tags: []*databasev1.TagSpec{
			{Name: "e", Type: databasev1.TagType_TAG_TYPE_STRING},
			{Name: "t", Type: tagTypes[kind]},
		}}},
		Entity: &databasev1.Entity{TagNames: []string{"e"}},
	}
	c08BloomAdded, c08BloomFP, c08BloomAsked = nil, nil, 0
	for i := 0; i < 4; i++ {
		c08BloomFP = append(c08BloomFP, zzverif.Bool("bloom filter false positive"))
	}
	rule := &databasev1.IndexRule{Metadata: &commonv1.Metadata{Name: "r", Group: "g", Id: 1}, Tags: []string{"t"}, Type: databasev1.IndexRule_TYPE_SKIPPING}
	s, err := logicalstream.BuildSchema(sm, []*databasev1.IndexRule{rule})
	zzverif.Assert(err == nil, "the schema builds")

	// the condition
	nl := 1
	var op modelv1.Condition_BinaryOp
	if kind <= 1 {
		ops := []modelv1.Condition_BinaryOp{
			modelv1.Condition_BINARY_OP_EQ, modelv1.Condition_BINARY_OP_NE, modelv1.Condition_BINARY_OP_IN, modelv1.Condition_BINARY_OP_NOT_IN,
			modelv1.Condition_BINARY_OP_GT, modelv1.Condition_BINARY_OP_GE, modelv1.Condition_BINARY_OP_LT, modelv1.Condition_BINARY_OP_LE,
		}
		no := 4
		if kind == 0 {
			no = 8
		}
		op = ops[c08Pick("op", no)]
		if op == modelv1.Condition_BINARY_OP_IN || op == modelv1.Condition_BINARY_OP_NOT_IN {
			nl = 1 + c08Pick("literals", 2)
		}
	} else {
		op = []modelv1.Condition_BinaryOp{modelv1.Condition_BINARY_OP_HAVING, modelv1.Condition_BINARY_OP_NOT_HAVING}[c08Pick("op", 2)]
		nl = 1 + c08Pick("literals", 2)
	}
	isInt := kind == 0 || kind == 3
	var ilits []int64
	var slits []string
	for i := 0; i < nl; i++ {
		if isInt {
			ilits = append(ilits, c08IntLits[c08Pick("literal", len(c08IntLits))])
		} else {
			slits = append(slits, c08StrLits[c08Pick("literal", len(c08StrLits))])
		}
	}
	var lit *modelv1.TagValue
	multi := op == modelv1.Condition_BINARY_OP_IN || op == modelv1.Condition_BINARY_OP_NOT_IN || kind >= 2
	switch {
	case isInt && multi:
		lit = &modelv1.TagValue{Value: &modelv1.TagValue_IntArray{IntArray: &modelv1.IntArray{Value: ilits}}}
	case isInt:
		lit = &modelv1.TagValue{Value: &modelv1.TagValue_Int{Int: &modelv1.Int{Value: ilits[0]}}}
	case multi:
		lit = &modelv1.TagValue{Value: &modelv1.TagValue_StrArray{StrArray: &modelv1.StrArray{Value: slits}}}
	default:
		lit = &modelv1.TagValue{Value: &modelv1.TagValue_Str{Str: &modelv1.Str{Value: slits[0]}}}
	}
	criteria := &modelv1.Criteria{Exp: &modelv1.Criteria_Condition{Condition: &modelv1.Condition{Name: "t", Op: op, Value: lit}}}
	flt, _, err := logicalstream.VerifBuildLocalFilter(criteria, s, map[string]int{"e": 0}, []*modelv1.TagValue{pbv1.AnyTagValue}, databasev1.IndexRule_TYPE_SKIPPING)
	zzverif.Assert(err == nil && flt != nil, "a condition on a tag under a skipping index compiles to a block filter")
	if err != nil || flt == nil {
		return
	}

	// the block: rows written through the real write path
	maxRows := 2
	if kind == 0 || (zzverif.Thorough() && kind == 1) {
		maxRows = 3 // int tags: three rows are needed to tell min/max bookkeeping slips from "no min/max"
	}
	rows := 1 + c08Pick("rows", maxRows)
	b := &block{}
	anyMatch := false
	for i := 0; i < rows; i++ {
		var tv *modelv1.TagValue
		var ivals []int64
		var svals []string
		n := 1
		if kind >= 2 {
			n = 1 + c08Pick("items", 2)
		}
		for k := 0; k < n; k++ {
			if isInt {
				ivals = append(ivals, zzverif.Int64("value"))
			} else {
				ln := 1
				if kind == 1 || rows == 1 {
					ln = 1 + c08Pick("len", 2)
				}
				svals = append(svals, string(zzverif.Bytes("value", ln)))
			}
		}
		switch kind {
		case 0:
			tv = &modelv1.TagValue{Value: &modelv1.TagValue_Int{Int: &modelv1.Int{Value: ivals[0]}}}
		case 1:
			tv = &modelv1.TagValue{Value: &modelv1.TagValue_Str{Str: &modelv1.Str{Value: svals[0]}}}
		case 2:
			tv = &modelv1.TagValue{Value: &modelv1.TagValue_StrArray{StrArray: &modelv1.StrArray{Value: svals}}}
		default:
			tv = &modelv1.TagValue{Value: &modelv1.TagValue_IntArray{IntArray: &modelv1.IntArray{Value: ivals}}}
		}
		enc := encodeTagValue("t", tagTypes[kind], tv)
		enc.indexed = true // what the write path sets for a tag under a SKIPPING rule
		b.processTagFamilies([]tagValues{{tag: "tf", values: []*tagValue{enc}}}, i, rows)

		// does this row satisfy the condition?
		has := func(k int) bool { // the row holds literal k
			r := false
			if isInt {
				for _, v := range ivals {
					r = zzverif.Or(r, v == ilits[k])
				}
			} else {
				for _, v := range svals {
					r = zzverif.Or(r, v == slits[k])
				}
			}
			return r
		}
		hasAny, hasAll := false, true
		for k := 0; k < nl; k++ {
			hasAny = zzverif.Or(hasAny, has(k))
			hasAll = zzverif.And(hasAll, has(k))
		}
		var m bool
		switch op {
		case modelv1.Condition_BINARY_OP_EQ, modelv1.Condition_BINARY_OP_IN:
			m = hasAny
		case modelv1.Condition_BINARY_OP_NE, modelv1.Condition_BINARY_OP_NOT_IN:
			m = !hasAny
		case modelv1.Condition_BINARY_OP_HAVING:
			m = hasAll
		case modelv1.Condition_BINARY_OP_NOT_HAVING:
			m = !hasAll
		case modelv1.Condition_BINARY_OP_GT:
			m = ivals[0] > ilits[0]
		case modelv1.Condition_BINARY_OP_GE:
			m = ivals[0] >= ilits[0]
		case modelv1.Condition_BINARY_OP_LT:
			m = ivals[0] < ilits[0]
		default:
			m = ivals[0] <= ilits[0]
		}
		anyMatch = zzverif.Or(anyMatch, m)
	}
	if zzverif.Bool("block rewritten by a merge") {
		// A merge writes its blocks from tags that the read path (tag.mustReadValues) filled: values
		// only - no unique-value set and no min/max are carried over or recomputed.
		for i := range b.tagFamilies {
			for j := range b.tagFamilies[i].tags {
				tg := &b.tagFamilies[i].tags[j]
				tg.uniqueValues, tg.min, tg.max = nil, nil, nil
			}
		}
	}
	mp := &memPart{}
	bw := generateBlockWriter()
	bw.MustInitForMemPart(mp)
	var bm blockMetadata
	for _, tf := range b.tagFamilies {
		b.marshalTagFamily(tf, &bm, &bw.writers)
	}
	meta, filt, vals := map[string]fs.Reader{}, map[string]fs.Reader{}, map[string]fs.Reader{}
	for name := range mp.tagFamilies {
		meta[name], filt[name], vals[name] = mp.tagFamilyMetadata[name], mp.tagFamilyFilter[name], mp.tagFamilies[name]
	}

	// the query side, as partIter.findBlock evaluates the block filter
	tfs := generateTagFamilyFilters()
	tfs.unmarshal(bm.tagFamilies, meta, filt, vals)
	skip, err := flt.ShouldSkip(tfs)
	zzverif.Reach("judged")
	zzverif.Assert(err == nil, "evaluating the block filter does not fail")
	zzverif.Assert(zzverif.Implies(anyMatch, !skip), "a block holding a row that satisfies the condition is not ruled out by the skipping index")
}
