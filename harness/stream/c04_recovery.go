//go:build verif

// verif:dir banyand/stream
package stream

import (
	"errors"

	"github.com/apache/skywalking-banyandb/api/common"
	"github.com/apache/skywalking-banyandb/banyand/protector"
	"github.com/apache/skywalking-banyandb/pkg/fs"
	"github.com/apache/skywalking-banyandb/pkg/logger"
	"github.com/apache/skywalking-banyandb/pkg/zzverif"
)

type c04Entry struct {
	name string
	dir  bool
}

func (e c04Entry) Name() string { return e.name }
func (e c04Entry) IsDir() bool  { return e.dir }

type c04FS struct {
	fs.FileSystem
	entries []fs.DirEntry
	removed map[string]int
}

func (f *c04FS) ReadDir(string) []fs.DirEntry { return f.entries }
func (f *c04FS) MustRMAll(p string)          { f.removed[p]++ }
func (f *c04FS) DeleteFile(p string) error   { f.removed[p]++; return nil }

type c04Protector struct{ protector.Memory }

// directory content decided by the solver
var (
	c04PartValid    map[string]bool     // part directory path → metadata.json validates
	c04Manifest     map[uint64][]uint64 // manifest epoch → listed part ids
	c04ManifestGood map[uint64]bool     // manifest epoch → readable
	c04Opened       []uint64
)

func c04StubValidate(_ fs.FileSystem, partPath string) error {
	if c04PartValid[partPath] {
		return nil
	}
	return errors.New("metadata.json invalid")
}
func c04StubOpen(id uint64, root string, _ fs.FileSystem) *part {
	c04Opened = append(c04Opened, id)
	p := &part{path: partPath(root, id)}
	p.partMetadata.ID = id
	return p
}
func c04StubReadSnapshot(_ *tsTable, epoch uint64) ([]uint64, error) {
	if !c04ManifestGood[epoch] {
		return nil, errors.New("manifest unreadable")
	}
	return c04Manifest[epoch], nil
}
func c04StubPersist(_ *tsTable, _ *snapshot) {}

//verif:harness prop=C04 tier=quick,thorough reach=recovered native=off paths=400000 redirect=validatePartMetadata:c04StubValidate,mustOpenFilePart:c04StubOpen,tsTable.readSnapshot:c04StubReadSnapshot,tsTable.persistSnapshot:c04StubPersist
// Start-up recovery of a shard directory left by a crash at any point: whatever mixture of part
// directories (complete or half-written), manifests (readable or torn, listing any parts) and
// junk it finds, the shard opens without panic, serves exactly the complete parts listed by the
// NEWEST readable manifest, deletes every other part directory (orphans, half-written, listed by
// no usable manifest), deletes torn manifests newer than the one it uses and all junk, never
// deletes a part it serves or the manifest it uses; with no usable manifest it serves nothing
// and cleans up all parts.
// bound: part directories 1..2 (quick) or 1..3 (thorough) (each present or absent, complete or not), manifests at epochs 5 and 6 (each present or absent, readable or torn, listing any subset of the parts), one junk directory
func VerifH_C04_RecoveryServesNewestManifest() {
	rec := &c04FS{removed: map[string]int{}}
	c04PartValid, c04Manifest, c04ManifestGood, c04Opened = map[string]bool{}, map[uint64][]uint64{}, map[uint64]bool{}, nil
	root := "/shard"
	present := map[uint64]bool{}
	nParts := uint64(2)
	if zzverif.Thorough() {
		nParts = 3
	}
	for id := uint64(1); id <= nParts; id++ {
		if zzverif.Bool("part present") {
			present[id] = true
			rec.entries = append(rec.entries, c04Entry{partName(id), true})
			c04PartValid[partPath(root, id)] = zzverif.Bool("part complete")
		}
	}
	if zzverif.Bool("junk") {
		rec.entries = append(rec.entries, c04Entry{"not-a-part", true})
	}
	manifestThere := map[uint64]bool{}
	for _, ep := range []uint64{5, 6} {
		if zzverif.Bool("manifest present") {
			manifestThere[ep] = true
			rec.entries = append(rec.entries, c04Entry{snapshotName(ep), false})
			c04ManifestGood[ep] = zzverif.Bool("manifest readable")
			for id := uint64(1); id <= nParts; id++ {
				if zzverif.Bool("lists part") {
					c04Manifest[ep] = append(c04Manifest[ep], id)
				}
			}
		}
	}
	tst, _, initErr := initTSTable(rec, root, common.Position{}, logger.GetLogger("c04"), option{protector: c04Protector{}}, nil, false)
	zzverif.Assert(initErr == nil, "the shard opens without error")
	zzverif.Reach("recovered")
	// specification
	anyPart := false // a usable manifest only matters when at least one complete part exists
	for id := range present {
		if c04PartValid[partPath(root, id)] {
			anyPart = true
		}
	}
	var use uint64
	if anyPart {
		for _, ep := range []uint64{6, 5} {
			if manifestThere[ep] && c04ManifestGood[ep] {
				use = ep
				break
			}
		}
	}
	listed := map[uint64]bool{}
	for _, id := range c04Manifest[use] {
		listed[id] = true
	}
	served := map[uint64]bool{}
	if tst.snapshot != nil {
		for _, pw := range tst.snapshot.parts {
			zzverif.Assert(!served[pw.ID()], "no part is served twice")
			served[pw.ID()] = true
		}
	}
	for id := uint64(1); id <= 3; id++ {
		want := use != 0 && present[id] && c04PartValid[partPath(root, id)] && listed[id]
		zzverif.Assert(served[id] == want, "the shard serves exactly the complete parts listed by the newest readable manifest")
		if present[id] {
			if want {
				zzverif.Assert(rec.removed[partPath(root, id)] == 0, "a served part is never deleted")
			} else {
				zzverif.Assert(rec.removed[partPath(root, id)] >= 1, "every part directory that is not served (orphan, half-written, unlisted) is deleted")
			}
		}
	}
	for _, ep := range []uint64{5, 6} {
		if !manifestThere[ep] {
			continue
		}
		path := root + "/" + snapshotName(ep)
		if ep == use {
			zzverif.Assert(rec.removed[path] == 0, "the manifest in use is never deleted")
		} else if anyPart && !c04ManifestGood[ep] && (use == 0 || ep > use) {
			_ = path // torn manifests newer than the one in use are deleted; older ones are superseded at the next publication
			if use != 0 {
				zzverif.Assert(rec.removed[path] >= 1, "a torn manifest newer than the one in use is deleted")
			}
		}
	}
	for _, e := range rec.entries {
		if e.Name() == "not-a-part" {
			zzverif.Assert(rec.removed[root+"/not-a-part"] >= 1, "junk directories are deleted")
		}
	}
}
