//go:build verif

// verif:dir banyand/stream
package stream

import (
	"github.com/apache/skywalking-banyandb/pkg/zzverif"
)

func c03Block(side uint64, n int) *blockPointer {
	bp := &blockPointer{}
	for i := 0; i < n; i++ {
		ts := zzverif.Int64("ts")
		if i > 0 {
			zzverif.Assume(bp.timestamps[i-1] <= ts)
		}
		bp.timestamps = append(bp.timestamps, ts)
		bp.elementIDs = append(bp.elementIDs, side<<8|uint64(i))
	}
	if n > 0 {
		bp.bm.timestamps.min = bp.timestamps[0]
		bp.bm.timestamps.max = bp.timestamps[n-1]
	}
	return bp
}

//verif:harness prop=C03 tier=quick,thorough reach=merged paths=400000
// Merging two stream blocks of one series yields the multiset union of their elements in
// non-decreasing timestamp order: every element of either input appears exactly once with its
// own timestamp; nothing is lost, duplicated or invented (streams keep duplicates).
// bound: 1..3 elements per block (thorough 1..4), arbitrary timestamps with ties; no tag families
func VerifH_C03_StreamMergeTwoBlocks() {
	maxN := 3
	if zzverif.Thorough() {
		maxN = 4
	}
	nl, nr := 1+zzverif.Choice("nl", maxN), 1+zzverif.Choice("nr", maxN)
	left, right := c03Block(1, nl), c03Block(2, nr)
	lts := append([]int64{}, left.timestamps...)
	rts := append([]int64{}, right.timestamps...)
	target := &blockPointer{}
	mergeTwoBlocks(target, left, right)
	zzverif.Reach("merged")
	n := len(target.timestamps)
	zzverif.Assert(n == nl+nr, "the merged block has as many elements as both inputs together")
	zzverif.Assert(len(target.elementIDs) == n, "element ids stay aligned with timestamps")
	if len(target.elementIDs) != n {
		return
	}
	seenL, seenR := make([]bool, nl), make([]bool, nr)
	for i := 0; i < n; i++ {
		if i > 0 {
			zzverif.Assert(target.timestamps[i-1] <= target.timestamps[i], "merged elements are in timestamp order")
		}
		id := target.elementIDs[i]
		side, idx := id>>8, int(id&0xff)
		switch side {
		case 1:
			zzverif.Assert(idx < nl && !seenL[idx], "a left element appears once")
			if idx >= nl {
				return
			}
			seenL[idx] = true
			zzverif.Assert(target.timestamps[i] == lts[idx], "a left element keeps its timestamp")
		case 2:
			zzverif.Assert(idx < nr && !seenR[idx], "a right element appears once")
			if idx >= nr {
				return
			}
			seenR[idx] = true
			zzverif.Assert(target.timestamps[i] == rts[idx], "a right element keeps its timestamp")
		default:
			zzverif.Assert(false, "merged element does not come from an input")
		}
	}
}
