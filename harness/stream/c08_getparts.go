//go:build verif

// verif:dir banyand/stream
package stream

import (
	"github.com/apache/skywalking-banyandb/pkg/zzverif"
)

//verif:harness prop=C08,C05 tier=quick,thorough reach=selected paths=100000
// Part selection by time never hides data: from a snapshot, a query window [begin, end] selects
// exactly the parts whose stored time range intersects the window (a part holding a row inside
// the window is always selected), in snapshot order, each once.
// bound: 1..3 parts with arbitrary int64 [min,max] (min <= max), arbitrary window; no trace-id filter
func VerifH_C08_PartSelectionKeepsEveryIntersectingPart() {
	n := 1 + zzverif.Choice("parts", 3)
	s := &snapshot{}
	for i := 0; i < n; i++ {
		p := &part{}
		p.partMetadata.ID = uint64(i + 1)
		p.partMetadata.MinTimestamp, p.partMetadata.MaxTimestamp = zzverif.Int64("min"), zzverif.Int64("max")
		zzverif.Assume(p.partMetadata.MinTimestamp <= p.partMetadata.MaxTimestamp)
		s.parts = append(s.parts, &partWrapper{p: p})
	}
	begin, end := zzverif.Int64("begin"), zzverif.Int64("end")
	got, cnt := s.getParts(nil, begin, end)
	zzverif.Reach("selected")
	zzverif.Assert(cnt == len(got), "the count matches the selection")
	k := 0
	for _, pw := range s.parts {
		pm := pw.p.partMetadata
		intersects := zzverif.And(pm.MinTimestamp <= end, pm.MaxTimestamp >= begin)
		sel := k < len(got) && got[k] == pw.p
		zzverif.Assert(sel == intersects, "a part is selected exactly when its time range intersects the query window")
		if sel {
			k++
		}
	}
	zzverif.Assert(k == len(got), "nothing else is selected")
}
