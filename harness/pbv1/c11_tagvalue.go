//go:build verif

// verif:dir pkg/pb/v1
package v1

import (
	"github.com/apache/skywalking-banyandb/pkg/zzverif"
)

//verif:harness prop=C11 tier=quick,thorough reach=returned paths=200000
// Tag value unmarshaling (series keys, stored tag values) on arbitrary bytes: an error or a
// value, never an index/slice panic.
// bound: src of 0..4 arbitrary bytes (thorough 0..6)
func VerifH_C11_Hostile_TagValue() {
	max := 4
	if zzverif.Thorough() {
		max = 6
	}
	src := zzverif.Bytes("src", zzverif.Choice("len", max+1))
	if zzverif.Bool("series") {
		var s Series
		_ = s.Unmarshal(src)
	} else {
		_, _, _ = UnmarshalTagValues(nil, nil, src)
	}
	zzverif.Reach("returned")
}
