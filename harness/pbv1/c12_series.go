//go:build verif

// verif:dir pkg/pb/v1
package v1

import (
	"bytes"

	modelv1 "github.com/apache/skywalking-banyandb/api/proto/banyandb/model/v1"
	"github.com/apache/skywalking-banyandb/pkg/zzverif"
)

// c12Value builds an arbitrary entity value of kind k: 0 null, 1 string, 2 int, 3 binary.
func c12Value(name string, k int, maxLen int) *modelv1.TagValue {
	switch k {
	case 0:
		return NullTagValue
	case 1:
		return &modelv1.TagValue{Value: &modelv1.TagValue_Str{Str: &modelv1.Str{Value: zzverif.String(name, zzverif.Choice(name+".len", maxLen+1))}}}
	case 2:
		// every byte of the 8-byte zig-zag form forks three ways in the escaping loop: keep two of them symbolic
		return &modelv1.TagValue{Value: &modelv1.TagValue_Int{Int: &modelv1.Int{Value: int64(zzverif.Int16(name))}}}
	}
	return &modelv1.TagValue{Value: &modelv1.TagValue_BinaryData{BinaryData: zzverif.Bytes(name, zzverif.Choice(name+".len", maxLen+1))}}
}

// c12Same: equality of entity values as the statement defines it (empty string/bytes read back as null).
func c12Same(a, b *modelv1.TagValue) bool {
	norm := func(v *modelv1.TagValue) (int, []byte, int64) {
		switch x := v.Value.(type) {
		case *modelv1.TagValue_Str:
			if len(x.Str.Value) == 0 {
				return 0, nil, 0
			}
			return 1, []byte(x.Str.Value), 0
		case *modelv1.TagValue_Int:
			return 2, nil, x.Int.Value
		case *modelv1.TagValue_BinaryData:
			if len(x.BinaryData) == 0 {
				return 0, nil, 0
			}
			return 3, x.BinaryData, 0
		}
		return 0, nil, 0
	}
	ka, ba, ia := norm(a)
	kb, bb, ib := norm(b)
	if ka != kb {
		return false
	}
	return zzverif.And(bytes.Equal(ba, bb), ia == ib)
}

//verif:harness prop=C12 tier=quick,thorough reach=roundtrip paths=400000
// Series.Marshal → Series.Unmarshal returns the same subject and the same entity values (an
// empty string/bytes value reads back as null), for every subject and every tuple of entity
// values, including values made of the delimiter '|' and the escape '\'.
// bound: subject of 0..1 arbitrary bytes; 1..2 entity values of kinds null|string|int|binary; strings/binaries of 0..1 bytes (thorough 0..2); ints in [-2^15,2^15)
func VerifH_C12_SeriesRoundTrip() {
	maxLen := 1
	if zzverif.Thorough() {
		maxLen = 2
	}
	n := 1 + zzverif.Choice("n", 2)
	s := &Series{Subject: zzverif.String("subject", zzverif.Choice("subject.len", 2))}
	for i := 0; i < n; i++ {
		s.EntityValues = append(s.EntityValues, c12Value("v", zzverif.Choice("kind", 4), maxLen))
	}
	err := s.Marshal()
	zzverif.Assert(err == nil, "Marshal accepts null/string/int/binary entity values")
	var back Series
	uerr := back.Unmarshal(s.Buffer)
	zzverif.Reach("roundtrip")
	zzverif.Assert(uerr == nil, "Unmarshal accepts Marshal's output")
	zzverif.Assert(back.Subject == s.Subject, "subject survives the series key round trip")
	zzverif.Assert(len(back.EntityValues) == n, "entity value count survives the series key round trip")
	for i := 0; i < n && i < len(back.EntityValues); i++ {
		zzverif.Assert(c12Same(back.EntityValues[i], s.EntityValues[i]), "entity value survives the series key round trip")
	}
	zzverif.Assert(back.ID == s.ID, "the series id is a function of the key bytes")
	// the same entity always maps to the same series: a copy marshals to the same key and id
	var cp Series
	s.CopyTo(&cp)
	cerr := cp.Marshal()
	zzverif.Assert(cerr == nil && bytes.Equal(cp.Buffer, s.Buffer) && cp.ID == s.ID, "a copied series marshals to the same key and id as its source")
}

//verif:harness prop=C12 tier=quick,thorough reach=compared paths=400000
// Injectivity stated directly: two (subject, value, value) tuples with equal serialized keys are
// equal tuples, for every pair of kinds.
// bound: subjects of 0..1 bytes, 1 entity value (thorough 2) of 0..1 bytes / ints in [-2^15,2^15)
func VerifH_C12_SeriesKeyInjective() {
	nv := 1
	if zzverif.Thorough() {
		nv = 2
	}
	mk := func(tag string) *Series {
		s := &Series{Subject: zzverif.String(tag+"subject", zzverif.Choice(tag+"subject.len", 2))}
		for i := 0; i < nv; i++ {
			s.EntityValues = append(s.EntityValues, c12Value(tag+"v", zzverif.Choice(tag+"kind", 4), 1))
		}
		return s
	}
	a, b := mk("a."), mk("b.")
	ea, eb := a.Marshal(), b.Marshal()
	zzverif.Assume(ea == nil && eb == nil)
	zzverif.Reach("compared")
	if !bytes.Equal(a.Buffer, b.Buffer) {
		return
	}
	zzverif.Assert(a.Subject == b.Subject, "equal keys imply equal subjects")
	for i := 0; i < nv; i++ {
		zzverif.Assert(c12Same(a.EntityValues[i], b.EntityValues[i]), "equal keys imply equal entity values")
	}
}

//verif:harness prop=C12 tier=quick,thorough reach=escaped
// marshalEntityValue/unmarshalEntityValue: escaping is an exact inverse and consumes exactly its bytes.
// bound: value of 0..3 arbitrary bytes followed by 1 arbitrary trailing byte
func VerifH_C12_EntityValueEscape() {
	v := zzverif.Bytes("v", 1+zzverif.Choice("len", 3))
	tail := zzverif.Byte("tail")
	enc := append(marshalEntityValue(nil, v), tail)
	dec, rest, err := unmarshalEntityValue(nil, enc)
	zzverif.Reach("escaped")
	zzverif.Assert(err == nil, "unmarshalEntityValue accepts marshalEntityValue output")
	zzverif.Assert(bytes.Equal(dec, v), "escaped value decodes to itself")
	zzverif.Assert(len(rest) == 1 && rest[0] == tail, "decoder stops right after the delimiter")
}
