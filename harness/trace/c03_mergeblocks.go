//go:build verif

// verif:dir banyand/trace
package trace

import (
	"github.com/apache/skywalking-banyandb/pkg/encoding"
	"github.com/apache/skywalking-banyandb/pkg/zzverif"
)

type c03Src struct {
	tid     string
	spanIDs []string
	spans   []string
	encoded []byte
}

type c03Span struct{ tid, spanID, span string }

var (
	c03Sources []c03Src
	c03Next    int
	c03Written []c03Span
)

func c03BlockOf(i int) *blockPointer {
	s := &c03Sources[i]
	bp := &blockPointer{}
	bp.bm.traceID = s.tid
	bp.bm.count = uint64(len(s.spans))
	bp.bm.spans = &dataBlock{offset: uint64(i)} // which source block this is (the raw path copies by reference)
	return bp
}

func c03StubNextBlockMetadata(br *blockReader) bool {
	if c03Next >= len(c03Sources) {
		return false
	}
	br.block = c03BlockOf(c03Next)
	c03Next++
	return true
}

func c03StubPeek(_ *blockReader) *blockPointer {
	if c03Next >= len(c03Sources) {
		return nil
	}
	return c03BlockOf(c03Next)
}

// c03StubLoadBlockData: span payloads are decoded by the REAL bytes-block decoder handed in by
// the merge loop (as block.mustReadFrom does), so they alias that decoder's buffer.
func c03StubLoadBlockData(br *blockReader, decoder *encoding.BytesBlockDecoder) {
	s := &c03Sources[c03Next-1]
	b := &br.block.block
	vals, err := decoder.Decode(nil, s.encoded, uint64(len(s.spans)))
	if err != nil {
		panic(err)
	}
	b.spans = vals
	b.spanIDs = append(b.spanIDs[:0], s.spanIDs...)
}

// c03StubReadRaw / c03StubWriteRaw: the raw fast path copies a whole block without decoding it.
func c03StubReadRaw(_ *blockReader, r *rawBlock, bm *blockMetadata) { r.bm = bm }
func c03StubWriteRaw(_ *blockWriter, r *rawBlock) {
	s := &c03Sources[r.bm.spans.offset]
	for k := range s.spans {
		c03Written = append(c03Written, c03Span{r.bm.traceID, s.spanIDs[k], s.spans[k]})
	}
}

func c03StubReaderError(_ *blockReader) error { return nil }

func c03StubWriteBlock(_ *blockWriter, tid string, b *block) {
	for i := range b.spans {
		c03Written = append(c03Written, c03Span{tid, b.spanIDs[i], string(b.spans[i])})
	}
}

func c03StubWriterFlush(_ *blockWriter, _ *partMetadata, _ *traceIDFilter, _ *tagType) {}

//verif:harness prop=C03,C13 tier=quick,thorough reach=merged native=off paths=400000 redirect=blockReader.nextBlockMetadata:c03StubNextBlockMetadata,blockReader.peek:c03StubPeek,blockReader.loadBlockData:c03StubLoadBlockData,blockReader.mustReadRaw:c03StubReadRaw,blockReader.error:c03StubReaderError,blockWriter.mustWriteBlock:c03StubWriteBlock,blockWriter.mustWriteRawBlock:c03StubWriteRaw,blockWriter.Flush:c03StubWriterFlush
// The trace merge loop (no sampler) writes every span of every input block exactly once, under
// its own trace id and with its own payload: single-block traces through the raw fast path,
// traces spread over several blocks through accumulation - also when the accumulated trace
// outgrows the span-size limit and is written early (nothing of it may be written again under
// the following trace's id, no span may be lost, payload bytes survive the value decoder going
// back to its pool).
// patch: banyand/trace/trace.go | maxUncompressedSpanSize         = 2 * 1024 * 1024 | maxUncompressedSpanSize         = 40
// bound: 3..5 source blocks (quick 3..4) in trace-id order, consecutive blocks share a trace id or not (symbolic), 1..2 spans per block with payloads of 2 or 24 bytes (all short | all long | short then long); span-size limit reduced from 2 MiB to 40 bytes by the source patch above; no merge filter/sampler; block source/sink are stubs
func VerifH_C03_TraceMergeLoopWritesEverySpanOnce() {
	for i := 0; i < 8; i++ {
		_ = generateColumnValuesDecoder()
	}
	maxBlocks := 2
	if zzverif.Thorough() {
		maxBlocks = 3
	}
	n := 3 + zzverif.Choice("blocks", maxBlocks)
	sizes := zzverif.Choice("value sizes", 3)
	c03Sources, c03Next, c03Written = nil, 0, nil
	type key struct{ tid, spanID string }
	want := map[string]string{}
	tidN := 0
	for b := 0; b < n; b++ {
		if b == 0 || zzverif.Bool("next trace") {
			tidN++
		}
		tid := "t" + string(rune('0'+tidN))
		rows := 1 + zzverif.Choice("spans", 2)
		long := sizes == 1 || (sizes == 2 && b >= 2)
		src := c03Src{tid: tid}
		var raw [][]byte
		for r := 0; r < rows; r++ {
			sp := string(rune('a'+b)) + string(rune('0'+r))
			v := sp
			if long {
				v += "xxxxxxxxxxxxxxxxxxxxxx"
			}
			src.spanIDs = append(src.spanIDs, sp)
			src.spans = append(src.spans, v)
			raw = append(raw, []byte(v))
			want[tid+"/"+sp] = v
		}
		src.encoded = encoding.EncodeBytesBlock(nil, raw)
		c03Sources = append(c03Sources, src)
	}
	_, _, _, _, err := mergeBlocks(make(chan struct{}), &blockWriter{}, &blockReader{}, nil, nil)
	zzverif.Reach("merged")
	zzverif.Assert(err == nil, "the merge loop succeeds")
	zzverif.Assert(len(c03Written) == len(want), "every input span is written exactly once")
	seen := map[string]bool{}
	for _, w := range c03Written {
		k := w.tid + "/" + w.spanID
		v, ok := want[k]
		zzverif.Assert(ok, "a span is written under the trace id it was stored with")
		zzverif.Assert(!seen[k], "no span is written twice")
		seen[k] = true
		if ok {
			zzverif.Assert(w.span == v, "a merged span carries its own payload")
		}
	}
}
