//go:build verif

// verif:dir banyand/trace
package trace

import (
	"github.com/apache/skywalking-banyandb/pkg/zzverif"
)

//verif:harness prop=C13 tier=quick,thorough reach=searched paths=400000
// Looking a trace up by id inside a part starts at a primary index block early enough to see
// the whole trace: the blocks of one trace may straddle primary-block boundaries (a primary
// block is flushed by size, not at trace boundaries), so every primary block k whose first id
// is <= tid and whose successor's first id is >= tid (or that is the last one) must be part of
// the returned suffix; the search never panics for tid >= the first id of the part.
// bound: 1..4 primary blocks, first trace ids and the probed id strings of 1..2 arbitrary bytes, non-decreasing
func VerifH_C13_SearchPBMStartsBeforeTheTrace() {
	n := 1 + zzverif.Choice("blocks", 4)
	pbm := make([]primaryBlockMetadata, n)
	for i := range pbm {
		pbm[i].traceID = zzverif.String("first", 1+zzverif.Choice("len", 2))
		pbm[i].offset = uint64(i)
		if i > 0 {
			zzverif.Assume(pbm[i-1].traceID <= pbm[i].traceID)
		}
	}
	tid := zzverif.String("tid", 1+zzverif.Choice("tidlen", 2))
	zzverif.Assume(tid >= pbm[0].traceID)
	got := searchPBM(pbm, tid)
	zzverif.Reach("searched")
	zzverif.Assert(len(got) >= 1 && len(got) <= n, "the search returns a non-empty suffix of the index")
	start := n - len(got)
	zzverif.Assert(got[0].offset == uint64(start), "the result is a suffix of the index")
	for k := 0; k < n; k++ {
		mayHold := pbm[k].traceID <= tid && (k == n-1 || pbm[k+1].traceID >= tid)
		if mayHold {
			zzverif.Assert(start <= k, "every primary block that may hold blocks of the trace is scanned")
		}
	}
}
