//go:build verif

// verif:dir banyand/trace
package trace

import (
	"context"
	"errors"
	"math"
	"time"

	"github.com/apache/skywalking-banyandb/pkg/zzverif"
)

type c13Filter struct {
	membership traceFragmentMembership
	fail       bool
	calls      *int
}

func (f c13Filter) Lookup(string) (traceFragmentMembership, error) {
	*f.calls++
	if f.fail {
		return f.membership, errors.New("lookup failed")
	}
	return f.membership, nil
}

type c13Pin struct{}

func (c13Pin) Release() {}

func c13SatSub(v, d int64) int64 {
	if d > 0 && v < math.MinInt64+d {
		return math.MinInt64
	}
	return v - d
}

func c13SatAdd(v, d int64) int64 {
	if d > 0 && v > math.MaxInt64-d {
		return math.MaxInt64
	}
	return v + d
}

//verif:harness prop=C13 tier=quick,thorough reach=resolved,dropped paths=400000
// Sampling drop decisions are sound and fail open: the guard answers Drop only when the sampler
// asked for it, the configuration is valid, temporal safety is enforced (grace >= enforced max
// gap), the catalog is pinned, complete and covers the widened trace window, the trace is
// complete with valid bounds, and EVERY part outside the merge either cannot overlap the window
// [min-grace, max+grace] (saturating arithmetic) or answered "absent" without error; the probe
// budget is respected, and the recorded confirmed drop carries exactly the trace's bounds.
// Anything else (unknown, error, maybe-present, missing filter, exhausted budget) defers.
// bound: 1..2 trace blocks, 0..2 outside parts, arbitrary int64 timestamps/grace/budgets, arbitrary filter answers
func VerifH_C13_ResolveDropIsSound() {
	calls := 0
	cfg := traceFragmentGuardConfig{Grace: time.Duration(zzverif.Int64("grace")), MaxBloomProbes: int(zzverif.Int64("maxProbes")), MaxConfirmedDrops: int(zzverif.Int64("maxDrops"))}
	cat := traceFragmentGuardCatalog{
		BaseEpoch:              7,
		CoverageMinTimestamp:   zzverif.Int64("cov.min"),
		CoverageMaxTimestamp:   zzverif.Int64("cov.max"),
		EnforcedMaxFragmentGap: time.Duration(zzverif.Int64("maxGap")),
		Complete:               zzverif.Bool("cat.complete"),
		CoverageKnown:          zzverif.Bool("cov.known"),
		TemporalSafety:         traceFragmentTemporalSafety(zzverif.Choice("safety", 2)),
	}
	if zzverif.Bool("pinned") {
		cat.Pin = c13Pin{}
	}
	np := zzverif.Choice("parts", 3)
	type pinfo struct {
		min, max   int64
		known      bool
		hasFilter  bool
		membership traceFragmentMembership
		fail       bool
	}
	var parts []pinfo
	for i := 0; i < np; i++ {
		p := pinfo{min: zzverif.Int64("p.min"), max: zzverif.Int64("p.max"), known: zzverif.Bool("p.known"), hasFilter: zzverif.Bool("p.filter"),
			membership: traceFragmentMembership(zzverif.Choice("p.answer", 4)), fail: zzverif.Bool("p.err")}
		parts = append(parts, p)
		gp := traceFragmentGuardPart{ID: uint64(i + 1), MinTimestamp: p.min, MaxTimestamp: p.max, BoundsKnown: p.known}
		if p.hasFilter {
			gp.Filter = c13Filter{membership: p.membership, fail: p.fail, calls: &calls}
		}
		cat.OutsideParts = append(cat.OutsideParts, gp)
	}
	nb := 1 + zzverif.Choice("blocks", 2)
	tr := traceFragmentGuardTrace{TraceID: "t", Complete: zzverif.Bool("trace.complete")}
	tmin, tmax := int64(math.MaxInt64), int64(math.MinInt64)
	boundsOK := true
	for i := 0; i < nb; i++ {
		b := traceFragmentGuardBlock{MinTimestamp: zzverif.Int64("b.min"), MaxTimestamp: zzverif.Int64("b.max"), BoundsKnown: zzverif.Bool("b.known")}
		tr.Blocks = append(tr.Blocks, b)
		boundsOK = zzverif.And(boundsOK, zzverif.And(b.BoundsKnown, b.MinTimestamp <= b.MaxTimestamp))
		tmin = zzverif.IteI(b.MinTimestamp < tmin, b.MinTimestamp, tmin)
		tmax = zzverif.IteI(b.MaxTimestamp > tmax, b.MaxTimestamp, tmax)
	}
	action := traceFragmentSamplerAction(zzverif.Choice("sampler", 3))
	g := newTraceFragmentGuard(cfg, cat)
	d := g.Resolve(context.Background(), tr, action)
	zzverif.Reach("resolved")
	zzverif.Assert(zzverif.Implies(action == traceFragmentSamplerActionKeep, d.Action == traceFragmentGuardActionKeep), "a sampler keep is a keep")
	zzverif.Assert(calls <= cfg.MaxBloomProbes || calls == 0, "the bloom probe budget is never exceeded")
	if d.Action != traceFragmentGuardActionDrop {
		zzverif.Assert(d.ConfirmedDrop == nil, "only a drop records a confirmed drop")
		return
	}
	zzverif.Reach("dropped")
	zzverif.Assert(action == traceFragmentSamplerActionDrop, "drop only if the sampler asked for it")
	zzverif.Assert(cfg.Grace >= 0 && cfg.MaxBloomProbes >= 0 && cfg.MaxConfirmedDrops >= 0, "drop only under a valid configuration")
	zzverif.Assert(cat.TemporalSafety == traceFragmentTemporalSafetyMaxGapEnforced && cat.EnforcedMaxFragmentGap >= 0 && cfg.Grace >= cat.EnforcedMaxFragmentGap, "drop only when the grace window covers the enforced fragment gap")
	zzverif.Assert(cat.Pin != nil && cat.Complete && cat.CoverageKnown, "drop only against a pinned, complete catalog with known coverage")
	zzverif.Assert(tr.Complete && boundsOK, "drop only for a complete trace with valid bounds")
	gmin, gmax := c13SatSub(tmin, int64(cfg.Grace)), c13SatAdd(tmax, int64(cfg.Grace))
	zzverif.Assert(gmin >= cat.CoverageMinTimestamp && gmax <= cat.CoverageMaxTimestamp, "drop only when the widened window lies inside the catalog's coverage")
	for _, p := range parts {
		disjoint := zzverif.Or(p.max < gmin, p.min > gmax)
		absent := zzverif.And(p.hasFilter, zzverif.And(!p.fail, p.membership == traceFragmentMembershipAbsent))
		zzverif.Assert(p.known && p.min <= p.max, "drop only when every outside part has valid bounds")
		zzverif.Assert(zzverif.Or(disjoint, absent), "drop only when every outside part is out of the window or answered absent")
	}
	zzverif.Assert(d.ConfirmedDrop != nil, "a drop is recorded")
	if d.ConfirmedDrop != nil {
		zzverif.Assert(d.ConfirmedDrop.TraceID == "t" && d.ConfirmedDrop.MinTimestamp == tmin && d.ConfirmedDrop.MaxTimestamp == tmax && d.ConfirmedDrop.BoundsKnown, "the confirmed drop carries the trace's own bounds")
	}
	zzverif.Assert(d.BaseEpoch == 7, "the decision names the catalog epoch it was taken against")
}

//verif:harness prop=C13 tier=quick,thorough reach=probed paths=400000 depth=600
// The merge-time drop set is exact: after recording dropped trace ids, keepEncoded(row) is false
// exactly for rows whose (v1-encoded) trace id was recorded - so every span of a dropped trace is
// removed and no span of any other trace is - for every hash function (xxhash is uninterpreted,
// so this covers colliding hashes and every probe sequence of the open-addressing index).
// bound: 1..3 recorded ids (ascending, 1 arbitrary byte each), probe id of 1 arbitrary byte
func VerifH_C13_DropSetExact() {
	n := 1 + zzverif.Choice("n", 3)
	set := &droppedTraceIDs{}
	ids := make([]string, n)
	for i := range ids {
		ids[i] = zzverif.String("id", 1)
		if i > 0 {
			zzverif.Assume(ids[i-1] < ids[i])
		}
		set.add(ids[i])
	}
	probe := zzverif.String("probe", 1)
	recorded := false
	for _, id := range ids {
		recorded = zzverif.Or(recorded, id == probe)
	}
	row := append([]byte{byte(idFormatV1)}, probe...)
	keep := set.keepEncoded(row)
	zzverif.Reach("probed")
	zzverif.Assert(keep == !recorded, "a row is removed iff its trace id was recorded as dropped")
	zzverif.Assert(set.keepEncoded(nil) && set.keepEncoded([]byte{0xff, probe[0]}), "rows without a v1 trace id are always kept (fail open)")
}
