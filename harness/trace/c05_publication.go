//go:build verif

// verif:dir banyand/trace
package trace

import (
	"sync"

	"github.com/apache/skywalking-banyandb/banyand/internal/sidx"
	"github.com/apache/skywalking-banyandb/pkg/logger"
	"github.com/apache/skywalking-banyandb/pkg/zzverif"
)

// c05Sidx is a secondary index reduced to its snapshot manager: what the introducer's
// transaction sees of it (Prepare*, CurrentSnapshot, ReplaceSnapshot).
type c05Sidx struct {
	sidx.SIDX
	cur  *sidx.Snapshot
	next *sidx.Snapshot
	mu   sync.RWMutex
}

func (s *c05Sidx) CurrentSnapshot() *sidx.Snapshot {
	s.mu.RLock()
	defer s.mu.RUnlock()
	s.cur.IncRef()
	return s.cur
}

func (s *c05Sidx) ReplaceSnapshot(n *sidx.Snapshot) {
	s.mu.Lock()
	defer s.mu.Unlock()
	s.cur.DecRef()
	s.cur = n
}

func (s *c05Sidx) prepare() func(*sidx.Snapshot) *sidx.Snapshot {
	return func(*sidx.Snapshot) *sidx.Snapshot { s.next.IncRef(); return s.next }
}
func (s *c05Sidx) PrepareMemPart(uint64, *sidx.MemPart) func(*sidx.Snapshot) *sidx.Snapshot { return s.prepare() }
func (s *c05Sidx) PrepareFilePart(uint64, string) func(*sidx.Snapshot) *sidx.Snapshot     { return s.prepare() }
func (s *c05Sidx) PrepareFlushed(*sidx.FlusherIntroduction) func(*sidx.Snapshot) *sidx.Snapshot {
	return s.prepare()
}
func (s *c05Sidx) PrepareMerged(*sidx.MergerIntroduction) func(*sidx.Snapshot) *sidx.Snapshot {
	return s.prepare()
}
func (s *c05Sidx) PrepareSynced(map[uint64]struct{}) func(*sidx.Snapshot) *sidx.Snapshot { return s.prepare() }

func c05StubPersistTrace(_ *tsTable, _ *snapshot) {}

// the close counter lives in a metadata field nothing else in the harness uses
func c05StubPartClose(p *part) { p.partMetadata.TotalCount++ }

//verif:harness prop=C05 tier=quick,thorough reach=finished native=off paths=3000000 depth=600 preempt.quick=2 preempt.thorough=3 redirect=tsTable.persistSnapshot:c05StubPersistTrace,part.close:c05StubPartClose
// Two-phase (index first, then spans) trace queries versus the introducer under EVERY
// interleaving: the introducer publishes a new secondary-index snapshot and a new core snapshot
// in one transaction (new part, flush, flush-for-sync, or removal of synced parts), while a
// query takes the table's publication view, reads the index snapshot, then the core snapshot,
// and drops the view. The query always sees a matching pair - both from before the
// introduction or both from after it, never an index entry whose part is missing from the core
// snapshot it evaluates (or the reverse); nothing deadlocks and every reference taken is
// returned.
// bound: one table with one secondary index, one introduction of each of four kinds, one query; every interleaving of their lock and atomic operations with at most 2 (quick) / 3 (thorough) preemptions
// assume: sequential consistency of sync/atomic and mutex operations; the index is reduced to its snapshot manager
func VerifH_C05_TracePublicationIsAtomicToQueries() {
	oldIdx, newIdx := &sidx.Snapshot{}, &sidx.Snapshot{}
	oldIdx.IncRef()
	six := &c05Sidx{cur: oldIdx, next: newIdx}
	p1 := newPartWrapper(nil, &part{})
	p1.p.partMetadata.ID = 1
	oldCore := &snapshot{epoch: 1, ref: 1, parts: []*partWrapper{p1}}
	tst := &tsTable{snapshot: oldCore, sidxMap: map[string]sidx.SIDX{"idx": six}, l: logger.GetLogger("c05")}
	kind := zzverif.Choice("introduction", 4)
	introducer := func() {
		switch kind {
		case 0:
			np := newPartWrapper(nil, &part{})
			np.p.partMetadata.ID = 2
			tst.introducePart(&introduction{part: np, sidxFilePartsMap: map[string]string{"idx": "/p"}}, 2)
		case 1:
			fp := newPartWrapper(nil, &part{})
			fp.p.partMetadata.ID = 1
			tst.introduceFlushed(&flusherIntroduction{flushed: map[uint64]*partWrapper{1: fp},
				sidxFlusherIntroduced: map[string]*sidx.FlusherIntroduction{"idx": {}}}, 2)
		case 2:
			fp := newPartWrapper(nil, &part{})
			fp.p.partMetadata.ID = 1
			tst.introduceFlushedForSync(&flusherIntroduction{flushed: map[uint64]*partWrapper{1: fp},
				sidxFlusherIntroduced: map[string]*sidx.FlusherIntroduction{"idx": {}}}, 2)
		default:
			tst.introduceSync(&syncIntroduction{synced: map[uint64]struct{}{1: {}}}, 2)
		}
	}
	var sawIdx *sidx.Snapshot
	var sawCore *snapshot
	query := func() {
		release := acquireSnapshotPublicationView([]*tsTable{tst})
		sawIdx = six.CurrentSnapshot()
		zzverif.Yield()
		sawCore = tst.currentSnapshot()
		release()
		for _, pw := range sawCore.parts {
			zzverif.Assert(pw.p != nil && pw.p.partMetadata.TotalCount == 0, "no part of a pinned snapshot is closed")
		}
		zzverif.Assert((sawIdx == oldIdx) == (sawCore == oldCore), "a two-phase query sees the index snapshot and the core snapshot of the same publication")
		sawIdx.DecRef()
		sawCore.decRef()
	}
	zzverif.Par(introducer, query)
	zzverif.Reach("finished")
	zzverif.Assert(six.cur == newIdx && tst.snapshot != oldCore && tst.snapshot.epoch == 2, "the introduction was published")
	zzverif.Assert(tst.snapshot.ref == 1, "the published core snapshot ends with exactly the table's reference")
	zzverif.Assert(oldCore.ref == 0, "the replaced core snapshot is released by its last holder")
}
