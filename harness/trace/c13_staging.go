//go:build verif

// verif:dir banyand/trace
package trace

import (
	"github.com/apache/skywalking-banyandb/pkg/encoding"
	"github.com/apache/skywalking-banyandb/pkg/zzverif"
)

// what the sampler chain is handed per Decide batch: the trace ids, fragment by fragment
var c13Decides [][]string

func c13StubFlushStaged(bw *blockWriter, _ *mergeFilter, staged []stagedTrace, _ []stagedTraceGroup, _ bool, _ *dropTracker) {
	var ids []string
	for i := range staged {
		ids = append(ids, staged[i].traceID)
		writeStagedKeep(bw, &staged[i]) // every trace is kept: the harness looks at batching only
		releaseStagedTrace(&staged[i])
	}
	if len(ids) > 0 {
		c13Decides = append(c13Decides, ids)
	}
}

func c13StubStageRaw(rawBlk *rawBlock) stagedTrace {
	bm := &blockMetadata{}
	bm.copyFrom(rawBlk.bm)
	bm.timestamps.known, bm.timestamps.min, bm.timestamps.max = true, 1, 2
	return stagedTrace{isRaw: true, traceID: rawBlk.bm.traceID, rawBM: bm}
}

func c13StubReleaseStaged(_ *stagedTrace) {}

//verif:harness prop=C13 tier=quick,thorough reach=merged native=off paths=600000 redirect=blockReader.nextBlockMetadata:c03StubNextBlockMetadata,blockReader.peek:c03StubPeek,blockReader.loadBlockData:c03StubLoadBlockData,blockReader.mustReadRaw:c03StubReadRaw,blockReader.error:c03StubReaderError,blockWriter.mustWriteBlock:c03StubWriteBlock,blockWriter.mustWriteRawBlock:c03StubWriteRaw,blockWriter.Flush:c03StubWriterFlush,flushStaged:c13StubFlushStaged,stageRawTrace:c13StubStageRaw,releaseStagedTrace:c13StubReleaseStaged
// A sampling merge decides every trace as a whole: whatever the budget per Decide batch and
// however a trace's spans are spread over source blocks (also when an accumulated block outgrows
// the span-size limit and is staged early, with more blocks of the same trace still to come),
// all fragments of one trace id reach the sampler chain in ONE Decide batch - a trace is never
// cut into two batches that could get different verdicts - and every span is written once.
// patch: banyand/trace/trace.go | maxUncompressedSpanSize         = 2 * 1024 * 1024 | maxUncompressedSpanSize         = 40
// bound: 3..5 source blocks (quick 3..4) in trace-id order, consecutive blocks share a trace id or not, 1..2 spans per block with payloads of 2 or 24 bytes (all short | all long | short then long); Decide batch budget of 1 or 2 traces; forced decoded staging or raw fast path; the sampler keeps everything; span-size limit reduced to 40 bytes by the source patch
func VerifH_C13_SamplingMergeDecidesEachTraceInOneBatch() {
	for i := 0; i < 8; i++ {
		_ = generateColumnValuesDecoder()
	}
	maxBlocks := 2
	if zzverif.Thorough() {
		maxBlocks = 3
	}
	n := 3 + zzverif.Choice("blocks", maxBlocks)
	sizes := zzverif.Choice("value sizes", 3)
	c03Sources, c03Next, c03Written, c13Decides = nil, 0, nil, nil
	want := map[string]string{}
	tidN := 0
	for b := 0; b < n; b++ {
		if b == 0 || zzverif.Bool("next trace") {
			tidN++
		}
		tid := "t" + string(rune('0'+tidN))
		rows := 1 + zzverif.Choice("spans", 2)
		long := sizes == 1 || (sizes == 2 && b >= 2)
		src := c03Src{tid: tid}
		var raw [][]byte
		for r := 0; r < rows; r++ {
			sp := string(rune('a'+b)) + string(rune('0'+r))
			v := sp
			if long {
				v += "xxxxxxxxxxxxxxxxxxxxxx"
			}
			src.spanIDs = append(src.spanIDs, sp)
			src.spans = append(src.spans, v)
			raw = append(raw, []byte(v))
			want[tid+"/"+sp] = v
		}
		src.encoded = encoding.EncodeBytesBlock(nil, raw)
		c03Sources = append(c03Sources, src)
	}
	filter := &mergeFilter{maxTraceCount: 1 + zzverif.Choice("traces per decide batch", 2), forceSlow: zzverif.Bool("decoded staging")}
	_, _, _, _, err := mergeBlocks(make(chan struct{}), &blockWriter{}, &blockReader{}, nil, filter)
	zzverif.Reach("merged")
	zzverif.Assert(err == nil, "the merge succeeds")
	batchOf := map[string]int{}
	for k, ids := range c13Decides {
		for _, id := range ids {
			if prev, ok := batchOf[id]; ok {
				zzverif.Assert(prev == k, "all fragments of a trace reach the sampler in one Decide batch")
			}
			batchOf[id] = k
		}
	}
	zzverif.Assert(len(c03Written) == len(want), "every span is written exactly once")
	seen := map[string]bool{}
	for _, w := range c03Written {
		k := w.tid + "/" + w.spanID
		v, ok := want[k]
		zzverif.Assert(ok && !seen[k], "a span is written once, under its own trace id")
		seen[k] = true
		if ok {
			zzverif.Assert(w.span == v, "a span keeps its payload")
		}
	}
}
