//go:build verif

// verif:dir banyand/trace
package trace

import (
	"context"

	"github.com/apache/skywalking-banyandb/banyand/internal/sidx"
	"github.com/apache/skywalking-banyandb/pkg/zzverif"
)

type c09Sidx struct {
	sidx.SIDX
	resp *sidx.QueryResponse
}

func (s *c09Sidx) StreamingQuery(context.Context, sidx.QueryRequest) (<-chan *sidx.QueryResponse, <-chan error) {
	ch := make(chan *sidx.QueryResponse, 1)
	if s.resp != nil {
		ch <- s.resp
	}
	close(ch)
	return ch, nil
}

//verif:harness prop=C09 tier=quick,thorough reach=streamed paths=600000 timeout=60000
// An ordered trace query over several secondary-index instances (shards/segments): each instance
// streams its entries in key order; the k-way merge hands the trace ids on in global key order
// (ascending or descending), each trace id once (its first occurrence in that order), batch
// after batch - whichever instance holds the extreme key and in whatever order the instances
// were registered.
// bound: 2 instances (thorough 2..3) with 0..2 entries each, arbitrary int64 keys (per instance sorted in the requested direction), trace ids from {a,b,c}, batch size 2
func VerifH_C09_OrderedTraceStreamMergesInstancesInKeyOrder() {
	asc := zzverif.Bool("ascending")
	n := 2
	if zzverif.Thorough() {
		n = 2 + zzverif.Choice("instances", 2)
	}
	ids := []string{"a", "b", "c"}
	type ent struct {
		key int64
		id  string
	}
	var all []ent
	var instances []sidx.SIDX
	for i := 0; i < n; i++ {
		m := zzverif.Choice("entries", 3)
		var resp *sidx.QueryResponse
		if m > 0 {
			resp = &sidx.QueryResponse{}
		}
		for k := 0; k < m; k++ {
			key := zzverif.Int64("key")
			if k > 0 {
				if asc {
					zzverif.Assume(resp.Keys[k-1] <= key)
				} else {
					zzverif.Assume(resp.Keys[k-1] >= key)
				}
			}
			for _, o := range all {
				zzverif.Assume(o.key != key) // distinct keys: the global order is unambiguous
			}
			id := ids[0]
			switch zzverif.Choice("trace id", 3) {
			case 1:
				id = ids[1]
			case 2:
				id = ids[2]
			}
			resp.Keys = append(resp.Keys, key)
			resp.Data = append(resp.Data, append([]byte{byte(idFormatV1)}, id...))
			resp.PartIDs = append(resp.PartIDs, uint64(i+1))
			all = append(all, ent{key, id})
		}
		instances = append(instances, &c09Sidx{resp: resp})
	}
	r := &sidxStreamRunner{
		ctx: context.Background(), streamCtx: context.Background(), batchSize: 2,
		heap: &sidxStreamHeap{asc: asc}, seenTraceIDs: map[string]struct{}{}, batch: newTraceBatch(0, 2), nextSeq: 1,
	}
	err := r.prepare(instances)
	zzverif.Assert(err == nil, "the instances are prepared")
	out := make(chan traceBatch, 16)
	r.run(out)
	close(out)
	var got []string
	for b := range out {
		zzverif.Assert(b.err == nil, "no error batch")
		got = append(got, b.traceIDsOrder...)
	}
	zzverif.Reach("streamed")
	// reference: an id's position in the stream is that of its extreme (first in order) key
	first := func(id string) (int64, bool) {
		var k int64
		have := false
		for _, e := range all {
			if e.id != id {
				continue
			}
			if !have {
				k, have = e.key, true
				continue
			}
			if asc {
				k = zzverif.IteI(e.key < k, e.key, k)
			} else {
				k = zzverif.IteI(e.key > k, e.key, k)
			}
		}
		return k, have
	}
	distinct := 0
	for _, id := range ids {
		if _, have := first(id); have {
			distinct++
			cnt := 0
			for _, g := range got {
				if g == id {
					cnt++
				}
			}
			zzverif.Assert(cnt == 1, "every trace id is handed on exactly once")
		}
	}
	zzverif.Assert(len(got) == distinct, "nothing else is handed on")
	for i := 1; i < len(got); i++ {
		a, _ := first(got[i-1])
		b, _ := first(got[i])
		if asc {
			zzverif.Assert(a < b, "trace ids are handed on in global key order")
		} else {
			zzverif.Assert(a > b, "trace ids are handed on in global key order")
		}
	}
}
