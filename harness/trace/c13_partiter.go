//go:build verif

// verif:dir banyand/trace
package trace

import (
	"github.com/apache/skywalking-banyandb/pkg/zzverif"
)

var c13PrimaryContent [][]blockMetadata

// c13StubReadPrimary stands for reading one primary index block: like the real decoder it returns
// only the blocks of wanted trace ids.
func c13StubReadPrimary(pi *partIter, bms []blockMetadata, mr *primaryBlockMetadata) ([]blockMetadata, error) {
	for _, b := range c13PrimaryContent[mr.offset] {
		for _, w := range pi.tids {
			if w == b.traceID {
				bms = append(bms, b)
			}
		}
	}
	return bms, nil
}

//verif:harness prop=C13,C08 tier=quick,thorough reach=iterated native=off paths=2000000 redirect=partIter.readPrimaryBlock:c13StubReadPrimary
// A trace is read back as a whole from a part: for ANY layout of the part's blocks into primary
// index blocks (a trace's blocks may straddle primary-block boundaries) and any sorted list of
// wanted trace ids, the part iterator yields exactly the blocks of the wanted traces - all of
// them, each once, in order.
// bound: 1..4 blocks (thorough 1..5) with trace ids from {a,b,c} in writing order (ids non-decreasing, several blocks per trace allowed), primary index blocks cut after any block, wanted ids = any non-empty subset of {a,b,c,d}
func VerifH_C13_TracePartIteratorYieldsEveryBlockOfTheWantedTraces() {
	maxN := 4
	if zzverif.Thorough() {
		maxN = 5
	}
	n := 1 + zzverif.Choice("blocks", maxN)
	ids := []string{"a", "b", "c", "d"}
	var blocks []blockMetadata
	cur := 0
	for i := 0; i < n; i++ {
		if i > 0 && cur < 2 && zzverif.Bool("next trace") {
			cur++
			if cur < 2 && zzverif.Bool("skip a trace id") {
				cur++
			}
		}
		var bm blockMetadata
		bm.traceID = ids[cur]
		bm.count = uint64(i + 1)
		blocks = append(blocks, bm)
	}
	c13PrimaryContent = nil
	var pbms []primaryBlockMetadata
	start := 0
	for i := 0; i < n; i++ {
		if i == n-1 || zzverif.Bool("primary block cut") {
			var pbm primaryBlockMetadata
			pbm.traceID = blocks[start].traceID
			pbm.offset = uint64(len(pbms))
			pbms = append(pbms, pbm)
			c13PrimaryContent = append(c13PrimaryContent, append([]blockMetadata(nil), blocks[start:i+1]...))
			start = i + 1
		}
	}
	var tids []string
	wanted := map[string]bool{}
	for _, id := range ids {
		if zzverif.Bool("trace wanted") {
			tids = append(tids, id)
			wanted[id] = true
		}
	}
	zzverif.Assume(len(tids) > 0)
	p := &part{primaryBlockMetadata: pbms}
	pi := &partIter{}
	pi.init(&blockMetadataArray{}, p, tids)
	var got []uint64
	for steps := 0; steps < 12 && pi.nextBlock(); steps++ {
		got = append(got, pi.curBlock.count)
	}
	zzverif.Reach("iterated")
	zzverif.Assert(pi.error() == nil, "the scan ends without error")
	k := 0
	for _, b := range blocks {
		yielded := k < len(got) && got[k] == b.count
		zzverif.Assert(yielded == wanted[b.traceID], "a block is yielded exactly when its trace is wanted: every block of a wanted trace, wherever the primary blocks are cut")
		if yielded {
			k++
		}
	}
	zzverif.Assert(k == len(got), "nothing else is yielded")
}
