//go:build verif

// verif:dir banyand/trace
package trace

import (
	"context"
	"errors"

	"github.com/apache/skywalking-banyandb/pkg/zzverif"
)

//verif:harness prop=C05,C14 tier=quick,thorough reach=released native=off paths=400000
// A streaming trace query releases every snapshot it pinned exactly once, whatever happens to
// its scan batches: batches consumed normally, a batch whose block scan fails part-way (the
// error arrives on the batch's cursor channel), batches never consumed because the caller stops
// early - after Release() each pinned snapshot has lost exactly the query's reference, so the
// table's own reference keeps the published snapshot (and the files of its parts) alive and
// nothing is released twice.
// bound: 1..2 scan batches with one pinned snapshot each, 0..2 results per cursor channel (cursor or scan error, symbolic), the caller asks for 0..2 batches before releasing
func VerifH_C05_TraceQueryReleasesSnapshotsOnce() {
	nb := 1 + zzverif.Choice("batches", 2)
	batchCh := make(chan *scanBatch, nb)
	var snaps []*snapshot
	for b := 0; b < nb; b++ {
		s := &snapshot{ref: 2} // the table's reference and this query's
		snaps = append(snaps, s)
		batch := &scanBatch{snapshots: []*snapshot{s}}
		batch.traceIDsOrder = []string{"t"}
		nr := zzverif.Choice("results", 3)
		ch := make(chan scanCursorResult, nr)
		for i := 0; i < nr; i++ {
			if zzverif.Bool("scan error") {
				ch <- scanCursorResult{err: errors.New("scan failed")}
			} else {
				bc := &blockCursor{}
				bc.bm.traceID = "t"
				ch <- scanCursorResult{cursor: bc}
			}
		}
		close(ch)
		batch.cursorCh = ch
		batchCh <- batch
	}
	close(batchCh)
	ctx, cancel := context.WithCancel(context.Background())
	qr := &queryResult{ctx: ctx, cancel: cancel, cursorBatchCh: batchCh}
	asks := zzverif.Choice("asks", 3)
	for i := 0; i < asks; i++ {
		if !qr.ensureCurrentBatch() || qr.err != nil {
			break
		}
		qr.currentIndex = len(qr.currentTraceIDs) // the caller consumed the batch
	}
	qr.Release()
	zzverif.Reach("released")
	for _, s := range snaps {
		zzverif.Assert(s.ref >= 1, "the query never releases a snapshot reference it does not own (no double release)")
		zzverif.Assert(s.ref <= 1, "the query releases every snapshot it pinned (no leak)")
	}
}
