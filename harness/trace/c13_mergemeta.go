//go:build verif

// verif:dir banyand/trace
package trace

import (
	"github.com/apache/skywalking-banyandb/banyand/protector"
	"github.com/apache/skywalking-banyandb/pkg/fs"
	"github.com/apache/skywalking-banyandb/pkg/zzverif"
)

var c13WrittenMeta *partMetadata

func c13StubInitFromPart(_ *partMergeIter, _ *part)                                {}
func c13StubReaderInit(_ *blockReader, _ []*partMergeIter)                         {}
func c13StubWriterInit(_ *blockWriter, _ fs.FileSystem, _ string, _ bool, _ int)   {}
func c13StubWriteFilter(_ *traceIDFilter, _ fs.FileSystem, _ string)               {}
func c13StubWriteTagType(_ tagType, _ fs.FileSystem, _ string)                     {}
func c13StubWriteMeta(pm *partMetadata, _ fs.FileSystem, _ string)                 { cp := *pm; c13WrittenMeta = &cp }
func c13StubOpen(id uint64, _ string, _ fs.FileSystem) *part {
	p := &part{}
	if c13WrittenMeta != nil {
		p.partMetadata = *c13WrittenMeta
	}
	p.partMetadata.ID = id
	return p
}
func c13StubMergeBlocks(_ <-chan struct{}, _ *blockWriter, _ *blockReader, _ map[string]struct{}, _ *mergeFilter,
) (*partMetadata, *traceIDFilter, *tagType, *droppedTraceIDs, error) {
	// the block merge reports counts and sizes; the time range is not its business
	tt := tagType{}
	return &partMetadata{TotalCount: 1, BlocksCount: 1}, &traceIDFilter{}, &tt, nil, nil
}

type c13FS struct{ fs.FileSystem }

func (c13FS) MustRMAll(string) {}

type c13Mem struct{ protector.Memory }

func (c13Mem) ShouldCache(int64) bool { return false }

//verif:harness prop=C13 tier=quick,thorough reach=merged native=off paths=200000 redirect=partMergeIter.mustInitFromPart:c13StubInitFromPart,blockReader.init:c13StubReaderInit,blockWriter.mustInitForFilePart:c13StubWriterInit,traceIDFilter.mustWriteTraceIDFilter:c13StubWriteFilter,tagType.mustWriteTagType:c13StubWriteTagType,partMetadata.mustWriteMetadata:c13StubWriteMeta,mustOpenFilePart:c13StubOpen,mergeBlocks:c13StubMergeBlocks
// The part produced by a trace merge is published with a time range that covers every input
// part - MinTimestamp = the least input minimum, MaxTimestamp = the greatest input maximum - on
// disk and in memory alike (part selection for trace-id queries and the sampling guard's
// candidate selection prune by this range, so an understated range hides acknowledged spans);
// its finalize generation is the least input generation unless the round overrides it.
// bound: 1..4 input parts with arbitrary int64 [min,max] (min <= max) in any order, arbitrary generations; the block merge itself is a stub
func VerifH_C13_MergedPartCoversInputTimeRanges() {
	n := 1 + zzverif.Choice("parts", 4)
	parts := make([]*partWrapper, n)
	for i := range parts {
		p := &part{}
		p.partMetadata.MinTimestamp, p.partMetadata.MaxTimestamp = zzverif.Int64("min"), zzverif.Int64("max")
		zzverif.Assume(p.partMetadata.MinTimestamp <= p.partMetadata.MaxTimestamp)
		p.partMetadata.FinalizeGen = zzverif.Uint64("gen")
		p.partMetadata.ID = uint64(i + 1)
		parts[i] = newPartWrapper(nil, p)
	}
	var override *uint64
	if zzverif.Bool("finalize round") {
		g := zzverif.Uint64("round generation")
		override = &g
	}
	c13WrittenMeta = nil
	tst := &tsTable{pm: c13Mem{}}
	pw, _, err := tst.mergeParts(c13FS{}, make(chan struct{}), parts, 9, "/t", nil, override)
	zzverif.Reach("merged")
	zzverif.Assert(err == nil && pw != nil && pw.p != nil && c13WrittenMeta != nil, "the merge publishes a part and writes its metadata")
	if err != nil || pw == nil || c13WrittenMeta == nil {
		return
	}
	for _, got := range []*partMetadata{c13WrittenMeta, &pw.p.partMetadata} {
		someMin, someMax := false, false
		for _, in := range parts {
			im := in.p.partMetadata
			zzverif.Assert(got.MinTimestamp <= im.MinTimestamp && got.MaxTimestamp >= im.MaxTimestamp, "the merged part's time range covers every input part")
			someMin = zzverif.Or(someMin, got.MinTimestamp == im.MinTimestamp)
			someMax = zzverif.Or(someMax, got.MaxTimestamp == im.MaxTimestamp)
			if override == nil {
				zzverif.Assert(got.FinalizeGen <= im.FinalizeGen, "a merge is finalized only as much as its least finalized input")
			}
		}
		zzverif.Assert(someMin && someMax, "the merged part's range is tight (its bounds are input bounds)")
		if override != nil {
			zzverif.Assert(got.FinalizeGen == *override, "a finalize round stamps its generation")
		}
	}
}
