//go:build verif

// verif:dir banyand/liaison/grpc
package grpc

import (
	"context"
	"time"

	commonv1 "github.com/apache/skywalking-banyandb/api/proto/banyandb/common/v1"
	modelv1 "github.com/apache/skywalking-banyandb/api/proto/banyandb/model/v1"
	propertyv1 "github.com/apache/skywalking-banyandb/api/proto/banyandb/property/v1"
	"github.com/apache/skywalking-banyandb/banyand/queue"
	"github.com/apache/skywalking-banyandb/pkg/bus"
	"github.com/apache/skywalking-banyandb/pkg/logger"
	"github.com/apache/skywalking-banyandb/pkg/zzverif"
)

type c18Future struct{ bus.Future }

func (c18Future) Get() (bus.Message, error) { return bus.Message{}, nil }

type c18Pipeline struct {
	queue.Client
	published int
}

func (p *c18Pipeline) Publish(context.Context, bus.Topic, ...bus.Message) (bus.Future, error) {
	p.published++
	return c18Future{}, nil
}

var c18Keys = []string{"k1", "k2", "k3"}

func c18Tags(name string, max int) []*modelv1.Tag {
	n := zzverif.Choice(name+".n", max+1)
	var tags []*modelv1.Tag
	used := map[int]bool{}
	for i := 0; i < n; i++ {
		k := zzverif.Choice(name+".key", len(c18Keys))
		zzverif.Assume(!used[k])
		used[k] = true
		tags = append(tags, &modelv1.Tag{Key: c18Keys[k], Value: &modelv1.TagValue{Value: &modelv1.TagValue_Int{Int: &modelv1.Int{Value: zzverif.Int64(name + ".val")}}}})
	}
	return tags
}

func c18Prop(name string, tags []*modelv1.Tag) *propertyv1.Property {
	return &propertyv1.Property{Metadata: &commonv1.Metadata{Group: "g", Name: "n"}, Id: name, Tags: tags}
}

func c18Find(tags []*modelv1.Tag, key string) (int64, int) {
	cnt := 0
	var v int64
	for _, t := range tags {
		if t.Key == key {
			cnt++
			v = t.Value.GetInt().Value
		}
	}
	return v, cnt
}

//verif:harness prop=C18 tier=quick,thorough reach=applied paths=200000
// Apply with the merge strategy keeps every earlier tag that the new value does not overwrite
// and takes the new value for the others; with the replace strategy only the new tags remain;
// in both cases the creation revision stays that of the first version and the modification
// revision becomes the apply instant.
// bound: earlier and new version with 0..2 distinct tags each over 3 keys, arbitrary int64 tag values, arbitrary revisions, apply instant after 1970
func VerifH_C18_MergeReplace() {
	ps := &propertyServer{discoveryService: &discoveryService{log: logger.GetLogger("c18")}, pipeline: &c18Pipeline{}}
	prevTags, curTags := c18Tags("prev", 2), c18Tags("cur", 2)
	prev := c18Prop("id", prevTags)
	prev.Metadata.CreateRevision, prev.Metadata.ModRevision = zzverif.Int64("prev.create"), zzverif.Int64("prev.mod")
	cur := c18Prop("id", append([]*modelv1.Tag{}, curTags...))
	now := zzverif.Int64("now")
	zzverif.Assume(now >= 0) // apply instants are wall-clock times after 1970
	merge := zzverif.Bool("merge")
	var resp *propertyv1.ApplyResponse
	var err error
	if merge {
		resp, err = ps.mergeProperty(context.Background(), time.Unix(0, now), 1, []string{"node"}, prev, cur)
	} else {
		resp, err = ps.replaceProperty(context.Background(), time.Unix(0, now), 1, []string{"node"}, prev, cur)
	}
	zzverif.Reach("applied")
	zzverif.Assert(err == nil && resp != nil, "apply succeeds when a replica accepts it")
	if err != nil || resp == nil {
		return
	}
	zzverif.Assert(!resp.Created, "applying over an existing property does not report creation")
	zzverif.Assert(cur.Metadata.CreateRevision == prev.Metadata.CreateRevision, "the creation revision is stable")
	zzverif.Assert(cur.Metadata.ModRevision == now, "the modification revision is the apply instant")
	for _, k := range c18Keys {
		cv, cn := c18Find(curTags, k)
		pv, pn := c18Find(prevTags, k)
		gv, gn := c18Find(cur.Tags, k)
		switch {
		case cn == 1:
			zzverif.Assert(gn == 1 && gv == cv, "a tag given in the new version takes the new value")
		case pn == 1 && merge:
			zzverif.Assert(gn == 1 && gv == pv, "merge keeps an earlier tag that is not overwritten")
		default:
			zzverif.Assert(gn == 0, "replace discards earlier tags; nothing is invented")
		}
	}
	zzverif.Assert(int(resp.TagsNum) == len(cur.Tags), "the response reports the resulting tag count")
}

//verif:harness prop=C18 tier=quick,thorough reach=deduped paths=400000
// Query-side resolution across replicas: from the per-node answers, exactly one result per
// property key is returned and it carries the greatest modification revision seen for that key,
// independent of the order in which nodes and map entries are visited.
// bound: 2 nodes with 0..2 answers each over 2 property ids, arbitrary revisions; map iteration order symbolic
func VerifH_C18_QueryDedup() {
	zzverif.SymbolicMapOrder()
	ps := &propertyServer{discoveryService: &discoveryService{log: logger.GetLogger("c18")}}
	ids := []string{"a", "b"}
	answers := map[string][]*propertyWithMetadata{}
	type rec struct {
		id  int
		rev int64
	}
	var all []rec
	for _, node := range []string{"n1", "n2"} {
		n := zzverif.Choice("answers", 3)
		for i := 0; i < n; i++ {
			id := zzverif.Choice("id", 2)
			rev := zzverif.Int64("rev")
			p := c18Prop(ids[id], nil)
			p.Metadata.ModRevision = rev
			answers[node] = append(answers[node], &propertyWithMetadata{Property: p, node: node})
			all = append(all, rec{id, rev})
		}
	}
	out := ps.simpleDedupWithoutSort(answers)
	zzverif.Reach("deduped")
	for id := range ids {
		present := false
		for _, r := range all {
			if r.id == id {
				present = true
			}
		}
		cnt := 0
		for _, o := range out {
			if o.Id == ids[id] {
				cnt++
				for _, r := range all {
					if r.id == id {
						zzverif.Assert(r.rev <= o.Metadata.ModRevision, "the returned version has the greatest modification revision among all replicas' answers")
					}
				}
			}
		}
		if present {
			zzverif.Assert(cnt == 1, "exactly one result per property key")
		} else {
			zzverif.Assert(cnt == 0, "no result for a key nobody answered")
		}
	}
}
