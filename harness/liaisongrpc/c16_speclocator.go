//go:build verif

// verif:dir banyand/liaison/grpc
package grpc

import (
	databasev1 "github.com/apache/skywalking-banyandb/api/proto/banyandb/database/v1"
	measurev1 "github.com/apache/skywalking-banyandb/api/proto/banyandb/measure/v1"
	modelv1 "github.com/apache/skywalking-banyandb/api/proto/banyandb/model/v1"
	"github.com/apache/skywalking-banyandb/pkg/zzverif"
)

//verif:harness prop=C16,C01 tier=quick,thorough reach=located paths=400000
// A write that carries its own tag layout (DataPointSpec/ElementSpec) is routed by the entity
// values it actually carries: for every order in which the request lists the schema's tag
// families and the tags inside them (and when it leaves a family or tag out), each entity tag
// is read from the position the REQUEST gives it - not from the schema's position - so the
// entity (and with it the series id and the shard) is the one the values spell; a tag the request
// does not carry is NULL in the entity.
// bound: schema with families f1{a,b}, f2{c}; entity (c, a); request lists the families in either order or only one of them, f1's tags in either order; arbitrary int64 tag values
func VerifH_C16_SpecLocatorReadsEntityTagsAtTheRequestsPositions() {
	schemaFamilies := []*databasev1.TagFamilySpec{
		{Name: "f1", Tags: []*databasev1.TagSpec{{Name: "a", Type: databasev1.TagType_TAG_TYPE_INT}, {Name: "b", Type: databasev1.TagType_TAG_TYPE_INT}}},
		{Name: "f2", Tags: []*databasev1.TagSpec{{Name: "c", Type: databasev1.TagType_TAG_TYPE_INT}}},
	}
	vals := map[string]int64{"a": zzverif.Int64("a"), "b": zzverif.Int64("b"), "c": zzverif.Int64("c")}
	f1 := []string{"a", "b"}
	if zzverif.Bool("f1 tags swapped") {
		f1 = []string{"b", "a"}
	}
	type fam struct {
		name string
		tags []string
	}
	layout := []fam{{"f1", f1}, {"f2", []string{"c"}}}
	switch zzverif.Choice("families", 4) {
	case 1:
		layout = []fam{{"f2", []string{"c"}}, {"f1", f1}}
	case 2:
		layout = []fam{{"f1", f1}}
	case 3:
		layout = []fam{{"f2", []string{"c"}}}
	}
	var spec []*measurev1.TagFamilySpec
	var write []*modelv1.TagFamilyForWrite
	carried := map[string]bool{}
	for _, f := range layout {
		spec = append(spec, &measurev1.TagFamilySpec{Name: f.name, TagNames: f.tags})
		w := &modelv1.TagFamilyForWrite{}
		for _, t := range f.tags {
			carried[t] = true
			w.Tags = append(w.Tags, &modelv1.TagValue{Value: &modelv1.TagValue_Int{Int: &modelv1.Int{Value: vals[t]}}})
		}
		write = append(write, w)
	}
	entityTags := []string{"c", "a"}
	loc := newSpecLocator(schemaFamilies, entityTags, spec)
	_, ev, err := loc.Find("subject", write)
	zzverif.Reach("located")
	zzverif.Assert(err == nil && len(ev) == 3, "the entity is found")
	if err != nil || len(ev) != 3 {
		return
	}
	for i, t := range entityTags {
		got := ev[i+1]
		if carried[t] {
			iv, ok := got.GetValue().(*modelv1.TagValue_Int)
			zzverif.Assert(ok && iv.Int.GetValue() == vals[t], "an entity tag carries the value the request gives that tag")
		} else {
			_, isNull := got.GetValue().(*modelv1.TagValue_Null)
			zzverif.Assert(isNull, "an entity tag the request does not carry is NULL")
		}
	}
}
