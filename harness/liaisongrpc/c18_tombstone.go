//go:build verif

// verif:dir banyand/liaison/grpc
package grpc

import (
	modelv1 "github.com/apache/skywalking-banyandb/api/proto/banyandb/model/v1"
	propertyv1 "github.com/apache/skywalking-banyandb/api/proto/banyandb/property/v1"
	"github.com/apache/skywalking-banyandb/pkg/logger"
	"github.com/apache/skywalking-banyandb/pkg/zzverif"
)

//verif:harness prop=C18 tier=quick,thorough reach=resolved paths=600000
// Deletes win over the value they delete, on every replica order: a delete keeps the
// modification revision of the value it removes, so when one replica answers with the tombstone
// and another (which missed the delete) with the still-live copy of the SAME revision, the key's
// current state is the tombstone - for queries (unordered and ordered: the key is not returned,
// and the replica holding the stale live copy is not counted as up to date, so that it gets
// repaired) and for Apply's choice of the previous state - independent of the order in which
// nodes and map entries are visited.
// bound: one key, 2 nodes with one copy each, arbitrary revisions (equal or not), each copy live or deleted; unordered | ascending | descending; map iteration order symbolic
func VerifH_C18_TombstoneBeatsLiveCopyOfTheSameRevision() {
	zzverif.SymbolicMapOrder()
	ps := &propertyServer{discoveryService: &discoveryService{log: logger.GetLogger("c18")}}
	answers := map[string][]*propertyWithMetadata{}
	var all []*propertyWithMetadata
	for _, node := range []string{"n1", "n2"} {
		p := c18Prop("a", nil)
		p.Metadata.ModRevision = zzverif.Int64("rev")
		pm := &propertyWithMetadata{Property: p, node: node, sortedValue: []byte{zzverif.Byte("sort value")}}
		if zzverif.Bool("deleted") {
			pm.deletedTime = 9
		}
		answers[node] = []*propertyWithMetadata{pm}
		all = append(all, pm)
	}
	// the key's current state: greatest revision; at equal revisions a tombstone is the later state
	cur := all[0]
	o := all[1]
	if o.Metadata.ModRevision > cur.Metadata.ModRevision || (o.Metadata.ModRevision == cur.Metadata.ModRevision && o.deletedTime > 0 && cur.deletedTime <= 0) {
		cur = o
	}
	var out []*propertyWithCount
	switch zzverif.Choice("query", 3) {
	case 0:
		out = ps.simpleDedupWithoutSort(answers)
	case 1:
		out = ps.sortedQueryWithDedup(answers, &propertyv1.QueryRequest{Limit: 10, OrderBy: &propertyv1.QueryOrder{TagName: "t", Sort: modelv1.Sort_SORT_ASC}})
	default:
		out = ps.sortedQueryWithDedup(answers, &propertyv1.QueryRequest{Limit: 10, OrderBy: &propertyv1.QueryOrder{TagName: "t", Sort: modelv1.Sort_SORT_DESC}})
	}
	prev, _ := ps.findPrevAndOlderProperties(answers)
	zzverif.Reach("resolved")
	zzverif.Assert(len(out) == 1, "one result per key")
	if len(out) != 1 {
		return
	}
	w := out[0]
	zzverif.Assert(w.Metadata.ModRevision == cur.Metadata.ModRevision, "the greatest revision wins")
	zzverif.Assert((w.deletedTime > 0) == (cur.deletedTime > 0), "at equal revisions the tombstone is the key's state: a deleted key is not returned because one replica missed the delete")
	same := 0
	for _, p := range all {
		if p.Metadata.ModRevision == cur.Metadata.ModRevision && (p.deletedTime > 0) == (cur.deletedTime > 0) {
			same++
		}
	}
	zzverif.Assert(len(w.existNodes) == same, "only replicas that hold the winning state count as up to date (the others get repaired)")
	zzverif.Assert(prev != nil && prev.Metadata.ModRevision == cur.Metadata.ModRevision && (prev.deletedTime > 0) == (cur.deletedTime > 0), "Apply resolves the previous state the same way")
}
