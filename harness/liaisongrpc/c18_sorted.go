//go:build verif

// verif:dir banyand/liaison/grpc
package grpc

import (
	modelv1 "github.com/apache/skywalking-banyandb/api/proto/banyandb/model/v1"
	propertyv1 "github.com/apache/skywalking-banyandb/api/proto/banyandb/property/v1"
	"github.com/apache/skywalking-banyandb/pkg/logger"
	"github.com/apache/skywalking-banyandb/pkg/zzverif"
)

//verif:harness prop=C18 tier=quick,thorough reach=deduped paths=600000 timeout=60000
// Ordered property queries across replicas: each node answers in the requested order; the
// liaison's k-way merge returns exactly one result per property key, the one with the greatest
// modification revision any replica answered with (a lagging replica's older live copy never
// survives next to the newer one, wherever its sort value puts it), and the results are in the
// requested order of their sort values.
// bound: 2 nodes with 0..2 answers each over 2 property ids (an id at most once per node), arbitrary revisions, 1-byte sort values; ascending or descending
func VerifH_C18_SortedQueryDedup() {
	ps := &propertyServer{discoveryService: &discoveryService{log: logger.GetLogger("c18")}}
	ids := []string{"a", "b"}
	desc := zzverif.Bool("descending")
	req := &propertyv1.QueryRequest{Limit: 10, OrderBy: &propertyv1.QueryOrder{TagName: "t", Sort: modelv1.Sort_SORT_ASC}}
	if desc {
		req.OrderBy.Sort = modelv1.Sort_SORT_DESC
	}
	answers := map[string][]*propertyWithMetadata{}
	type rec struct {
		id   int
		rev  int64
		sort byte
	}
	var all []rec
	for _, node := range []string{"n1", "n2"} {
		n := zzverif.Choice("answers", 3)
		used := -1
		for i := 0; i < n; i++ {
			id := 0
			if zzverif.Bool("second id") {
				id = 1
			}
			zzverif.Assume(id != used)
			used = id
			rev := zzverif.Int64("rev")
			sv := zzverif.Byte("sort value")
			if i > 0 { // a node answers in the requested order
				prev := answers[node][i-1].sortedValue[0]
				if desc {
					zzverif.Assume(prev >= sv)
				} else {
					zzverif.Assume(prev <= sv)
				}
			}
			p := c18Prop(ids[id], nil)
			p.Metadata.ModRevision = rev
			answers[node] = append(answers[node], &propertyWithMetadata{Property: p, node: node, sortedValue: []byte{sv}})
			all = append(all, rec{id, rev, sv})
		}
	}
	out := ps.sortedQueryWithDedup(answers, req)
	zzverif.Reach("deduped")
	for id := range ids {
		present := false
		for _, r := range all {
			if r.id == id {
				present = true
			}
		}
		cnt := 0
		for _, o := range out {
			if o.Id == ids[id] {
				cnt++
				for _, r := range all {
					if r.id == id {
						zzverif.Assert(r.rev <= o.Metadata.ModRevision, "the returned version has the greatest modification revision among all replicas' answers")
					}
				}
			}
		}
		if present {
			zzverif.Assert(cnt == 1, "exactly one result per property key")
		} else {
			zzverif.Assert(cnt == 0, "no result for a key nobody answered")
		}
	}
	for i := 1; i < len(out); i++ {
		a, b := out[i-1].sortedValue[0], out[i].sortedValue[0]
		if desc {
			zzverif.Assert(a >= b, "results are in descending order of the sort value")
		} else {
			zzverif.Assert(a <= b, "results are in ascending order of the sort value")
		}
	}
}

//verif:harness prop=C18 tier=quick,thorough reach=chosen paths=400000
// Apply resolves the current state of a key from all replicas' copies, tombstones included: the
// previous version it merges into / supersedes is the copy with the greatest modification
// revision of all - a tombstone with a higher revision hides a lagging replica's stale live copy -
// and exactly the live copies are scheduled for deletion after the apply.
// bound: 2 nodes with 0..2 copies each, arbitrary revisions, each copy live or deleted; map iteration order symbolic
func VerifH_C18_ApplyPreviousStateCountsTombstones() {
	zzverif.SymbolicMapOrder()
	ps := &propertyServer{discoveryService: &discoveryService{log: logger.GetLogger("c18")}}
	answers := map[string][]*propertyWithMetadata{}
	var all []*propertyWithMetadata
	for _, node := range []string{"n1", "n2"} {
		n := zzverif.Choice("copies", 3)
		for i := 0; i < n; i++ {
			p := c18Prop("a", nil)
			p.Metadata.ModRevision = zzverif.Int64("rev")
			pm := &propertyWithMetadata{Property: p, node: node}
			if zzverif.Bool("deleted") {
				pm.deletedTime = 1
			}
			answers[node] = append(answers[node], pm)
			all = append(all, pm)
		}
	}
	prev, older := ps.findPrevAndOlderProperties(answers)
	zzverif.Reach("chosen")
	zzverif.Assert((prev == nil) == (len(all) == 0), "there is a previous state exactly when some replica holds a copy")
	live := 0
	for _, p := range all {
		if prev != nil {
			zzverif.Assert(p.Metadata.ModRevision <= prev.Metadata.ModRevision, "the previous state is the copy with the greatest modification revision, live or deleted")
		}
		if p.deletedTime <= 0 {
			live++
			found := false
			for _, o := range older {
				if o == p {
					found = true
				}
			}
			zzverif.Assert(found, "every live copy is scheduled for deletion after the apply")
		}
	}
	zzverif.Assert(len(older) == live, "only live copies are scheduled for deletion")
}
