//go:build verif

// verif:dir pkg/query/logical/trace
package trace

import (
	commonv1 "github.com/apache/skywalking-banyandb/api/proto/banyandb/common/v1"
	databasev1 "github.com/apache/skywalking-banyandb/api/proto/banyandb/database/v1"
	tracev1 "github.com/apache/skywalking-banyandb/api/proto/banyandb/trace/v1"
	"github.com/apache/skywalking-banyandb/pkg/query/executor"
	"github.com/apache/skywalking-banyandb/pkg/query/logical"
	"github.com/apache/skywalking-banyandb/pkg/zzverif"
)

func c09FindScan(p logical.Plan) *localScan {
	if s, ok := p.(*localScan); ok {
		return s
	}
	for _, c := range p.Children() {
		if s := c09FindScan(c); s != nil {
			return s
		}
	}
	return nil
}

//verif:harness prop=C09 tier=quick,thorough reach=planned paths=10000
// Stand-alone limit/offset planning for traces: the scan below the limit node may stop only
// after offset+limit traces, computed without wrapping (see the stream harness).
// bound: arbitrary uint32 limit and offset (0 = default limit); one trace schema, no criteria, projection of one tag
func VerifH_C09_TraceStandaloneScanCapCoversTheWindow() {
	limitV, offset := zzverif.Uint32("limit"), zzverif.Uint32("offset")
	md := &commonv1.Metadata{Name: "t", Group: "g"}
	tr := &databasev1.Trace{
		Metadata: md,
		Tags: []*databasev1.TraceTagSpec{
			{Name: "trace_id", Type: databasev1.TagType_TAG_TYPE_STRING},
			{Name: "span_id", Type: databasev1.TagType_TAG_TYPE_STRING},
			{Name: "ts", Type: databasev1.TagType_TAG_TYPE_TIMESTAMP},
			{Name: "a", Type: databasev1.TagType_TAG_TYPE_STRING},
		},
		TraceIdTagName: "trace_id", SpanIdTagName: "span_id", TimestampTagName: "ts",
	}
	s, err := BuildSchema(tr, nil)
	zzverif.Assert(err == nil, "the schema builds")
	q := &tracev1.QueryRequest{Name: "t", Groups: []string{"g"}, Limit: limitV, Offset: offset, TagProjection: []string{"a"}}
	p, err := Analyze(q, []*commonv1.Metadata{md}, []logical.Schema{s}, []executor.TraceExecutionContext{nil},
		[]string{"trace_id"}, []string{"span_id"}, []string{"ts"})
	zzverif.Reach("planned")
	zzverif.Assert(err == nil && p != nil, "the query is planned")
	if err != nil || p == nil {
		return
	}
	l := uint64(limitV)
	if limitV == 0 {
		l = uint64(defaultLimit)
	}
	scan := c09FindScan(p)
	zzverif.Assert(scan != nil, "the plan scans the trace store")
	if scan != nil {
		zzverif.Assert(uint64(scan.maxTraceSize) == l+uint64(offset), "the scan may stop only after offset+limit traces")
	}
}
