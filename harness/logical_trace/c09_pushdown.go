//go:build verif

// verif:dir pkg/query/logical/trace
package trace

import (
	modelv1 "github.com/apache/skywalking-banyandb/api/proto/banyandb/model/v1"
	tracev1 "github.com/apache/skywalking-banyandb/api/proto/banyandb/trace/v1"
	"github.com/apache/skywalking-banyandb/pkg/query/logical"
	"github.com/apache/skywalking-banyandb/pkg/zzverif"
)

type c09Schema struct{ logical.Schema }

//verif:harness prop=C09,C17 tier=quick,thorough reach=planned paths=10000
// Distributed limit/offset push-down: the liaison cuts the merged, ordered stream of all data
// nodes to rows [offset, offset+limit). That window is only right if every node is asked for
// its first offset+limit rows (offset 0): the request template sent to the nodes carries
// exactly limit+offset - computed without wrapping, so that "no limit" (MaxUint32) with an
// offset does not turn into a tiny per-node limit - and no offset of its own.
// bound: arbitrary uint32 limit and offset (0 = default limit), no ORDER BY | ORDER BY time ASC/DESC
func VerifH_C09_DistributedPushDownAsksForTheWholeWindow() {
	limit, offset := zzverif.Uint32("limit"), zzverif.Uint32("offset")
	q := &tracev1.QueryRequest{Name: "s", Groups: []string{"g"}, Limit: limit, Offset: offset}
	switch zzverif.Choice("order", 3) {
	case 1:
		q.OrderBy = &modelv1.QueryOrder{Sort: modelv1.Sort_SORT_ASC}
	case 2:
		q.OrderBy = &modelv1.QueryOrder{Sort: modelv1.Sort_SORT_DESC}
	}
	p, err := (&unresolvedTraceDistributed{originalQuery: q}).Analyze(c09Schema{})
	zzverif.Reach("planned")
	zzverif.Assert(err == nil && p != nil, "a plain distributed query is planned")
	dp, ok := p.(*distributedPlan)
	zzverif.Assert(ok, "the plan is the distributed plan")
	if !ok {
		return
	}
	l := uint64(limit)
	if limit == 0 {
		l = uint64(defaultLimit)
	}
	want := l + uint64(offset)
	if want > 0xFFFFFFFF {
		want = 0xFFFFFFFF // more rows than a node can be asked for: everything it has
	}
	zzverif.Assert(uint64(dp.queryTemplate.Limit) == want, "every node is asked for its first offset+limit rows")
	zzverif.Assert(dp.queryTemplate.Offset == 0, "nodes apply no offset of their own")
	zzverif.Assert(dp.desc == (q.OrderBy != nil && q.OrderBy.Sort == modelv1.Sort_SORT_DESC), "the merge direction follows the query")
}
