//go:build verif

// verif:dir pkg/query/logical/trace
package trace

import (
	"context"
	"math"

	commonv1 "github.com/apache/skywalking-banyandb/api/proto/banyandb/common/v1"
	databasev1 "github.com/apache/skywalking-banyandb/api/proto/banyandb/database/v1"
	modelv1 "github.com/apache/skywalking-banyandb/api/proto/banyandb/model/v1"
	tracev1 "github.com/apache/skywalking-banyandb/api/proto/banyandb/trace/v1"
	pbv1 "github.com/apache/skywalking-banyandb/pkg/pb/v1"
	"github.com/apache/skywalking-banyandb/pkg/query/executor"
	"github.com/apache/skywalking-banyandb/pkg/query/logical"
	"github.com/apache/skywalking-banyandb/pkg/query/model"
	"github.com/apache/skywalking-banyandb/pkg/zzverif"
)

// c08EC is the execution context the analyzer needs: it only hands out the tag value decoder.
type c08EC struct{}

func (c08EC) Query(context.Context, model.TraceQueryOptions) (model.TraceQueryResult, error) {
	return nil, nil
}

func (c08EC) GetTagValueDecoder() model.TagValueDecoder {
	return func(pbv1.ValueType, []byte, [][]byte) *modelv1.TagValue { return pbv1.NullTagValue }
}

func c08FindTagFilter(p logical.Plan) *traceTagFilterPlan {
	if s, ok := p.(*traceTagFilterPlan); ok {
		return s
	}
	for _, c := range p.Children() {
		if s := c08FindTagFilter(c); s != nil {
			return s
		}
	}
	return nil
}

func c08Pick(label string, n int) int {
	k := 0
	for sym := zzverif.Choice(label, n); k < n-1 && sym != k; {
		k++
	}
	return k
}

// c08CondInfo describes a generated condition for the known-finding signatures.
type c08CondInfo struct {
	onSortTag bool // condition on the sort tag d
	eqNe      bool // = or != on the sort tag
	extreme   bool // range condition on the sort tag whose derived key bound is math.MinInt64/MaxInt64 at the wrong end
}

// c08Sentinel: the key bound derived from the range condition collides with the "no bound"
// sentinel of extractBoundsFromCondition (min == MaxInt64 / max == MinInt64).
func c08Sentinel(op int, lit int64) bool {
	switch op {
	case 0: // d > lit: min = lit+1
		return lit >= math.MaxInt64-1
	case 1: // d >= lit: min = lit
		return lit == math.MaxInt64
	case 2: // d < lit: max = lit-1
		return lit <= math.MinInt64+1
	case 3: // d <= lit: max = lit
		return lit == math.MinInt64
	}
	return false
}

// c08Cond builds one condition and reports whether the row (d, s) satisfies it.
func c08Cond(d int64, s string) (*modelv1.Criteria, bool, c08CondInfo) {
	if c08Pick("condition on", 2) == 0 { // on the sort tag d
		lit := zzverif.Int64("literal")
		ops := []modelv1.Condition_BinaryOp{
			modelv1.Condition_BINARY_OP_GT, modelv1.Condition_BINARY_OP_GE, modelv1.Condition_BINARY_OP_LT, modelv1.Condition_BINARY_OP_LE,
			modelv1.Condition_BINARY_OP_EQ, modelv1.Condition_BINARY_OP_NE,
		}
		o := c08Pick("op", len(ops))
		var m bool
		switch o {
		case 0:
			m = d > lit
		case 1:
			m = d >= lit
		case 2:
			m = d < lit
		case 3:
			m = d <= lit
		case 4:
			m = d == lit
		default:
			m = d != lit
		}
		return &modelv1.Criteria{Exp: &modelv1.Criteria_Condition{Condition: &modelv1.Condition{
			Name: "d", Op: ops[o], Value: &modelv1.TagValue{Value: &modelv1.TagValue_Int{Int: &modelv1.Int{Value: lit}}},
		}}}, m, c08CondInfo{onSortTag: true, eqNe: o >= 4, extreme: c08Sentinel(o, lit)}
	}
	lit := []string{"x", "y"}[c08Pick("literal", 2)]
	ops := []modelv1.Condition_BinaryOp{modelv1.Condition_BINARY_OP_EQ, modelv1.Condition_BINARY_OP_NE}
	o := c08Pick("op", 2)
	m := s == lit
	if o == 1 {
		m = s != lit
	}
	return &modelv1.Criteria{Exp: &modelv1.Criteria_Condition{Condition: &modelv1.Condition{
		Name: "s", Op: ops[o], Value: &modelv1.TagValue{Value: &modelv1.TagValue_Str{Str: &modelv1.Str{Value: lit}}},
	}}}, m, c08CondInfo{}
}

//verif:harness prop=C08 tier=quick,thorough reach=planned paths=100000
// A trace query ordered by an indexed int tag implements the conditions on that tag by the key
// range [minVal, maxVal] handed to the secondary index and drops them from the row-level tag
// filter. Range and filter together must select exactly the spans that satisfy the criteria:
// for every criteria tree and every span (sort-tag value d, another tag s), the span lies in the
// key range and passes the plan's tag filter iff the criteria hold for it.
// Known finding F21: (a) = and != on the sort tag, and range conditions whose derived
// bound collides with the "no bound" sentinel (e.g. d > MaxInt64-1, d < MinInt64+1), yield no key bounds and are dropped from the row filter all the same:
// spans that fail them are returned; an OR with a side on the sort tag widens the key range to
// everything and drops that side: (b) `d-condition OR s-condition` returns only spans passing the
// s-condition (spans passing the d-condition alone are lost), `d-cond OR d-cond` returns all.
// bound: criteria = one condition or (c1 AND|OR c2); conditions on the sort tag d (> >= < <= = != arbitrary int64 literal) or on a string tag s (= != "x"|"y"); arbitrary d, s in {"x","y","z"}; real Analyze -> localScan{minVal,maxVal} + traceTagFilterPlan
func VerifH_C08_TraceOrderByRangePlusFilterSelectExactly() {
	d := zzverif.Int64("d")
	sv := []string{"x", "y", "z"}[c08Pick("s", 3)]
	var criteria *modelv1.Criteria
	var want bool
	// known finding F21: what the key range cannot express about the sort tag is dropped
	var sigExtra, sigMissing bool
	if c08Pick("shape", 2) == 0 {
		var ci c08CondInfo
		criteria, want, ci = c08Cond(d, sv)
		sigExtra = zzverif.Or(ci.eqNe, ci.extreme)
	} else {
		l, lm, li := c08Cond(d, sv)
		r, rm, ri := c08Cond(d, sv)
		sigExtra = zzverif.Or(zzverif.Or(li.eqNe, li.extreme), zzverif.Or(ri.eqNe, ri.extreme))
		op := modelv1.LogicalExpression_LOGICAL_OP_AND
		want = zzverif.And(lm, rm)
		if c08Pick("logical op", 2) == 1 {
			op = modelv1.LogicalExpression_LOGICAL_OP_OR
			want = zzverif.Or(lm, rm)
			sigExtra = zzverif.Or(sigExtra, li.onSortTag || ri.onSortTag)
			// on the unchanged tree the spans lost are those that satisfy ONLY the sort-tag side
			if li.onSortTag && !ri.onSortTag {
				sigMissing = !rm
			} else if ri.onSortTag && !li.onSortTag {
				sigMissing = !lm
			}
		}
		criteria = &modelv1.Criteria{Exp: &modelv1.Criteria_Le{Le: &modelv1.LogicalExpression{Op: op, Left: l, Right: r}}}
	}
	md := &commonv1.Metadata{Name: "t", Group: "g"}
	tr := &databasev1.Trace{
		Metadata: md,
		Tags: []*databasev1.TraceTagSpec{
			{Name: "trace_id", Type: databasev1.TagType_TAG_TYPE_STRING},
			{Name: "span_id", Type: databasev1.TagType_TAG_TYPE_STRING},
			{Name: "ts", Type: databasev1.TagType_TAG_TYPE_TIMESTAMP},
			{Name: "d", Type: databasev1.TagType_TAG_TYPE_INT},
			{Name: "s", Type: databasev1.TagType_TAG_TYPE_STRING},
		},
		TraceIdTagName: "trace_id", SpanIdTagName: "span_id", TimestampTagName: "ts",
	}
	rule := &databasev1.IndexRule{Metadata: &commonv1.Metadata{Name: "d", Group: "g", Id: 1}, Tags: []string{"d"}, Type: databasev1.IndexRule_TYPE_TREE}
	s, err := BuildSchema(tr, []*databasev1.IndexRule{rule})
	zzverif.Assert(err == nil, "the schema builds")
	q := &tracev1.QueryRequest{
		Name: "t", Groups: []string{"g"}, Criteria: criteria,
		OrderBy: &modelv1.QueryOrder{IndexRuleName: "d", Sort: modelv1.Sort_SORT_ASC},
	}
	p, err := Analyze(q, []*commonv1.Metadata{md}, []logical.Schema{s}, []executor.TraceExecutionContext{c08EC{}},
		[]string{"trace_id"}, []string{"span_id"}, []string{"ts"})
	zzverif.Reach("planned")
	zzverif.Assert(err == nil && p != nil, "the query is planned")
	if err != nil || p == nil {
		return
	}
	scan := c09FindScan(p)
	zzverif.Assert(scan != nil, "the plan scans the trace store")
	if scan == nil {
		return
	}
	selected := zzverif.And(scan.minVal <= d, d <= scan.maxVal)
	if tf := c08FindTagFilter(p); tf != nil {
		// the span as the scan returns it: the projected tags, in the projection's order
		fam := &modelv1.TagFamily{Name: ""}
		for _, name := range scan.projectionTags.Names {
			switch name {
			case "d":
				fam.Tags = append(fam.Tags, &modelv1.Tag{Key: "d", Value: &modelv1.TagValue{Value: &modelv1.TagValue_Int{Int: &modelv1.Int{Value: d}}}})
			case "s":
				fam.Tags = append(fam.Tags, &modelv1.Tag{Key: "s", Value: &modelv1.TagValue{Value: &modelv1.TagValue_Str{Str: &modelv1.Str{Value: sv}}}})
			default:
				fam.Tags = append(fam.Tags, &modelv1.Tag{Key: name, Value: pbv1.NullTagValue})
			}
		}
		row := []*modelv1.TagFamily{fam}
		ok, merr := tf.tagFilter.Match(logical.TagFamilies(row), tf.s)
		zzverif.Assert(merr == nil, "the row filter evaluates")
		selected = zzverif.And(selected, ok)
	}
	zzverif.AssertExcept(zzverif.Implies(want, selected), "a span that satisfies the criteria is inside the key range and passes the row filter", "F21-sort-tag-or", sigMissing)
	zzverif.AssertExcept(zzverif.Implies(selected, want), "a span inside the key range that passes the row filter satisfies the criteria", "F21-sort-tag-dropped", sigExtra)
}
