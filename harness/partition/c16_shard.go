//go:build verif

// verif:dir pkg/partition
package partition

import (
	modelv1 "github.com/apache/skywalking-banyandb/api/proto/banyandb/model/v1"
	"github.com/apache/skywalking-banyandb/pkg/zzverif"
)

//verif:harness prop=C16 tier=quick,thorough reach=inrange,rejected
// ShardID / TraceShardID: for every hash function (xxhash is an uninterpreted function here), every
// key and every shard count >= 1 the shard is < shardNum; shardNum 0 is an error (ShardID) or
// shard 0 (TraceShardID), never a division by zero; equal inputs give equal shards.
// bound: keys of 0..3 arbitrary bytes, arbitrary uint32 shard count
func VerifH_C16_ShardIDRange() {
	key := zzverif.Bytes("key", zzverif.Choice("len", 4))
	n := zzverif.Uint32("shardNum")
	id, err := ShardID(key, n)
	id2, _ := ShardID(key, n)
	zzverif.Assert(id == id2, "ShardID is a function of (key, shardNum)")
	t := TraceShardID(string(key), n)
	if n == 0 {
		zzverif.Reach("rejected")
		zzverif.Assert(err != nil, "ShardID rejects shardNum 0")
		zzverif.Assert(t == 0, "TraceShardID returns shard 0 for shardNum 0")
		return
	}
	zzverif.Reach("inrange")
	zzverif.Assert(err == nil, "ShardID accepts shardNum >= 1")
	zzverif.Assert(uint64(id) < uint64(n), "ShardID result is below shardNum")
	zzverif.Assert(uint32(t) < n, "TraceShardID result is below shardNum")
}

//verif:harness prop=C16 tier=quick,thorough reach=located
// Locator.Locate: the shard of a write is a function of (subject, entity tag values, shard
// count) only: tags that are not part of the entity do not influence it, it is in range, and a
// locator pointing outside the written tags is an error, not a panic.
// bound: 1 tag family with 2 tags (1 entity tag + 1 other), string/int values of <= 2 bytes
func VerifH_C16_LocateDependsOnEntityOnly() {
	mk := func(other *modelv1.TagValue, ent *modelv1.TagValue) []*modelv1.TagFamilyForWrite {
		return []*modelv1.TagFamilyForWrite{{Tags: []*modelv1.TagValue{other, ent}}}
	}
	ent := &modelv1.TagValue{Value: &modelv1.TagValue_Str{Str: &modelv1.Str{Value: zzverif.String("ent", zzverif.Choice("entlen", 3))}}}
	o1 := &modelv1.TagValue{Value: &modelv1.TagValue_Int{Int: &modelv1.Int{Value: zzverif.Int64("o1")}}}
	o2 := &modelv1.TagValue{Value: &modelv1.TagValue_Int{Int: &modelv1.Int{Value: zzverif.Int64("o2")}}}
	n := zzverif.Uint32("shardNum")
	zzverif.Assume(n >= 1)
	l := Locator{TagLocators: []TagLocator{{FamilyOffset: 0, TagOffset: 1}}}
	_, s1, err1 := l.Locate("subject", mk(o1, ent), n)
	_, s2, err2 := l.Locate("subject", mk(o2, ent), n)
	zzverif.Reach("located")
	zzverif.Assert(err1 == nil && err2 == nil, "Locate succeeds on well-formed writes")
	zzverif.Assert(s1 == s2, "non-entity tag values do not influence the shard")
	zzverif.Assert(uint32(s1) < n, "shard is below the shard count")
	bad := Locator{TagLocators: []TagLocator{{FamilyOffset: 0, TagOffset: 2}}}
	_, _, err3 := bad.Locate("subject", mk(o1, ent), n)
	zzverif.Assert(err3 != nil, "a locator beyond the written tags is rejected with an error")
}
