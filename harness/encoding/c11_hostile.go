//go:build verif

// verif:dir pkg/encoding
package encoding

import (
	"github.com/apache/skywalking-banyandb/pkg/zzverif"
)

// hostile returns an arbitrary byte string of length 0..max.
func hostile(max int) []byte {
	n := zzverif.Choice("len", max+1)
	return zzverif.Bytes("src", n)
}

//verif:harness prop=C11 tier=quick,thorough reach=returned alloc=1024 paths=200000
// Every error-returning integer/bytes decoder, fed arbitrary bytes, returns a value or an error:
// no index/slice panic, no unbounded allocation. (zstd frames are opaque: Decompress returns an
// arbitrary short result or an error.)
// bound: src length 0..5 bytes (thorough 0..7), item counts 1..3
// outside: itemsCount < 1 for the delta decoders (block metadata; guarded by a BUG panic by design)
func VerifH_C11_Hostile_Ints() {
	src := hostile(5)
	switch zzverif.Choice("decoder", 7) {
	case 0:
		dst := make([]int64, 1+zzverif.Choice("n", 3))
		_, _ = BytesToVarInt64List(dst, src)
	case 1:
		dst := make([]uint64, 1+zzverif.Choice("n", 3))
		_, _ = BytesToVarUint64s(dst, src)
	case 2:
		_, _, _ = DecodeBytes(src)
	case 3:
		_, _, _ = decompressBlock(nil, src)
	case 4:
		_, _ = decodeUint64List(nil, src, zzverif.Uint64("count"))
	case 5:
		_, _, _ = DecodeUint64Block(nil, src, zzverif.Uint64("count"))
	case 6:
		_, _ = BytesToVarUint64(src)
	}
	zzverif.Reach("returned")
}

//verif:harness prop=C11 tier=quick,thorough reach=returned alloc=1024 paths=200000
// BytesToInt64List on arbitrary bytes, for each encode type and item counts >= 1 (>= 2 for
// delta-of-delta, whose decoder guards smaller counts with a BUG panic by design).
// bound: src length 0..4, itemsCount in 1..3, arbitrary firstValue
func VerifH_C11_Hostile_Int64List() {
	src := hostile(4)
	mt := EncodeType(zzverif.Byte("mt"))
	n := 1 + zzverif.Choice("n", 3)
	if mt == EncodeTypeDeltaOfDelta {
		zzverif.Assume(n >= 2)
	}
	_, _ = BytesToInt64List(nil, src, mt, zzverif.Int64("first"), n)
	zzverif.Reach("returned")
}

//verif:harness prop=C11 tier=quick,thorough reach=returned alloc=48 unwind=100 paths=400000
// Bytes-block and dictionary decoders on arbitrary bytes.
// bound: src length 0..6 (thorough 0..8), itemsCount arbitrary uint64
func VerifH_C11_Hostile_Blocks() {
	src := hostile(6)
	count := zzverif.Uint64("count")
	switch zzverif.Choice("decoder", 4) {
	case 0:
		var d BytesBlockDecoder
		_, _ = d.Decode(nil, src, count)
	case 1:
		d := NewDictionary()
		_, _ = d.Decode(nil, src, count)
	case 2:
		_, _ = DecodeDictionaryValues(src)
	case 3:
		_, _ = decodeBitPacking(nil, src)
	}
	zzverif.Reach("returned")
}

//verif:harness prop=C11 tier=quick,thorough reach=returned alloc=48 unwind=100 paths=400000
// Dictionary.Decode on a well-formed value table followed by an arbitrary index section
// (bit-packed run-length pairs): value or error, no panic, no unbounded allocation.
// bound: 1 dictionary value of 1 byte; index section of 0..6 arbitrary bytes; itemsCount arbitrary
func VerifH_C11_Hostile_DictionaryIndexes() {
	prefix := VarUint64ToBytes(nil, 1)
	prefix = EncodeBytesBlock(prefix, [][]byte{{'a'}})
	n := zzverif.Choice("len", 7)
	src := append(prefix, zzverif.Bytes("idx", n)...)
	d := NewDictionary()
	_, _ = d.Decode(nil, src, zzverif.Uint64("count"))
	zzverif.Reach("returned")
}

//verif:harness prop=C11 tier=quick,thorough reach=returned paths=200000
// DecodeBytes with a maximal-length (10-byte) length prefix, i.e. claimed lengths up to 2^64-1:
// an error or a value, never a slice panic.
// bound: src of 10..11 arbitrary bytes
func VerifH_C11_Hostile_DecodeBytesLong() {
	src := zzverif.Bytes("src", 10+zzverif.Choice("extra", 2))
	_, _, _ = DecodeBytes(src)
	_, _ = BytesToVarUint64(src)
	zzverif.Reach("returned")
}
