//go:build verif

// verif:dir pkg/encoding
package encoding

import (
	"math"

	"github.com/apache/skywalking-banyandb/pkg/zzverif"
)

// Contract stub for floatToDecimal, used only under the symbolic executor (strconv's shortest
// digit generation is not encodable). The harness builds each input as f = RN(m * 10^e) with
// |m| < 10^15 and m mod 10 != 0; decimals of at most 15 significant digits survive
// decimal → binary64 → shortest decimal, so the real floatToDecimal(f) returns exactly (m, e).
// Natively the real function runs; the replayed witnesses compare (mantissa, exponent) observed
// on both sides, which re-validates this contract on every run.
var (
	vfdM [2]int64
	vfdE [2]int16
	vfdI int
)

func verifStubFloatToDecimal(f float64, buf []byte) (int64, int16, bool) {
	i := vfdI
	vfdI++
	return vfdM[i], vfdE[i], true
}

var vfdExps = []int{-1, -3, -17, -22, -23, -30, 0, 1, 22, 23}

// symDecimal returns (m, e, RN(m*10^e)) with 0 < |m| < 10^15, m mod 10 != 0, e from vfdExps.
func symDecimal(name string) (int64, int, float64) {
	q := zzverif.Int64(name + ".q")
	r := zzverif.Int64(name + ".r")
	neg := zzverif.Bool(name + ".neg")
	zzverif.Assume(q >= 0 && q < 100000000000000)
	zzverif.Assume(r >= 1 && r <= 9)
	m := q*10 + r
	m = zzverif.IteI(neg, -m, m)
	e := vfdExps[zzverif.Choice(name+".e", len(vfdExps))]
	return m, e, zzverif.Decimal(m, e)
}

//verif:harness prop=C11 tier=experimental reach=accepted,refused redirect=floatToDecimal:verifStubFloatToDecimal timeout=120000 random=0
// Float64ListToDecimalIntList → DecimalIntListToFloat64List returns the encoded float bit for bit,
// or the encoder refuses (callers then store the raw IEEE bits), for one float of up to 15
// significant decimal digits and decimal exponents on both sides of the exactness limits (10^22, 2^53).
// bound: one value f = RN(m*10^e), 0<|m|<10^15, m mod 10 != 0, e in {-1,-3,-17,-22,-23,-30,0,1,22,23}
// assume: floatToDecimal(f) == (m,e) for such f (contract stub; re-validated natively on every run)
// outside: mantissas of 16-17 digits, |e| > 48, NaN/Inf (refused by floatToDecimal), -0.0 (see C01 known finding)
func VerifH_C11_FloatDecimal_N1() {
	m, e, f := symDecimal("x")
	vfdM[0], vfdE[0], vfdI = m, int16(e), 0
	ints, exp, err := Float64ListToDecimalIntList(nil, []float64{f})
	if err != nil {
		zzverif.Reach("refused")
		return
	}
	zzverif.Reach("accepted")
	zzverif.ObserveI("mantissa", ints[0])
	zzverif.ObserveI("exp", int64(exp))
	dec, derr := DecimalIntListToFloat64List(nil, ints, exp, 1)
	zzverif.Assert(derr == nil && len(dec) == 1, "decoder accepts the encoder's output")
	zzverif.Assert(math.Float64bits(dec[0]) == math.Float64bits(f), "decimal float codec restores the float bit for bit")
}

//verif:harness prop=C11 tier=experimental reach=accepted redirect=floatToDecimal:verifStubFloatToDecimal timeout=180000 random=0 paths=4000
// Two floats with (possibly) different decimal exponents: the common-exponent rescaling
// (mulPow10Fast) keeps the round trip exact or the encoder refuses.
// bound: two values as in N1
func VerifH_C11_FloatDecimal_N2() {
	m0, e0, f0 := symDecimal("x")
	m1, e1, f1 := symDecimal("y")
	vfdM[0], vfdE[0], vfdM[1], vfdE[1], vfdI = m0, int16(e0), m1, int16(e1), 0
	ints, exp, err := Float64ListToDecimalIntList(nil, []float64{f0, f1})
	if err != nil {
		zzverif.Reach("refused")
		return
	}
	zzverif.Reach("accepted")
	dec, derr := DecimalIntListToFloat64List(nil, ints, exp, 2)
	zzverif.Assert(derr == nil && len(dec) == 2, "decoder accepts the encoder's output")
	zzverif.Assert(math.Float64bits(dec[0]) == math.Float64bits(f0), "first float restored bit for bit")
	zzverif.Assert(math.Float64bits(dec[1]) == math.Float64bits(f1), "second float restored bit for bit")
}

//verif:harness prop=C11 tier=quick,thorough reach=restores
// Kernel consistency: whenever the encoder's acceptance test (decimalsRestore) passes for
// (mantissa, exponent, want), the decoder returns want (numerically equal; identical bits unless
// want is a zero), for every int64 mantissa and every float64 want.
// bound: one value; exponent in {-23,-1,0,23} (thorough: also -400,-309,22,308)
func VerifH_C11_FloatKernelAgree() {
	exps := []int16{-23, -1, 0, 23}
	if zzverif.Thorough() {
		exps = []int16{-23, -1, 0, 23, -309, 22, -400, 308}
	}
	e := exps[zzverif.Choice("e", len(exps))]
	m := zzverif.Int64("m")
	want := zzverif.Float64("want")
	if !decimalsRestore([]int64{m}, e, []float64{want}) {
		zzverif.Reach("refuses")
		return
	}
	zzverif.Reach("restores")
	dec, err := DecimalIntListToFloat64List(nil, []int64{m}, e, 1)
	zzverif.Assert(err == nil && len(dec) == 1, "decoder returns one value")
	zzverif.Assert(dec[0] == want, "decoder returns the value the encoder verified")
	zzverif.Assert(zzverif.Or(want == 0, math.Float64bits(dec[0]) == math.Float64bits(want)), "bit-identical unless zero")
}
