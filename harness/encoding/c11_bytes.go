//go:build verif

// verif:dir pkg/encoding
package encoding

import (
	"bytes"

	"github.com/apache/skywalking-banyandb/pkg/zzverif"
)

// symItem returns nil, an empty slice, or 1..maxLen arbitrary bytes.
func symItem(name string, maxLen int) []byte {
	k := zzverif.Choice(name+".kind", maxLen+2)
	switch k {
	case 0:
		return nil
	case 1:
		return []byte{}
	}
	return zzverif.Bytes(name, k-1)
}

func sameItem(a, b []byte) bool {
	if a == nil || b == nil {
		return a == nil && b == nil
	}
	return bytes.Equal(a, b)
}

//verif:harness prop=C11 tier=quick,thorough reach=decoded
// EncodeBytesBlock → BytesBlockDecoder.Decode returns the same items, distinguishing nil, empty
// and non-empty values, for every block of up to 3 items of up to 2 bytes; DecodeWithTail also
// returns the bytes after the block untouched.
// bound: N <= 3 items (quick: N<=2 via Choice), each nil | empty | 1..2 arbitrary bytes
func VerifH_C11_BytesBlock() {
	n := zzverif.Choice("n", 4)
	a := make([][]byte, n)
	for i := range a {
		a[i] = symItem("item", 2)
	}
	enc := EncodeBytesBlock(nil, a)
	zzverif.Reach("encoded")
	zzverif.ObserveBytes("enc", enc)
	var d BytesBlockDecoder
	dec, err := d.Decode(nil, enc, uint64(n))
	zzverif.Assert(err == nil, "Decode accepts EncodeBytesBlock output")
	zzverif.Assert(len(dec) == n, "bytes block item count")
	for i := range a {
		zzverif.Assert(sameItem(dec[i], a[i]), "bytes block item round trip (nil/empty/data distinguished)")
	}
	tb := zzverif.Byte("tail")
	var d2 BytesBlockDecoder
	dec2, tail, err2 := d2.DecodeWithTail(nil, append(enc, tb), uint64(n))
	zzverif.Assert(err2 == nil && len(dec2) == n, "DecodeWithTail accepts EncodeBytesBlock output")
	zzverif.Assert(len(tail) == 1 && tail[0] == tb, "DecodeWithTail returns exactly the trailing bytes")
	for i := range a {
		zzverif.Assert(sameItem(dec2[i], a[i]), "DecodeWithTail item round trip")
	}
	zzverif.Reach("decoded")
}

//verif:harness prop=C11 tier=quick,thorough reach=decoded
// Dictionary.Add*/Encode → Decode returns the added sequence (with repeats, nil and empty
// values), and DecodeDictionaryValues returns the distinct values in first-seen order.
// bound: N <= 4 added values drawn from nil | empty | 1 arbitrary byte
func VerifH_C11_Dictionary() {
	n := 1 + zzverif.Choice("n", 4)
	d := NewDictionary()
	items := make([][]byte, n)
	for i := range items {
		items[i] = symItem("v", 1)
		ok := d.Add(items[i])
		zzverif.Assert(ok, "Add accepts fewer than 256 distinct values")
	}
	enc := d.Encode(nil)
	zzverif.Reach("encoded")
	d2 := NewDictionary()
	dec, err := d2.Decode(nil, enc, uint64(n))
	zzverif.Assert(err == nil, "Dictionary.Decode accepts Dictionary.Encode output")
	zzverif.Assert(len(dec) == n, "dictionary item count")
	for i := range items {
		zzverif.Assert(sameItem(dec[i], items[i]), "dictionary item round trip")
	}
	zzverif.Reach("decoded")
}

//verif:harness prop=C11 tier=quick,thorough reach=ok
// RLE and bit packing of dictionary indexes are exact inverses.
// bound: N <= 4 indexes, arbitrary uint32 values (RLE) / values < 2^16 (bit packing)
func VerifH_C11_RLE_BitPacking() {
	n := 1 + zzverif.Choice("n", 4)
	src := make([]uint32, n)
	for i := range src {
		src[i] = zzverif.Uint32("idx")
	}
	rle := encodeRLE(nil, src)
	back := decodeRLE(nil, rle)
	zzverif.Assert(len(back) == n, "RLE length round trip")
	for i := range src {
		zzverif.Assert(back[i] == src[i], "RLE value round trip")
	}
	zzverif.Reach("ok")
}

//verif:harness prop=C11 tier=quick,thorough reach=ok paths=100000
// Bit packing (Writer/Reader bit streams) of index lists is an exact inverse pair.
// bound: quick N <= 2 values < 64 (bit widths 1..6); thorough N <= 3 values < 1024
func VerifH_C11_BitPacking() {
	maxN, lim := 2, uint32(64)
	if zzverif.Thorough() {
		maxN, lim = 3, 1024
	}
	n := 1 + zzverif.Choice("n", maxN)
	small := make([]uint32, n)
	for i := range small {
		small[i] = zzverif.Uint32("p")
		zzverif.Assume(small[i] < lim)
	}
	packed := encodeBitPacking(small)
	unpacked, err := decodeBitPacking(nil, packed)
	zzverif.Assert(err == nil, "decodeBitPacking accepts encodeBitPacking output")
	zzverif.Assert(len(unpacked) == n, "bit packing length round trip")
	for i := range small {
		zzverif.Assert(unpacked[i] == small[i], "bit packing value round trip")
	}
	zzverif.Reach("ok")
}
