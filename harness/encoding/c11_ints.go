//go:build verif

// verif:dir pkg/encoding
package encoding

import (
	"github.com/apache/skywalking-banyandb/pkg/zzverif"
)

func int64ListRoundTrip(n int) {
	a := make([]int64, n)
	for i := range a {
		a[i] = zzverif.Int64("a")
	}
	enc, mt, first := Int64ListToBytes(nil, a)
	zzverif.Reach("encoded")
	zzverif.Observe("mt", uint64(mt))
	zzverif.ObserveBytes("enc", enc)
	dec, err := BytesToInt64List(nil, enc, mt, first, n)
	zzverif.Assert(err == nil, "decoder accepts the encoder's own output")
	zzverif.Assert(len(dec) == n, "decoded item count equals encoded item count")
	for i := range a {
		zzverif.Assert(dec[i] == a[i], "decoded int64 equals encoded int64")
	}
	zzverif.Reach("decoded")
}

//verif:harness prop=C11 tier=quick,thorough reach=encoded,decoded
// Int64ListToBytes → BytesToInt64List is the identity for every list of 1 and 2 int64 values
// (const, delta-const and delta modes; side channel firstValue included).
// bound: N in {1,2}, values are arbitrary 64-bit
func VerifH_C11_Int64List_N1_2() {
	if zzverif.Bool("two") {
		int64ListRoundTrip(2)
	} else {
		int64ListRoundTrip(1)
	}
}

//verif:harness prop=C11 tier=thorough reach=encoded,decoded paths=200000 depth=200 solver=z3-new timeout=180000
// Same for lists of exactly 3 values: all five encoder branches (const, delta-const, delta-of-delta by
// monotonicity, delta-of-delta by the "incremental" heuristic, delta) are reachable.
// (1215 paths; the delta-of-delta obligations are adder chains through zig-zag/varint re-assembly
// and take z3 5.1.0 about 90 CPU-minutes in total, hence thorough tier only.)
// bound: N = 3, values are arbitrary 64-bit
func VerifH_C11_Int64List_N3() {
	int64ListRoundTrip(3)
}

//verif:harness prop=C11 tier=quick,thorough reach=encoded,decoded paths=200000 depth=200
// Lists of 3 values in a reduced value range, so that the quick tier still reaches the
// delta-of-delta and heuristic branches that need at least three items.
// bound: N = 3, every value in [-2^15, 2^15)
func VerifH_C11_Int64List_N3_small() {
	a := make([]int64, 3)
	for i := range a {
		a[i] = int64(zzverif.Int16("a"))
	}
	enc, mt, first := Int64ListToBytes(nil, a)
	zzverif.Reach("encoded")
	zzverif.Observe("mt", uint64(mt))
	dec, err := BytesToInt64List(nil, enc, mt, first, 3)
	zzverif.Assert(err == nil, "decoder accepts the encoder's own output")
	zzverif.Assert(len(dec) == 3, "decoded item count equals encoded item count")
	for i := range a {
		zzverif.Assert(dec[i] == a[i], "decoded int64 equals encoded int64")
	}
	zzverif.Reach("decoded")
}

//verif:harness prop=C11 tier=quick,thorough reach=ok
// Variable-length and fixed-length scalar codecs are exact inverses and consume exactly their bytes.
// bound: one value per codec (plus a 2-element varint list); arbitrary 64-bit values; 1 trailing byte
func VerifH_C11_Scalars() {
	v := zzverif.Int64("v")
	tailByte := zzverif.Byte("tail")
	b := VarInt64ToBytes(nil, v)
	b = append(b, tailByte)
	tail, got, err := BytesToVarInt64(b)
	zzverif.Assert(err == nil, "BytesToVarInt64 accepts VarInt64ToBytes output")
	zzverif.Assert(got == v, "varint64 round trip")
	zzverif.Assert(len(tail) == 1 && tail[0] == tailByte, "varint64 consumes exactly its own bytes")

	u := zzverif.Uint64("u")
	ub := append(VarUint64ToBytes(nil, u), tailByte)
	utail, ugot := BytesToVarUint64(ub)
	zzverif.Assert(ugot == u, "varuint64 round trip")
	zzverif.Assert(len(utail) == 1 && utail[0] == tailByte, "varuint64 consumes exactly its own bytes")

	us := []uint64{u, zzverif.Uint64("u2")}
	usb := VarUint64sToBytes(nil, us)
	out := make([]uint64, 2)
	t2, err2 := BytesToVarUint64s(out, usb)
	zzverif.Assert(err2 == nil && len(t2) == 0, "BytesToVarUint64s accepts VarUint64sToBytes output")
	zzverif.Assert(out[0] == us[0] && out[1] == us[1], "varuint64 list round trip")

	zzverif.Assert(BytesToInt64(Int64ToBytes(nil, v)) == v, "fixed int64 (zig-zag) round trip")
	zzverif.Assert(BytesToUint64(Uint64ToBytes(nil, u)) == u, "fixed uint64 round trip")
	w := zzverif.Uint32("w")
	zzverif.Assert(BytesToUint32(Uint32ToBytes(nil, w)) == w, "fixed uint32 round trip")
	h := zzverif.Uint16("h")
	zzverif.Assert(BytesToUint16(Uint16ToBytes(nil, h)) == h, "fixed uint16 round trip")
	zzverif.Reach("ok")
}

//verif:harness prop=C11 tier=quick,thorough reach=ok
// EncodeUint64Block → DecodeUint64Block is the identity for 0..3 values (all four widths) and
// returns the bytes following the block untouched.
// bound: N <= 3 (N=3 only in one width class each), arbitrary 64-bit values, 1 trailing byte
func VerifH_C11_Uint64Block() {
	n := zzverif.Choice("n", 4)
	a := make([]uint64, n)
	for i := range a {
		a[i] = zzverif.Uint64("a")
	}
	tailByte := zzverif.Byte("tail")
	enc := append(EncodeUint64Block(nil, a), tailByte)
	dec, tail, err := DecodeUint64Block(nil, enc, uint64(n))
	zzverif.Assert(err == nil, "DecodeUint64Block accepts EncodeUint64Block output")
	zzverif.Assert(len(dec) == n, "uint64 block item count")
	for i := range a {
		zzverif.Assert(dec[i] == a[i], "uint64 block value round trip")
	}
	zzverif.Assert(len(tail) == 1 && tail[0] == tailByte, "uint64 block consumes exactly its own bytes")
	zzverif.Reach("ok")
}
