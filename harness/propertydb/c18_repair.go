//go:build verif

// verif:dir banyand/property/db
package db

import (
	"context"
	"strings"

	commonv1 "github.com/apache/skywalking-banyandb/api/proto/banyandb/common/v1"
	propertyv1 "github.com/apache/skywalking-banyandb/api/proto/banyandb/property/v1"
	"github.com/apache/skywalking-banyandb/pkg/index"
	"github.com/apache/skywalking-banyandb/pkg/logger"
	"github.com/apache/skywalking-banyandb/pkg/zzverif"
)

// the shard's index reduced to what repair sees of it: the stored revisions of one key and the
// documents it writes back
var (
	c18Local     []*queryProperty
	c18Tombstone [][]byte
	c18Updates   int
	c18Wrote     []index.Document
)

func c18StubBuildQuery(_ *propertyv1.QueryRequest, _, _ string) (index.Query, error) { return nil, nil }
func c18StubSearch(_ *shard, _ context.Context, _ index.Query, _ *propertyv1.QueryOrder, _ int) ([]*queryProperty, error) {
	return c18Local, nil
}
func c18StubBuildUpdate(_ *shard, id []byte, _ *propertyv1.Property, _ int64) (*index.Document, error) {
	return &index.Document{EntityValues: id}, nil
}
func c18StubBuildDelete(_ *shard, _ context.Context, ids [][]byte, _ int64) ([]index.Document, error) {
	c18Tombstone = append(c18Tombstone, ids...)
	docs := make([]index.Document, len(ids))
	for i := range ids {
		docs[i] = index.Document{EntityValues: ids[i]}
	}
	return docs, nil
}
func c18StubUpdate(_ *shard, docs index.Documents) error {
	c18Updates++
	c18Wrote = append(c18Wrote, docs...)
	return nil
}

//verif:harness prop=C18 tier=quick,thorough reach=repaired native=off paths=400000 redirect=inverted.BuildPropertyQuery:c18StubBuildQuery,shard.search:c18StubSearch,shard.buildUpdateDocument:c18StubBuildUpdate,shard.buildDeleteFromTimeDocuments:c18StubBuildDelete,shard.updateDocuments:c18StubUpdate
// Replica repair is last-writer-wins: a revision pushed by a peer is accepted exactly when it is
// newer than the NEWEST revision the shard holds for that key (or it is the tombstone of that very
// revision while the shard still holds it live); a stale revision - older than the newest local one, however many older ones
// the shard also holds and in whatever order the index returns them - changes nothing and the
// shard answers with its newest revision; when accepted, every live local revision is tombstoned
// and the pushed one is written, in one update.
// bound: 0..3 local revisions of the key with arbitrary modification revisions and deletion states, returned by the index in any order; arbitrary pushed revision and deletion time (0 | 5)
func VerifH_C18_RepairIsLastWriterWins() {
	s := &shard{l: logger.GetLogger("c18")}
	n := zzverif.Choice("local revisions", 4)
	c18Local, c18Tombstone, c18Updates, c18Wrote = nil, nil, 0, nil
	var newest *queryProperty
	for i := 0; i < n; i++ {
		q := &queryProperty{id: []byte{byte('a' + i)}, timestamp: zzverif.Int64("local revision")}
		if zzverif.Bool("local deleted") {
			q.deleteTime = 5
		}
		if newest != nil {
			zzverif.Assume(q.timestamp != newest.timestamp) // one document per revision
		}
		for _, o := range c18Local {
			zzverif.Assume(o.timestamp != q.timestamp)
		}
		c18Local = append(c18Local, q)
		if newest == nil || q.timestamp > newest.timestamp {
			newest = q
		}
	}
	rev := zzverif.Int64("pushed revision")
	del := int64(0)
	if zzverif.Bool("pushed deleted") {
		del = 5
	}
	p := &propertyv1.Property{Metadata: &commonv1.Metadata{Group: "g", Name: "n", ModRevision: rev}, Id: "k"}
	updated, selfNewer, err := s.repair(context.Background(), []byte("new"), p, del)
	zzverif.Reach("repaired")
	zzverif.Assert(err == nil, "repair succeeds")
	// at equal revisions only a tombstone may replace a live copy (a delete keeps the revision of the
	// value it removes); a live copy never replaces the tombstone of its own revision, otherwise two
	// replicas holding tombstone and live copy would swap states on every exchange and never converge
	accept := newest == nil || rev > newest.timestamp || (rev == newest.timestamp && newest.deleteTime <= 0 && del > 0)
	zzverif.Assert(updated == accept, "a pushed revision is accepted exactly when it is newer than the newest local revision")
	if !accept {
		zzverif.Assert(c18Updates == 0 && len(c18Tombstone) == 0, "a stale revision changes nothing")
		zzverif.Assert(selfNewer == newest, "…and the shard answers with its newest revision")
		return
	}
	zzverif.Assert(c18Updates == 1, "an accepted revision is written in one update")
	live := 0
	for _, q := range c18Local {
		if q.deleteTime > 0 {
			continue
		}
		live++
		found := false
		for _, id := range c18Tombstone {
			if string(id) == string(q.id) {
				found = true
			}
		}
		zzverif.Assert(found, "every live local revision is tombstoned when a newer one is accepted")
	}
	zzverif.Assert(len(c18Tombstone) == live, "only live revisions are tombstoned")
	wroteNew := false
	for _, d := range c18Wrote {
		if strings.EqualFold(string(d.EntityValues), "new") {
			wroteNew = true
		}
	}
	zzverif.Assert(wroteNew, "the accepted revision is written")
}
