//go:build verif

// verif:dir banyand/property/db
package db

import (
	"github.com/apache/skywalking-banyandb/pkg/zzverif"
)

//verif:harness prop=C18 tier=quick,thorough reach=parsed paths=10000
// Anti-entropy repair addresses a property by the leaf entity "group/name/id" of the Merkle
// tree; resolving a leaf gives back exactly the group, the name and the WHOLE id it was built
// from, also when the id itself contains the separator - otherwise the repair exchange looks up
// another key (or none) and replicas never converge on that property.
// bound: ids = every string of length 0..3 over the alphabet {a, /} (each path on one concrete id); group and name without separator
func VerifH_C18_LeafEntityRoundTrip() {
	id := ""
	n := zzverif.Choice("id length", 4)
	for i := 0; i < 3; i++ {
		if i >= n {
			break
		}
		if zzverif.Bool("separator") {
			id += "/"
		} else {
			id += "a"
		}
	}
	r := &repair{}
	leaf := r.buildLeafNodeEntity("g", "n", id)
	g, name, got, err := r.parseLeafNodeEntity(leaf)
	zzverif.Reach("parsed")
	zzverif.Assert(err == nil, "a leaf built by the tree parses")
	zzverif.Assert(g == "g" && name == "n", "group and name come back")
	zzverif.Assert(got == id, "the whole property id comes back, separators included")
}
