//go:build verif

// verif:dir banyand/queue/sub
package sub

import (
	clusterv1 "github.com/apache/skywalking-banyandb/api/proto/banyandb/cluster/v1"
	"github.com/apache/skywalking-banyandb/banyand/queue"
	"github.com/apache/skywalking-banyandb/pkg/logger"
	"github.com/apache/skywalking-banyandb/pkg/zzverif"
)

type c17Handler struct {
	chunks [][]byte
	names  []string
}

func (h *c17Handler) HandleFileChunk(ctx *queue.ChunkedSyncPartContext, chunk []byte) error {
	h.chunks = append(h.chunks, chunk)
	h.names = append(h.names, ctx.FileName)
	return nil
}

func (h *c17Handler) CreatePartHandler(*queue.ChunkedSyncPartContext) (queue.PartHandler, error) {
	return nil, nil
}

//verif:harness prop=C17 tier=quick,thorough reach=processed paths=200000
// Receiving one chunk of a part: whatever offsets and sizes the (possibly corrupted or hostile)
// file table of the request claims, the receiver does not crash; each file slice handed to the
// storage handler lies inside the chunk at the claimed offset and is no longer than claimed,
// and the received byte count never exceeds the announced total without an error.
// bound: chunk of 0..4 bytes, 1..2 file entries with arbitrary uint32 offset and size
func VerifH_C17_ProcessPartBounds() {
	s := &server{log: logger.GetLogger("c17")}
	data := zzverif.Bytes("chunk", zzverif.Choice("chunk.len", 5))
	nf := 1 + zzverif.Choice("files", 2)
	info := &clusterv1.PartInfo{PartType: "core"}
	names := []string{"f0", "f1"}
	for i := 0; i < nf; i++ {
		info.Files = append(info.Files, &clusterv1.FileInfo{Name: names[i], Offset: zzverif.Uint32("offset"), Size: zzverif.Uint32("size")})
	}
	req := &clusterv1.SyncPartRequest{ChunkData: data, PartsInfo: []*clusterv1.PartInfo{info}}
	h := &c17Handler{}
	session := &syncSession{sessionID: "s", metadata: &clusterv1.SyncMetadata{Topic: "t"}, partsProgress: map[int]*partProgress{}, partCtx: &queue.ChunkedSyncPartContext{}}
	err := s.processPart(session, req, info, 0, h)
	zzverif.Reach("processed")
	k := 0
	for i := 0; i < nf; i++ {
		f := info.Files[i]
		if uint64(f.Offset) >= uint64(len(data)) {
			continue // announced as not in this chunk
		}
		zzverif.Assert(k < len(h.chunks), "every file that starts inside the chunk is delivered")
		if k >= len(h.chunks) {
			return
		}
		c := h.chunks[k]
		k++
		zzverif.Assert(uint64(len(c)) <= uint64(f.Size), "a delivered slice is not longer than the announced size")
		zzverif.Assert(uint64(f.Offset)+uint64(len(c)) <= uint64(len(data)), "a delivered slice lies inside the chunk")
		for j := range c {
			zzverif.Assert(c[j] == data[int(f.Offset)+j], "a delivered slice is the chunk content at the announced offset")
		}
	}
	p := session.partsProgress[0]
	zzverif.Assert(p != nil, "progress is tracked")
	if p != nil {
		zzverif.Assert(zzverif.Or(err != nil, p.receivedBytes <= p.totalBytes), "received bytes never exceed the announced total without an error")
	}
}
