//go:build verif

// verif:dir banyand/queue/sub
package sub

import (
	"context"
	"fmt"
	"hash/crc32"

	clusterv1 "github.com/apache/skywalking-banyandb/api/proto/banyandb/cluster/v1"
	"github.com/apache/skywalking-banyandb/api/data"
	"github.com/apache/skywalking-banyandb/banyand/queue"
	"github.com/apache/skywalking-banyandb/pkg/bus"
	"github.com/apache/skywalking-banyandb/pkg/logger"
	"github.com/apache/skywalking-banyandb/pkg/zzverif"
)

// the storage side of a part transfer: records which chunk payloads were applied and whether
// the part was installed
type c17PartSink struct {
	applied  []byte
	finished int
	closed   int
}

func (h *c17PartSink) HandleFileChunk(_ *queue.ChunkedSyncPartContext, chunk []byte) error {
	h.applied = append(h.applied, chunk...)
	return nil
}
func (h *c17PartSink) CreatePartHandler(*queue.ChunkedSyncPartContext) (queue.PartHandler, error) {
	return h, nil
}
func (h *c17PartSink) NewPartType(*queue.ChunkedSyncPartContext) error { return nil }
func (h *c17PartSink) FinishSync() error                                { h.finished++; return nil }
func (h *c17PartSink) Close() error                                     { h.closed++; return nil }

type c17Stream struct {
	clusterv1.ChunkedSyncService_SyncPartServer
	last *clusterv1.SyncPartResponse
}

func (s *c17Stream) Send(r *clusterv1.SyncPartResponse) error { s.last = r; return nil }
func (s *c17Stream) Context() context.Context                 { return context.Background() }

//verif:harness prop=C17 tier=quick,thorough reach=completed paths=400000
// Part transfer is exact: a sender that follows the protocol (chunks 0..N-1 in order, the same
// chunk again after a checksum-mismatch answer, completion at the end) against the real
// receiver - with chunk reordering enabled (the default) or not, over a transport that may
// duplicate a chunk and (reordering) let a chunk overtake its predecessor - ends in one of two ways only:
// the transfer is reported successful and the receiver applied exactly the bytes of chunks
// 0..N-1, each once, in order, and installed the part once; or the transfer is not reported
// successful. A chunk corrupted in transit (checksum mismatch) never leaves a hole that the
// receiver papers over.
// bound: one part, N = 2..3 chunks of 2 bytes; each transmission corrupted in transit or not (at most 1 corruption per chunk, thorough 2, then the retry goes through); an acknowledged chunk delivered a second time or not; with reordering enabled a chunk may be overtaken by its successor; reordering enabled or not
func VerifH_C17_ChunkProtocolDeliversThePartExactly() {
	sink := &c17PartSink{}
	topicName := data.TopicMeasurePartSync.String()
	s := &server{
		log:                   logger.GetLogger("c17"),
		chunkedSyncHandlers:   map[bus.Topic]queue.ChunkedSyncHandler{data.TopicMeasurePartSync: sink},
		enableChunkReordering: zzverif.Bool("reordering enabled"),
		maxChunkBufferSize:    10, maxChunkGapSize: 5, chunkBufferTimeout: 1<<63 - 1, // the sender is never slow enough for the buffer timeout
	}
	stream := &c17Stream{}
	n := 2 + zzverif.Choice("chunks", 2)
	maxCorrupt := 1
	if zzverif.Thorough() {
		maxCorrupt = 2
	}
	var session *syncSession
	var want []byte
	var pending []int
	for i := 0; i < n; i++ {
		pending = append(pending, i)
		want = append(want, byte(0x10+i), byte(0x20+i))
	}
	for len(pending) > 0 {
		// the transport delivers the oldest undelivered chunk, or (reordering) lets the next one overtake it
		k := 0
		if s.enableChunkReordering && len(pending) > 1 && zzverif.Bool("overtaken by the next chunk") {
			k = 1
		}
		i := pending[k]
		pending = append(pending[:k:k], pending[k+1:]...)
		payload := []byte{byte(0x10 + i), byte(0x20 + i)}
		good := fmt.Sprintf("%x", crc32.ChecksumIEEE(payload))
		mk := func(checksum string) *clusterv1.SyncPartRequest {
			return &clusterv1.SyncPartRequest{
				SessionId: "s", ChunkIndex: uint32(i), ChunkData: payload, ChunkChecksum: checksum,
				PartsInfo: []*clusterv1.PartInfo{{Id: 7, PartType: "core", Files: []*clusterv1.FileInfo{{Name: "f", Offset: 0, Size: 2}}}},
			}
		}
		for tries := 0; ; tries++ {
			req := mk(good)
			if tries < maxCorrupt && zzverif.Bool("corrupted in transit") {
				req.ChunkChecksum = "not-the-checksum"
			}
			if session == nil {
				req.Content = &clusterv1.SyncPartRequest_Metadata{Metadata: &clusterv1.SyncMetadata{Group: "g", Topic: topicName, TotalParts: 1}}
				session = s.startOrSwitchSession("s", req, nil)
			}
			err := s.processChunk(stream, session, req)
			if err != nil || stream.last == nil {
				zzverif.Reach("aborted")
				return // the receiver aborted the stream: nothing is reported successful
			}
			st := stream.last.Status
			if st == clusterv1.SyncStatus_SYNC_STATUS_CHUNK_RECEIVED {
				break
			}
			if st != clusterv1.SyncStatus_SYNC_STATUS_CHUNK_CHECKSUM_MISMATCH {
				zzverif.Reach("aborted")
				return // the sender gives up on any other answer
			}
		}
		// an acknowledged chunk may be delivered once more (a retransmission whose answer is dropped)
		if zzverif.Bool("delivered twice") {
			if err := s.processChunk(stream, session, mk(good)); err != nil {
				zzverif.Reach("aborted")
				return
			}
		}
	}
	done := &clusterv1.SyncPartRequest{SessionId: "s", ChunkIndex: uint32(n),
		Content: &clusterv1.SyncPartRequest_Completion{Completion: &clusterv1.SyncCompletion{TotalBytesSent: uint64(2 * n), TotalPartsSent: 1, TotalChunks: uint32(n)}}}
	err := s.handleCompletion(stream, session, done)
	zzverif.Reach("completed")
	ok := err == nil && stream.last != nil && stream.last.Status == clusterv1.SyncStatus_SYNC_STATUS_SYNC_COMPLETE && stream.last.SyncResult.GetSuccess()
	if !ok {
		return
	}
	zzverif.Assert(sink.finished == 1, "a transfer reported successful installed the part exactly once")
	zzverif.Assert(len(sink.applied) == len(want), "a transfer reported successful applied every chunk exactly once")
	for i := range want {
		if i < len(sink.applied) {
			zzverif.Assert(sink.applied[i] == want[i], "a transfer reported successful applied the sender's bytes in order")
		}
	}
}
