// The module path is deliberately inside google.golang.org/protobuf/cmd/protoc-gen-go:
// it lets this program import .../protoc-gen-go/internal_gengo (Go "internal" rule is
// import-path based) from the unmodified module-cache copy of google.golang.org/protobuf.
module google.golang.org/protobuf/cmd/protoc-gen-go/pbgen

go 1.25.13

require (
	github.com/envoyproxy/protoc-gen-validate v1.3.3
	github.com/grpc-ecosystem/grpc-gateway/v2 v2.30.0
	google.golang.org/genproto/googleapis/api v0.0.0-20260810153831-ec0a7760b754
	google.golang.org/protobuf v1.36.12
)
