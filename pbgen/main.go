// pbgen regenerates the protobuf Go code of apache/skywalking-banyandb fully
// offline, without protoc/buf or any protoc plugin binaries.
//
// Usage:
//
//	export GOFLAGS=-mod=mod GOPROXY=off
//	cd /verif/pbgen && go build -o /verif/bin/pbgen .
//	/verif/bin/pbgen -repo /repo -out /tmp/pbout
//	cd /repo && go build -overlay /tmp/pbout/overlay.json ./...
//
// What it does:
//  1. parses every *.proto under <repo>/api/proto with its own proto3 parser
//     (parser.go) and resolves type names with protoc's scoping rules
//     (resolve.go). All options except go_package/deprecated/allow_alias/
//     json_name are parsed and discarded (so no validate rules, http bindings
//     or openapi annotations end up in the descriptors). Imports are kept as
//     written; external imports (google/protobuf/*, validate, google/api,
//     protoc-gen-openapiv2) are taken from protoregistry.GlobalFiles via the
//     blank imports below.
//  2. runs the real protoc-gen-go (internal_gengo) in-process to produce
//     <out>/api/proto/<path>.pb.go, so reflection/Marshal/protojson are real.
//  3. emits with its own generators (gen.go):
//     *_grpc.pb.go      protoc-gen-go-grpc v1.5+ style (generic stream types +
//     Xxx_MethodClient/Server aliases), fully functional;
//     *.pb.validate.go  no-op Validate()/ValidateAll() for every message;
//     *.pb.gw.go        grpc-gateway Register*Handler* stubs returning nil.
//  4. writes <out>/overlay.json for `go build|vet|test -overlay`, mapping
//     <repo>/api/proto/... paths to the generated files.
//  5. (-stub-ui, default true) if <repo>/ui/embed.go exists but the npm-built
//     <repo>/ui/dist does not, adds a placeholder <repo>/ui/dist/index.html to
//     the overlay so that `//go:embed dist` in package ui (imported by
//     banyand/liaison/http and thus the server binaries) type-checks.
//
// Output is deterministic. The module path of this program is
// google.golang.org/protobuf/cmd/protoc-gen-go/pbgen on purpose: it makes the
// Go "internal" rule accept the import of .../protoc-gen-go/internal_gengo
// from the (unmodified, module-cache) google.golang.org/protobuf module.
package main

import (
	"encoding/json"
	"flag"
	"fmt"
	"io/fs"
	"os"
	"path/filepath"
	"strings"

	"google.golang.org/protobuf/types/descriptorpb"

	// external .proto dependencies, resolved through protoregistry.GlobalFiles
	_ "github.com/envoyproxy/protoc-gen-validate/validate"
	_ "github.com/grpc-ecosystem/grpc-gateway/v2/protoc-gen-openapiv2/options"
	_ "google.golang.org/genproto/googleapis/api/annotations"
	_ "google.golang.org/protobuf/types/known/anypb"
	_ "google.golang.org/protobuf/types/known/durationpb"
	_ "google.golang.org/protobuf/types/known/emptypb"
	_ "google.golang.org/protobuf/types/known/fieldmaskpb"
	_ "google.golang.org/protobuf/types/known/structpb"
	_ "google.golang.org/protobuf/types/known/timestamppb"
	_ "google.golang.org/protobuf/types/known/wrapperspb"
)

const protoRoot = "api/proto" // relative to -repo; also the protoc include root

func main() {
	repo := flag.String("repo", "", "path to the skywalking-banyandb checkout")
	out := flag.String("out", "", "output directory")
	stubUI := flag.Bool("stub-ui", true, "overlay a placeholder ui/dist/index.html when <repo>/ui/dist is missing")
	flag.Parse()
	if *repo == "" || *out == "" || flag.NArg() != 0 {
		fmt.Fprintln(os.Stderr, "usage: pbgen -repo <repo> -out <outdir> [-stub-ui=false]")
		os.Exit(2)
	}
	if err := run(*repo, *out, *stubUI); err != nil {
		fmt.Fprintln(os.Stderr, "pbgen:", err)
		os.Exit(1)
	}
}

func run(repo, out string, stubUI bool) error {
	repo, err := filepath.Abs(repo)
	if err != nil {
		return err
	}
	if out, err = filepath.Abs(out); err != nil {
		return err
	}
	root := filepath.Join(repo, filepath.FromSlash(protoRoot))

	// 1. parse
	u := &universe{files: map[string]*descriptorpb.FileDescriptorProto{}, local: map[string]bool{}}
	err = filepath.WalkDir(root, func(p string, d fs.DirEntry, err error) error {
		if err != nil || d.IsDir() || !strings.HasSuffix(p, ".proto") {
			return err
		}
		rel, err := filepath.Rel(root, p)
		if err != nil {
			return err
		}
		src, err := os.ReadFile(p)
		if err != nil {
			return err
		}
		name := filepath.ToSlash(rel)
		fd, err := parseProto(name, string(src))
		if err != nil {
			return err
		}
		u.files[name], u.local[name] = fd, true
		return nil
	})
	if err != nil {
		return err
	}
	if len(u.local) == 0 {
		return fmt.Errorf("no .proto files under %s", root)
	}
	locals := sortedKeys(u.local)

	// 2. link
	for _, name := range locals {
		for _, dep := range u.files[name].Dependency {
			if !u.local[dep] {
				if err := u.loadExternal(dep); err != nil {
					return fmt.Errorf("%s: %v", name, err)
				}
			}
		}
	}
	if err := u.index(); err != nil {
		return err
	}
	for _, name := range locals {
		if err := u.resolveFile(name); err != nil {
			return err
		}
	}
	all, err := u.topoOrder()
	if err != nil {
		return err
	}

	// 3. generate
	files, err := generate(all, locals)
	if err != nil {
		return err
	}

	// 4. write
	outRoot := filepath.Join(out, filepath.FromSlash(protoRoot))
	if err := os.RemoveAll(outRoot); err != nil {
		return err
	}
	overlay := struct{ Replace map[string]string }{map[string]string{}}
	names := sortedKeys(files)
	for _, name := range names {
		dst := filepath.Join(outRoot, filepath.FromSlash(name))
		if err := os.MkdirAll(filepath.Dir(dst), 0o755); err != nil {
			return err
		}
		if err := os.WriteFile(dst, files[name], 0o644); err != nil {
			return err
		}
		overlay.Replace[filepath.Join(root, filepath.FromSlash(name))] = dst
	}
	uiNote := ""
	if _, err := os.Stat(filepath.Join(repo, "ui", "embed.go")); stubUI && err == nil {
		if _, err := os.Stat(filepath.Join(repo, "ui", "dist")); os.IsNotExist(err) {
			dst := filepath.Join(out, "ui", "dist", "index.html")
			if err := os.MkdirAll(filepath.Dir(dst), 0o755); err != nil {
				return err
			}
			if err := os.WriteFile(dst, []byte("<!doctype html><title>pbgen placeholder for ui/dist</title>\n"), 0o644); err != nil {
				return err
			}
			overlay.Replace[filepath.Join(repo, "ui", "dist", "index.html")] = dst
			uiNote = " + ui/dist placeholder"
		}
	}
	js, err := json.MarshalIndent(overlay, "", "  ") // map keys are emitted sorted
	if err != nil {
		return err
	}
	if err := os.WriteFile(filepath.Join(out, "overlay.json"), append(js, '\n'), 0o644); err != nil {
		return err
	}
	kinds := map[string]int{}
	for _, n := range names {
		base := filepath.Base(n)
		switch i := strings.IndexByte(base, '.'); {
		case strings.HasSuffix(base, "_grpc.pb.go"):
			kinds["_grpc.pb.go"]++
		default:
			kinds[base[i:]]++
		}
	}
	var parts []string
	for _, k := range sortedKeys(kinds) {
		parts = append(parts, fmt.Sprintf("%d *%s", kinds[k], k))
	}
	fmt.Printf("pbgen: %d proto files -> %d Go files (%s)%s in %s\n", len(locals), len(names), strings.Join(parts, ", "), uiNote, outRoot)
	return nil
}
