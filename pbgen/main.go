package main

import (
	"fmt"
	_ "google.golang.org/protobuf/cmd/protoc-gen-go/internal_gengo"
)

func main() { fmt.Println("ok") }
