// parser.go: a small hand-written proto3 lexer/parser that produces
// descriptorpb.FileDescriptorProto values directly (type names are left
// unresolved, see resolve.go). Options other than go_package / deprecated /
// allow_alias are parsed and discarded. Leading/trailing/detached comments are
// recorded in SourceCodeInfo so that protoc-gen-go reproduces doc comments.
package main

import (
	"fmt"
	"strconv"
	"strings"

	"google.golang.org/protobuf/proto"
	"google.golang.org/protobuf/types/descriptorpb"
)

// ---------------------------------------------------------------- lexer

type tokKind int

const (
	tEOF tokKind = iota
	tIdent
	tNum
	tString
	tSym
)

type token struct {
	kind      tokKind
	text      string // identifier / number text / decoded string / symbol
	line, col int    // 1-based
	lead      string // leading comment attached to this token
	detached  []string
	prevTrail string // trailing comment of the *previous* token
}

type comment struct {
	text           string
	start, end     int // lines
	lineStyle      bool
	startsAfterTok bool // starts on the same line as the previous token
}

type lexer struct {
	file      string
	src       string
	pos       int
	line, col int
}

func (l *lexer) errf(format string, a ...any) {
	panic(fmt.Errorf("%s:%d:%d: %s", l.file, l.line, l.col, fmt.Sprintf(format, a...)))
}

func (l *lexer) adv() byte {
	c := l.src[l.pos]
	l.pos++
	if c == '\n' {
		l.line++
		l.col = 1
	} else {
		l.col++
	}
	return c
}

func isIdentStart(c byte) bool {
	return c == '_' || (c >= 'a' && c <= 'z') || (c >= 'A' && c <= 'Z')
}
func isDigit(c byte) bool { return c >= '0' && c <= '9' }

// lex tokenizes the whole file, classifying comments the way protoc does
// (approximately): a comment starting on the line of the previous token is its
// trailing comment; the last comment block directly adjacent to the next token
// is that token's leading comment; everything else is detached.
func lex(file, src string) []token {
	l := &lexer{file: file, src: src, line: 1, col: 1}
	var toks []token
	prevLine := 0
	for {
		var blocks []comment
		// skip whitespace and collect comments
		for l.pos < len(l.src) {
			c := l.src[l.pos]
			if c == ' ' || c == '\t' || c == '\r' || c == '\n' || c == '\f' || c == '\v' {
				l.adv()
				continue
			}
			if c == '/' && l.pos+1 < len(l.src) && l.src[l.pos+1] == '/' {
				startLine := l.line
				l.adv()
				l.adv()
				b := l.pos
				for l.pos < len(l.src) && l.src[l.pos] != '\n' {
					l.adv()
				}
				text := l.src[b:l.pos] + "\n"
				// consecutive "//" lines form one block, except that a trailing
				// comment on the previous token's line always stands alone.
				if n := len(blocks); n > 0 && blocks[n-1].lineStyle && blocks[n-1].end == startLine-1 &&
					!blocks[n-1].startsAfterTok {
					blocks[n-1].text += text
					blocks[n-1].end = startLine
				} else {
					blocks = append(blocks, comment{text: text, start: startLine, end: startLine, lineStyle: true,
						startsAfterTok: startLine == prevLine})
				}
				continue
			}
			if c == '/' && l.pos+1 < len(l.src) && l.src[l.pos+1] == '*' {
				startLine := l.line
				l.adv()
				l.adv()
				b := l.pos
				for {
					if l.pos+1 >= len(l.src) {
						l.errf("unterminated block comment")
					}
					if l.src[l.pos] == '*' && l.src[l.pos+1] == '/' {
						break
					}
					l.adv()
				}
				raw := l.src[b:l.pos]
				l.adv()
				l.adv()
				// strip the conventional leading " * " on continuation lines
				lines := strings.Split(raw, "\n")
				for i := 1; i < len(lines); i++ {
					t := strings.TrimLeft(lines[i], " \t")
					if strings.HasPrefix(t, "*") {
						t = t[1:]
					}
					lines[i] = t
				}
				blocks = append(blocks, comment{text: strings.Join(lines, "\n"), start: startLine, end: l.line,
					startsAfterTok: startLine == prevLine})
				continue
			}
			break
		}
		tok := token{line: l.line, col: l.col}
		// classify comments
		if len(blocks) > 0 && blocks[0].startsAfterTok && prevLine > 0 {
			tok.prevTrail = blocks[0].text
			blocks = blocks[1:]
		}
		if n := len(blocks); n > 0 && blocks[n-1].end >= tok.line-1 {
			tok.lead = blocks[n-1].text
			blocks = blocks[:n-1]
		}
		for _, b := range blocks {
			tok.detached = append(tok.detached, b.text)
		}
		if l.pos >= len(l.src) {
			tok.kind = tEOF
			toks = append(toks, tok)
			return toks
		}
		c := l.src[l.pos]
		switch {
		case isIdentStart(c):
			b := l.pos
			for l.pos < len(l.src) && (isIdentStart(l.src[l.pos]) || isDigit(l.src[l.pos])) {
				l.adv()
			}
			tok.kind, tok.text = tIdent, l.src[b:l.pos]
		case isDigit(c) || (c == '.' && l.pos+1 < len(l.src) && isDigit(l.src[l.pos+1])):
			b := l.pos
			for l.pos < len(l.src) {
				c := l.src[l.pos]
				if isDigit(c) || isIdentStart(c) || c == '.' ||
					((c == '+' || c == '-') && (l.src[l.pos-1] == 'e' || l.src[l.pos-1] == 'E') &&
						!strings.HasPrefix(l.src[b:l.pos], "0x") && !strings.HasPrefix(l.src[b:l.pos], "0X")) {
					l.adv()
					continue
				}
				break
			}
			tok.kind, tok.text = tNum, l.src[b:l.pos]
		case c == '"' || c == '\'':
			tok.kind, tok.text = tString, l.lexString()
		default:
			l.adv()
			tok.kind, tok.text = tSym, string(c)
		}
		prevLine = l.line
		toks = append(toks, tok)
	}
}

func (l *lexer) lexString() string {
	q := l.adv()
	var sb strings.Builder
	for {
		if l.pos >= len(l.src) || l.src[l.pos] == '\n' {
			l.errf("unterminated string literal")
		}
		c := l.adv()
		if c == q {
			return sb.String()
		}
		if c != '\\' {
			sb.WriteByte(c)
			continue
		}
		if l.pos >= len(l.src) {
			l.errf("unterminated escape")
		}
		e := l.adv()
		switch e {
		case 'a':
			sb.WriteByte('\a')
		case 'b':
			sb.WriteByte('\b')
		case 'f':
			sb.WriteByte('\f')
		case 'n':
			sb.WriteByte('\n')
		case 'r':
			sb.WriteByte('\r')
		case 't':
			sb.WriteByte('\t')
		case 'v':
			sb.WriteByte('\v')
		case '\\', '\'', '"', '?':
			sb.WriteByte(e)
		case 'x', 'X':
			v, n := 0, 0
			for n < 2 && l.pos < len(l.src) && isHex(l.src[l.pos]) {
				v = v*16 + hexVal(l.adv())
				n++
			}
			if n == 0 {
				l.errf("bad \\x escape")
			}
			sb.WriteByte(byte(v))
		case 'u', 'U':
			n := 4
			if e == 'U' {
				n = 8
			}
			v := 0
			for i := 0; i < n; i++ {
				if l.pos >= len(l.src) || !isHex(l.src[l.pos]) {
					l.errf("bad unicode escape")
				}
				v = v*16 + hexVal(l.adv())
			}
			sb.WriteRune(rune(v))
		default:
			if e >= '0' && e <= '7' {
				v := int(e - '0')
				for n := 1; n < 3 && l.pos < len(l.src) && l.src[l.pos] >= '0' && l.src[l.pos] <= '7'; n++ {
					v = v*8 + int(l.adv()-'0')
				}
				sb.WriteByte(byte(v))
			} else {
				l.errf("unknown escape \\%c", e)
			}
		}
	}
}

func isHex(c byte) bool {
	return isDigit(c) || (c >= 'a' && c <= 'f') || (c >= 'A' && c <= 'F')
}
func hexVal(c byte) int {
	switch {
	case isDigit(c):
		return int(c - '0')
	case c >= 'a':
		return int(c-'a') + 10
	}
	return int(c-'A') + 10
}

// ---------------------------------------------------------------- parser

type parser struct {
	file string
	toks []token
	pos  int
	fd   *descriptorpb.FileDescriptorProto
	locs []*descriptorpb.SourceCodeInfo_Location
}

var scalarTypes = map[string]descriptorpb.FieldDescriptorProto_Type{
	"double": descriptorpb.FieldDescriptorProto_TYPE_DOUBLE, "float": descriptorpb.FieldDescriptorProto_TYPE_FLOAT,
	"int32": descriptorpb.FieldDescriptorProto_TYPE_INT32, "int64": descriptorpb.FieldDescriptorProto_TYPE_INT64,
	"uint32": descriptorpb.FieldDescriptorProto_TYPE_UINT32, "uint64": descriptorpb.FieldDescriptorProto_TYPE_UINT64,
	"sint32": descriptorpb.FieldDescriptorProto_TYPE_SINT32, "sint64": descriptorpb.FieldDescriptorProto_TYPE_SINT64,
	"fixed32": descriptorpb.FieldDescriptorProto_TYPE_FIXED32, "fixed64": descriptorpb.FieldDescriptorProto_TYPE_FIXED64,
	"sfixed32": descriptorpb.FieldDescriptorProto_TYPE_SFIXED32, "sfixed64": descriptorpb.FieldDescriptorProto_TYPE_SFIXED64,
	"bool": descriptorpb.FieldDescriptorProto_TYPE_BOOL, "string": descriptorpb.FieldDescriptorProto_TYPE_STRING,
	"bytes": descriptorpb.FieldDescriptorProto_TYPE_BYTES,
}

// parseProto parses one .proto source into an (unresolved) FileDescriptorProto.
func parseProto(name, src string) (fd *descriptorpb.FileDescriptorProto, err error) {
	defer func() {
		if r := recover(); r != nil {
			if e, ok := r.(error); ok {
				err = e
				return
			}
			panic(r)
		}
	}()
	p := &parser{file: name, toks: lex(name, src), fd: &descriptorpb.FileDescriptorProto{Name: proto.String(name)}}
	p.parseFile()
	p.fd.SourceCodeInfo = &descriptorpb.SourceCodeInfo{Location: p.locs}
	return p.fd, nil
}

func (p *parser) tok() *token { return &p.toks[p.pos] }
func (p *parser) next() *token {
	t := &p.toks[p.pos]
	if t.kind != tEOF {
		p.pos++
	}
	return t
}

func (p *parser) errf(format string, a ...any) {
	t := p.tok()
	panic(fmt.Errorf("%s:%d:%d: %s", p.file, t.line, t.col, fmt.Sprintf(format, a...)))
}

func (p *parser) isSym(s string) bool   { t := p.tok(); return t.kind == tSym && t.text == s }
func (p *parser) isIdent(s string) bool { t := p.tok(); return t.kind == tIdent && t.text == s }
func (p *parser) peekSym(n int, s string) bool {
	if p.pos+n >= len(p.toks) {
		return false
	}
	t := &p.toks[p.pos+n]
	return t.kind == tSym && t.text == s
}

func (p *parser) accept(s string) bool {
	if p.isSym(s) {
		p.pos++
		return true
	}
	return false
}

func (p *parser) expect(s string) {
	if !p.accept(s) {
		p.errf("expected %q, found %q", s, p.tok().text)
	}
}

func (p *parser) ident() string {
	t := p.tok()
	if t.kind != tIdent {
		p.errf("expected identifier, found %q", t.text)
	}
	p.pos++
	return t.text
}

func (p *parser) str() string {
	t := p.tok()
	if t.kind != tString {
		p.errf("expected string literal, found %q", t.text)
	}
	s := ""
	for p.tok().kind == tString { // adjacent literals concatenate
		s += p.next().text
	}
	return s
}

func (p *parser) intLit() int64 {
	neg := p.accept("-")
	t := p.tok()
	if t.kind != tNum {
		p.errf("expected integer, found %q", t.text)
	}
	p.pos++
	v, err := strconv.ParseUint(t.text, 0, 64)
	if err != nil {
		p.errf("bad integer %q", t.text)
	}
	if neg {
		return -int64(v)
	}
	return int64(v)
}

// fullIdent parses [.]a.b.c
func (p *parser) fullIdent() string {
	s := ""
	if p.accept(".") {
		s = "."
	}
	s += p.ident()
	for p.isSym(".") {
		p.pos++
		s += "." + p.ident()
	}
	return s
}

// beginLoc records a source location for path, taking comments from the
// current token. Trailing comments are filled by endLoc.
func (p *parser) beginLoc(path []int32) *descriptorpb.SourceCodeInfo_Location {
	t := p.tok()
	loc := &descriptorpb.SourceCodeInfo_Location{
		Path: append([]int32(nil), path...),
		Span: []int32{int32(t.line - 1), int32(t.col - 1), int32(t.col - 1 + len(t.text))},
	}
	if t.lead != "" {
		loc.LeadingComments = proto.String(t.lead)
	}
	loc.LeadingDetachedComments = append([]string(nil), t.detached...)
	p.locs = append(p.locs, loc)
	return loc
}

// endLoc must be called right after consuming the token that ends the
// declaration head (";" for simple statements, "{" for blocks).
func (p *parser) endLoc(loc *descriptorpb.SourceCodeInfo_Location) {
	if tr := p.tok().prevTrail; tr != "" {
		loc.TrailingComments = proto.String(tr)
	}
}

func sub(path []int32, elems ...int32) []int32 {
	return append(append([]int32(nil), path...), elems...)
}

// optionValue describes the few option values we keep.
type optionValue struct {
	name   string // e.g. "go_package", "(validate.rules).string.min_len"
	str    string
	ident  string
	isStr  bool
	simple bool // false for aggregates
}

// parseOptionNameValue parses `name = constant` (without the trailing ";" or
// "," / "]"). Aggregates `{...}` (with nested braces, lists, strings) are
// skipped over on the token level.
func (p *parser) parseOptionNameValue() optionValue {
	var ov optionValue
	var sb strings.Builder
	for {
		if p.accept("(") {
			sb.WriteString("(" + p.fullIdent() + ")")
			p.expect(")")
		} else {
			sb.WriteString(p.ident())
		}
		if !p.accept(".") {
			break
		}
		sb.WriteByte('.')
	}
	ov.name = sb.String()
	p.expect("=")
	switch {
	case p.isSym("{") || p.isSym("<"):
		p.skipBalanced()
	case p.tok().kind == tString:
		ov.str, ov.isStr, ov.simple = p.str(), true, true
	case p.tok().kind == tIdent:
		ov.ident, ov.simple = p.next().text, true
	default:
		if !p.accept("-") {
			p.accept("+")
		}
		t := p.next()
		if t.kind != tNum && t.kind != tIdent { // ident: inf / nan
			p.errf("bad option value %q", t.text)
		}
		ov.ident, ov.simple = t.text, true
	}
	return ov
}

// skipBalanced skips a bracketed group starting at the current token.
func (p *parser) skipBalanced() {
	depth := 0
	for {
		t := p.next()
		if t.kind == tEOF {
			p.errf("unexpected EOF in option aggregate")
		}
		if t.kind != tSym {
			continue
		}
		switch t.text {
		case "{", "[", "<", "(":
			depth++
		case "}", "]", ">", ")":
			depth--
			if depth == 0 {
				return
			}
		}
	}
}

// parseOptionStmt parses `option name = value;` (current token is "option").
func (p *parser) parseOptionStmt() optionValue {
	p.pos++
	ov := p.parseOptionNameValue()
	p.expect(";")
	return ov
}

// parseBracketOptions parses an optional `[a = b, (c).d = {...}]` list.
func (p *parser) parseBracketOptions() []optionValue {
	if !p.accept("[") {
		return nil
	}
	var out []optionValue
	for {
		out = append(out, p.parseOptionNameValue())
		if p.accept(",") {
			continue
		}
		p.expect("]")
		return out
	}
}

func isTrue(ovs []optionValue, name string) bool {
	for _, o := range ovs {
		if o.name == name && o.ident == "true" {
			return true
		}
	}
	return false
}

func (p *parser) parseFile() {
	fd := p.fd
	for {
		t := p.tok()
		if t.kind == tEOF {
			return
		}
		if p.accept(";") {
			continue
		}
		if t.kind != tIdent {
			p.errf("unexpected %q at top level", t.text)
		}
		switch t.text {
		case "syntax":
			loc := p.beginLoc([]int32{12})
			p.pos++
			p.expect("=")
			s := p.str()
			p.expect(";")
			p.endLoc(loc)
			if s != "proto3" {
				p.errf("only proto3 is supported, got syntax %q", s)
			}
			fd.Syntax = proto.String(s)
		case "edition":
			p.errf("editions are not supported")
		case "package":
			loc := p.beginLoc([]int32{2})
			p.pos++
			fd.Package = proto.String(p.fullIdent())
			p.expect(";")
			p.endLoc(loc)
		case "import":
			loc := p.beginLoc([]int32{3, int32(len(fd.Dependency))})
			p.pos++
			idx := int32(len(fd.Dependency))
			if p.isIdent("public") {
				p.pos++
				fd.PublicDependency = append(fd.PublicDependency, idx)
			} else if p.isIdent("weak") {
				p.pos++
				fd.WeakDependency = append(fd.WeakDependency, idx)
			}
			fd.Dependency = append(fd.Dependency, p.str())
			p.expect(";")
			p.endLoc(loc)
		case "option":
			ov := p.parseOptionStmt()
			goPkg, depr := ov.name == "go_package" && ov.isStr, ov.name == "deprecated" && ov.ident == "true"
			if (goPkg || depr) && fd.Options == nil {
				fd.Options = &descriptorpb.FileOptions{}
			}
			if goPkg {
				fd.Options.GoPackage = proto.String(ov.str)
			} else if depr {
				fd.Options.Deprecated = proto.Bool(true)
			}
		case "message":
			fd.MessageType = append(fd.MessageType, p.parseMessage([]int32{4, int32(len(fd.MessageType))}))
		case "enum":
			fd.EnumType = append(fd.EnumType, p.parseEnum([]int32{5, int32(len(fd.EnumType))}))
		case "service":
			fd.Service = append(fd.Service, p.parseService([]int32{6, int32(len(fd.Service))}))
		case "extend":
			p.errf("extend is not supported")
		default:
			p.errf("unexpected %q at top level", t.text)
		}
	}
}

func (p *parser) parseMessage(path []int32) *descriptorpb.DescriptorProto {
	loc := p.beginLoc(path)
	p.pos++ // "message"
	m := &descriptorpb.DescriptorProto{Name: proto.String(p.ident())}
	p.expect("{")
	p.endLoc(loc)
	var optionals []*descriptorpb.FieldDescriptorProto
	for !p.accept("}") {
		t := p.tok()
		if t.kind == tEOF {
			p.errf("unexpected EOF in message %s", m.GetName())
		}
		if p.accept(";") {
			continue
		}
		if t.kind == tIdent {
			switch {
			case t.text == "message" && p.peekSym(2, "{"):
				m.NestedType = append(m.NestedType, p.parseMessage(sub(path, 3, int32(len(m.NestedType)))))
				continue
			case t.text == "enum" && p.peekSym(2, "{"):
				m.EnumType = append(m.EnumType, p.parseEnum(sub(path, 4, int32(len(m.EnumType)))))
				continue
			case t.text == "oneof" && p.peekSym(2, "{"):
				p.parseOneof(m, path)
				continue
			case t.text == "option":
				if ov := p.parseOptionStmt(); ov.name == "deprecated" && ov.ident == "true" {
					if m.Options == nil {
						m.Options = &descriptorpb.MessageOptions{}
					}
					m.Options.Deprecated = proto.Bool(true)
				}
				continue
			case t.text == "reserved" && !p.peekSym(2, "=") && !p.peekSym(1, "."):
				p.parseReserved(func(s, e int32) {
					m.ReservedRange = append(m.ReservedRange, &descriptorpb.DescriptorProto_ReservedRange{Start: proto.Int32(s), End: proto.Int32(e + 1)})
				}, func(n string) { m.ReservedName = append(m.ReservedName, n) }, 536870911)
				continue
			case t.text == "extensions" || t.text == "extend" || t.text == "group":
				if !p.peekSym(2, "=") {
					p.errf("%s is not supported in proto3", t.text)
				}
			}
		}
		f := p.parseField(m, path, true)
		if f.GetProto3Optional() {
			optionals = append(optionals, f)
		}
	}
	// proto3 optional fields get synthetic oneofs after all real ones.
	for _, f := range optionals {
		name := "_" + f.GetName()
		for hasOneof(m, name) {
			name = "X" + name
		}
		f.OneofIndex = proto.Int32(int32(len(m.OneofDecl)))
		m.OneofDecl = append(m.OneofDecl, &descriptorpb.OneofDescriptorProto{Name: proto.String(name)})
	}
	return m
}

func hasOneof(m *descriptorpb.DescriptorProto, name string) bool {
	for _, o := range m.OneofDecl {
		if o.GetName() == name {
			return true
		}
	}
	return false
}

func (p *parser) parseOneof(m *descriptorpb.DescriptorProto, path []int32) {
	idx := int32(len(m.OneofDecl))
	loc := p.beginLoc(sub(path, 8, idx))
	p.pos++ // "oneof"
	m.OneofDecl = append(m.OneofDecl, &descriptorpb.OneofDescriptorProto{Name: proto.String(p.ident())})
	p.expect("{")
	p.endLoc(loc)
	for !p.accept("}") {
		if p.tok().kind == tEOF {
			p.errf("unexpected EOF in oneof")
		}
		if p.accept(";") {
			continue
		}
		if p.isIdent("option") && !p.peekSym(2, "=") {
			p.parseOptionStmt()
			continue
		}
		f := p.parseField(m, path, false)
		f.OneofIndex = proto.Int32(idx)
	}
}

// parseField parses a (possibly map) field and appends it to m.
func (p *parser) parseField(m *descriptorpb.DescriptorProto, path []int32, allowLabel bool) *descriptorpb.FieldDescriptorProto {
	loc := p.beginLoc(sub(path, 2, int32(len(m.Field))))
	f := &descriptorpb.FieldDescriptorProto{Label: descriptorpb.FieldDescriptorProto_LABEL_OPTIONAL.Enum()}
	// a label keyword is only a label if followed by a type and a name
	if t := p.tok(); allowLabel && t.kind == tIdent && !p.peekSym(2, "=") {
		switch t.text {
		case "repeated":
			f.Label = descriptorpb.FieldDescriptorProto_LABEL_REPEATED.Enum()
			p.pos++
		case "optional":
			f.Proto3Optional = proto.Bool(true)
			p.pos++
		case "required":
			p.errf("required fields are not allowed in proto3")
		}
	}
	var mapKey, mapVal string
	if p.isIdent("map") && p.peekSym(1, "<") {
		if f.GetLabel() == descriptorpb.FieldDescriptorProto_LABEL_REPEATED || f.GetProto3Optional() || !allowLabel {
			p.errf("map fields cannot have labels or be in oneofs")
		}
		p.pos += 2
		mapKey = p.ident()
		p.expect(",")
		mapVal = p.fullIdent()
		p.expect(">")
	} else {
		setType(f, p.fullIdent())
	}
	f.Name = proto.String(p.ident())
	f.JsonName = proto.String(jsonName(f.GetName()))
	p.expect("=")
	num := p.intLit()
	if num < 1 || num > 536870911 || (num >= 19000 && num <= 19999) {
		p.errf("invalid field number %d", num)
	}
	f.Number = proto.Int32(int32(num))
	opts := p.parseBracketOptions()
	for _, o := range opts {
		if o.name == "json_name" && o.isStr {
			f.JsonName = proto.String(o.str)
		}
	}
	if isTrue(opts, "deprecated") {
		f.Options = &descriptorpb.FieldOptions{Deprecated: proto.Bool(true)}
	}
	p.expect(";")
	p.endLoc(loc)
	if mapKey != "" {
		if _, ok := scalarTypes[mapKey]; !ok || mapKey == "double" || mapKey == "float" || mapKey == "bytes" {
			p.errf("invalid map key type %q", mapKey)
		}
		entry := &descriptorpb.DescriptorProto{
			Name:    proto.String(camel(f.GetName()) + "Entry"),
			Options: &descriptorpb.MessageOptions{MapEntry: proto.Bool(true)},
		}
		k := &descriptorpb.FieldDescriptorProto{Name: proto.String("key"), JsonName: proto.String("key"),
			Number: proto.Int32(1), Label: descriptorpb.FieldDescriptorProto_LABEL_OPTIONAL.Enum()}
		setType(k, mapKey)
		v := &descriptorpb.FieldDescriptorProto{Name: proto.String("value"), JsonName: proto.String("value"),
			Number: proto.Int32(2), Label: descriptorpb.FieldDescriptorProto_LABEL_OPTIONAL.Enum()}
		setType(v, mapVal)
		entry.Field = []*descriptorpb.FieldDescriptorProto{k, v}
		m.NestedType = append(m.NestedType, entry)
		f.Label = descriptorpb.FieldDescriptorProto_LABEL_REPEATED.Enum()
		f.TypeName = proto.String(entry.GetName()) // relative: resolves to the sibling nested type
	}
	m.Field = append(m.Field, f)
	return f
}

// setType sets a scalar type, or leaves an unresolved type name for resolve.go.
func setType(f *descriptorpb.FieldDescriptorProto, name string) {
	if t, ok := scalarTypes[name]; ok {
		f.Type = t.Enum()
		return
	}
	f.TypeName = proto.String(name)
}

func (p *parser) parseReserved(addRange func(s, e int32), addName func(string), max int32) {
	p.pos++ // "reserved"
	for {
		switch t := p.tok(); {
		case t.kind == tString:
			addName(p.str())
		case t.kind == tIdent: // editions-style bare identifiers
			addName(p.ident())
		default:
			s := int32(p.intLit())
			e := s
			if p.isIdent("to") {
				p.pos++
				if p.isIdent("max") {
					p.pos++
					e = max
				} else {
					e = int32(p.intLit())
				}
			}
			addRange(s, e)
		}
		if !p.accept(",") {
			break
		}
	}
	p.expect(";")
}

func (p *parser) parseEnum(path []int32) *descriptorpb.EnumDescriptorProto {
	loc := p.beginLoc(path)
	p.pos++ // "enum"
	e := &descriptorpb.EnumDescriptorProto{Name: proto.String(p.ident())}
	p.expect("{")
	p.endLoc(loc)
	for !p.accept("}") {
		t := p.tok()
		if t.kind == tEOF {
			p.errf("unexpected EOF in enum %s", e.GetName())
		}
		if p.accept(";") {
			continue
		}
		if p.isIdent("option") && !p.peekSym(1, "=") {
			ov := p.parseOptionStmt()
			if ov.ident == "true" && (ov.name == "allow_alias" || ov.name == "deprecated") {
				if e.Options == nil {
					e.Options = &descriptorpb.EnumOptions{}
				}
				if ov.name == "allow_alias" {
					e.Options.AllowAlias = proto.Bool(true)
				} else {
					e.Options.Deprecated = proto.Bool(true)
				}
			}
			continue
		}
		if p.isIdent("reserved") && !p.peekSym(1, "=") {
			p.parseReserved(func(s, en int32) {
				e.ReservedRange = append(e.ReservedRange, &descriptorpb.EnumDescriptorProto_EnumReservedRange{Start: proto.Int32(s), End: proto.Int32(en)})
			}, func(n string) { e.ReservedName = append(e.ReservedName, n) }, 2147483647)
			continue
		}
		vloc := p.beginLoc(sub(path, 2, int32(len(e.Value))))
		v := &descriptorpb.EnumValueDescriptorProto{Name: proto.String(p.ident())}
		p.expect("=")
		v.Number = proto.Int32(int32(p.intLit()))
		if isTrue(p.parseBracketOptions(), "deprecated") {
			v.Options = &descriptorpb.EnumValueOptions{Deprecated: proto.Bool(true)}
		}
		p.expect(";")
		p.endLoc(vloc)
		e.Value = append(e.Value, v)
	}
	if len(e.Value) == 0 {
		p.errf("enum %s has no values", e.GetName())
	}
	return e
}

func (p *parser) parseService(path []int32) *descriptorpb.ServiceDescriptorProto {
	loc := p.beginLoc(path)
	p.pos++ // "service"
	s := &descriptorpb.ServiceDescriptorProto{Name: proto.String(p.ident())}
	p.expect("{")
	p.endLoc(loc)
	for !p.accept("}") {
		switch {
		case p.tok().kind == tEOF:
			p.errf("unexpected EOF in service %s", s.GetName())
		case p.accept(";"):
		case p.isIdent("option"):
			p.parseOptionStmt()
		case p.isIdent("rpc"):
			mloc := p.beginLoc(sub(path, 2, int32(len(s.Method))))
			p.pos++
			m := &descriptorpb.MethodDescriptorProto{Name: proto.String(p.ident())}
			rpcType := func() (string, bool) {
				p.expect("(")
				stream := false
				// "stream" is a keyword here only when followed by a type name
				if p.isIdent("stream") && !p.peekSym(1, ")") && !p.peekSym(1, ".") {
					stream = true
					p.pos++
				}
				n := p.fullIdent()
				p.expect(")")
				return n, stream
			}
			in, cs := rpcType()
			if !p.isIdent("returns") {
				p.errf("expected \"returns\"")
			}
			p.pos++
			out, ss := rpcType()
			m.InputType, m.OutputType = proto.String(in), proto.String(out)
			if cs {
				m.ClientStreaming = proto.Bool(true)
			}
			if ss {
				m.ServerStreaming = proto.Bool(true)
			}
			if p.accept("{") {
				p.endLoc(mloc)
				for !p.accept("}") {
					switch {
					case p.tok().kind == tEOF:
						p.errf("unexpected EOF in rpc %s", m.GetName())
					case p.accept(";"):
					case p.isIdent("option"):
						if ov := p.parseOptionStmt(); ov.name == "deprecated" && ov.ident == "true" {
							m.Options = &descriptorpb.MethodOptions{Deprecated: proto.Bool(true)}
						}
					default:
						p.errf("unexpected %q in rpc body", p.tok().text)
					}
				}
			} else {
				p.expect(";")
				p.endLoc(mloc)
			}
			s.Method = append(s.Method, m)
		default:
			p.errf("unexpected %q in service body", p.tok().text)
		}
	}
	return s
}

// jsonName implements protoc's ToJsonName (lowerCamelCase of snake_case).
func jsonName(s string) string {
	var sb strings.Builder
	up := false
	for i := 0; i < len(s); i++ {
		c := s[i]
		switch {
		case c == '_':
			up = true
		case up:
			if c >= 'a' && c <= 'z' {
				c -= 'a' - 'A'
			}
			sb.WriteByte(c)
			up = false
		default:
			sb.WriteByte(c)
		}
	}
	return sb.String()
}

// camel implements protoc's ToCamelCase(name, lower_first=false) used for map
// entry message names.
func camel(s string) string {
	var sb strings.Builder
	up := true
	for i := 0; i < len(s); i++ {
		c := s[i]
		switch {
		case c == '_':
			up = true
		case up:
			if c >= 'a' && c <= 'z' {
				c -= 'a' - 'A'
			}
			sb.WriteByte(c)
			up = false
		default:
			sb.WriteByte(c)
		}
	}
	return sb.String()
}
