// resolve.go: symbol table + protoc-compatible type name resolution over a set
// of FileDescriptorProtos (locally parsed ones and external dependencies taken
// from protoregistry.GlobalFiles).
package main

import (
	"fmt"
	"sort"
	"strings"

	"google.golang.org/protobuf/proto"
	"google.golang.org/protobuf/reflect/protodesc"
	"google.golang.org/protobuf/reflect/protoregistry"
	"google.golang.org/protobuf/types/descriptorpb"
)

type symKind int

const (
	symPackage symKind = iota
	symMessage
	symEnum
	symService
)

type symbol struct {
	kind symKind
	file string // defining file ("" for packages, which may span files)
}

type universe struct {
	files map[string]*descriptorpb.FileDescriptorProto // by path; local and external
	local map[string]bool
	syms  map[string]symbol // by fully-qualified name without leading dot
}

// loadExternal pulls path (and, recursively, its imports) from the global
// registry, which is populated by the blank imports in main.go.
func (u *universe) loadExternal(path string) error {
	if _, ok := u.files[path]; ok {
		return nil
	}
	d, err := protoregistry.GlobalFiles.FindFileByPath(path)
	if err != nil {
		return fmt.Errorf("import %q: not found under -repo and not linked into pbgen: %v", path, err)
	}
	fd := protodesc.ToFileDescriptorProto(d)
	u.files[path] = fd
	for _, dep := range fd.Dependency {
		if err := u.loadExternal(dep); err != nil {
			return err
		}
	}
	return nil
}

func (u *universe) addSym(name string, s symbol) error {
	if old, ok := u.syms[name]; ok && !(old.kind == symPackage && s.kind == symPackage) {
		return fmt.Errorf("%s: symbol %q already defined in %s", s.file, name, old.file)
	}
	u.syms[name] = s
	return nil
}

func join(scope, name string) string {
	if scope == "" {
		return name
	}
	return scope + "." + name
}

func (u *universe) index() error {
	u.syms = map[string]symbol{}
	for _, path := range sortedKeys(u.files) {
		fd := u.files[path]
		pkg := fd.GetPackage()
		for p := pkg; p != ""; {
			if err := u.addSym(p, symbol{kind: symPackage}); err != nil {
				return err
			}
			if i := strings.LastIndexByte(p, '.'); i >= 0 {
				p = p[:i]
			} else {
				p = ""
			}
		}
		var walk func(scope string, ms []*descriptorpb.DescriptorProto, es []*descriptorpb.EnumDescriptorProto) error
		walk = func(scope string, ms []*descriptorpb.DescriptorProto, es []*descriptorpb.EnumDescriptorProto) error {
			for _, e := range es {
				if err := u.addSym(join(scope, e.GetName()), symbol{symEnum, path}); err != nil {
					return err
				}
			}
			for _, m := range ms {
				full := join(scope, m.GetName())
				if err := u.addSym(full, symbol{symMessage, path}); err != nil {
					return err
				}
				if err := walk(full, m.NestedType, m.EnumType); err != nil {
					return err
				}
			}
			return nil
		}
		if err := walk(pkg, fd.MessageType, fd.EnumType); err != nil {
			return err
		}
		for _, s := range fd.Service {
			if err := u.addSym(join(pkg, s.GetName()), symbol{symService, path}); err != nil {
				return err
			}
		}
	}
	return nil
}

// lookup implements protoc's DescriptorBuilder::LookupSymbolNoPlaceholder for
// type lookups: search the first name component from the innermost scope
// outwards; once it names an aggregate, the rest must resolve inside it.
func (u *universe) lookup(scope, name string) (string, symbol, bool) {
	if strings.HasPrefix(name, ".") {
		s, ok := u.syms[name[1:]]
		return name[1:], s, ok && (s.kind == symMessage || s.kind == symEnum)
	}
	first, compound := name, false
	if i := strings.IndexByte(name, '.'); i >= 0 {
		first, compound = name[:i], true
	}
	for {
		cand := join(scope, first)
		if s, ok := u.syms[cand]; ok {
			if compound {
				// every symbol kind we index is an aggregate
				full := join(scope, name)
				fs, ok := u.syms[full]
				return full, fs, ok && (fs.kind == symMessage || fs.kind == symEnum)
			} else if s.kind == symMessage || s.kind == symEnum {
				return cand, s, true
			}
		}
		if scope == "" {
			return "", symbol{}, false
		}
		if i := strings.LastIndexByte(scope, '.'); i >= 0 {
			scope = scope[:i]
		} else {
			scope = ""
		}
	}
}

// visible returns the set of files whose symbols path may use: itself, its
// direct imports, and anything those re-export via "import public".
func (u *universe) visible(path string) map[string]bool {
	vis := map[string]bool{path: true}
	var addPublic func(p string)
	addPublic = func(p string) {
		if vis[p] {
			return
		}
		vis[p] = true
		fd := u.files[p]
		for _, i := range fd.GetPublicDependency() {
			addPublic(fd.Dependency[i])
		}
	}
	for _, d := range u.files[path].Dependency {
		addPublic(d)
	}
	return vis
}

// resolveFile rewrites every unresolved type reference in a parsed file to a
// fully-qualified ".pkg.Type" name and fixes field types (message vs enum).
func (u *universe) resolveFile(path string) error {
	fd := u.files[path]
	vis := u.visible(path)
	res := func(scope, name, what string) (string, symbol, error) {
		full, s, ok := u.lookup(scope, name)
		if !ok {
			return "", s, fmt.Errorf("%s: %s: type %q is not defined (scope %s)", path, what, name, scope)
		}
		if !vis[s.file] {
			return "", s, fmt.Errorf("%s: %s: type %q is defined in %s, which is not imported", path, what, name, s.file)
		}
		return "." + full, s, nil
	}
	var walk func(scope string, ms []*descriptorpb.DescriptorProto) error
	walk = func(scope string, ms []*descriptorpb.DescriptorProto) error {
		for _, m := range ms {
			full := join(scope, m.GetName())
			for _, f := range m.Field {
				if f.Type != nil {
					continue
				}
				tn, s, err := res(full, f.GetTypeName(), full+"."+f.GetName())
				if err != nil {
					return err
				}
				f.TypeName = proto.String(tn)
				if s.kind == symEnum {
					f.Type = descriptorpb.FieldDescriptorProto_TYPE_ENUM.Enum()
				} else {
					f.Type = descriptorpb.FieldDescriptorProto_TYPE_MESSAGE.Enum()
				}
			}
			if err := walk(full, m.NestedType); err != nil {
				return err
			}
		}
		return nil
	}
	if err := walk(fd.GetPackage(), fd.MessageType); err != nil {
		return err
	}
	for _, svc := range fd.Service {
		// method types are resolved in the scope of the service's full name
		scope := join(fd.GetPackage(), svc.GetName())
		for _, m := range svc.Method {
			for _, tp := range []**string{&m.InputType, &m.OutputType} {
				tn, s, err := res(scope, **tp, scope+"."+m.GetName())
				if err != nil {
					return err
				}
				if s.kind != symMessage {
					return fmt.Errorf("%s: %s.%s: %q is not a message type", path, scope, m.GetName(), **tp)
				}
				*tp = proto.String(tn)
			}
		}
	}
	return nil
}

// topoOrder returns all files with dependencies first, deterministically.
func (u *universe) topoOrder() ([]*descriptorpb.FileDescriptorProto, error) {
	var out []*descriptorpb.FileDescriptorProto
	state := map[string]int{}
	var visit func(p string, stack []string) error
	visit = func(p string, stack []string) error {
		switch state[p] {
		case 1:
			return fmt.Errorf("import cycle: %s -> %s", strings.Join(stack, " -> "), p)
		case 2:
			return nil
		}
		state[p] = 1
		for _, d := range u.files[p].Dependency {
			if err := visit(d, append(stack, p)); err != nil {
				return err
			}
		}
		state[p] = 2
		out = append(out, u.files[p])
		return nil
	}
	for _, p := range sortedKeys(u.files) {
		if err := visit(p, nil); err != nil {
			return nil, err
		}
	}
	return out, nil
}

func sortedKeys[V any](m map[string]V) []string {
	ks := make([]string, 0, len(m))
	for k := range m {
		ks = append(ks, k)
	}
	sort.Strings(ks)
	return ks
}
